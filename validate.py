#!/usr/bin/env python3
"""Validates MANIFEST.json and every evidence file against the harness schemas (needs the tooling venv: python3-vt)."""
import json, jsonschema, glob, sys
m=json.load(open('/verif/MANIFEST.json')); s=json.load(open('/root/.vp/MANIFEST.schema.json'))
jsonschema.validate(m,s); print("manifest ok:", len(m['checks']), "checks,", len(m.get('not_applicable',[])), "n/a")
es=json.load(open('/root/.vp/EVIDENCE.schema.json'))
bad=0
for c in m['checks']:
    f=c['evidence_file']
    try:
        e=json.load(open(f)); jsonschema.validate(e,es)
        assert e['level']==c['level_claimed']['category'], (e['level'], c['level_claimed']['category'])
        if e['level']=='proof': assert e['coverage']['obligations']==e['coverage']['discharged'], "proof: undischarged obligations"
        print(c['property_id'],'evidence ok', e['coverage']['obligations'], 'obligations', e['tier'], '%.1fs'%e['wall_s'])
    except Exception as ex:
        bad+=1; print(c['property_id'],'EVIDENCE BAD:', str(ex)[:300])
sys.exit(1 if bad else 0)
