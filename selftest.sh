#!/bin/sh
# ./selftest.sh <Cxx>
# Checker self-test used by the thorough tier: every seeded change under seeded/*/ whose meta.json names <Cxx>
# in "caught_by" is applied to a scratch copy of /repo (outside /repo and /verif), the check is run against the
# copy, and it must exit 1 reporting an obligation whose key starts with the recorded "expect_key".
# A miss is a defect of the checker, not a violation of /repo: it is reported as CHECKER-DEFECT and makes the
# script exit 2. Then every behaviour-preserving refactoring under benign/<Cxx>-[rstu]*/ is applied the same way and the
# check must stay silent. Scratch copies are removed immediately.
cd "$(dirname "$0")"
prop="$1"
repo="${VERIF_REPO:-/repo}"
base="${TMPDIR:-/var/tmp}/sv-self-$$"
fail=0; n=0
for meta in seeded/*/meta.json; do
  [ -f "$meta" ] || continue
  dir=$(dirname "$meta")
  python3 - "$meta" "$prop" > "$base.sel" 2>/dev/null <<'PY'
import json,sys
m=json.load(open(sys.argv[1]))
for c in m.get("caught_by",[]):
    if c["property"]==sys.argv[2]:
        print(c["expect_key"])
PY
  [ -s "$base.sel" ] || { rm -f "$base.sel"; continue; }
  n=$((n+1))
  rm -rf "$base" && mkdir -p "$base/verif/evidence" && cp -r "$repo" "$base/repo" && rm -rf "$base/repo/.git"
  cp -r ref known_findings.json "$base/verif/" 2>/dev/null
  if ! (cd "$base/repo" && patch -p1 -s < "$OLDPWD/$dir/patch.diff"); then
    echo "CHECKER-DEFECT: $dir/patch.diff does not apply to the current tree"; fail=1
  else
    out=$(bin/sv -prop "$prop" -tier quick -repo "$base/repo" -verif "$base/verif" 2>&1); rc=$?
    while read -r key; do
      if [ "$rc" -ne 1 ] || ! printf '%s\n' "$out" | grep -qF "$key"; then
        echo "CHECKER-DEFECT: $prop does not report seeded change $dir (expected an obligation starting with $key; exit code $rc)"; fail=1
      else
        echo "selftest: $prop reports $dir ($key)"
      fi
    done < "$base.sel"
  fi
  rm -rf "$base" "$base.sel"
done
echo "selftest: $n seeded change(s) exercised for $prop"
# the other direction: behaviour-preserving refactorings of the code this property is about (benign/<Cxx>-[rstu]*/)
# must leave the check silent; an alarm on one of them is a false alarm, i.e. a checker defect as well
nb=0
for dir in benign/"$prop"-[rstu]*/; do
  [ -f "$dir/patch.diff" ] || continue
  if [ -f "$dir/KNOWN-ALARM" ]; then
    echo "selftest: $dir is a recorded sensitivity of the checker (see its KNOWN-ALARM), not exercised"
    continue
  fi
  nb=$((nb+1))
  rm -rf "$base" && mkdir -p "$base/verif/evidence" && cp -r "$repo" "$base/repo" && rm -rf "$base/repo/.git"
  cp -r ref known_findings.json "$base/verif/" 2>/dev/null
  if ! (cd "$base/repo" && patch -p1 -s < "$OLDPWD/$dir/patch.diff"); then
    echo "selftest: $dir/patch.diff no longer applies to the current tree (skipped)"
  else
    out=$(bin/sv -prop "$prop" -tier quick -repo "$base/repo" -verif "$base/verif" 2>&1); rc=$?
    if [ "$rc" -ne 0 ]; then
      echo "CHECKER-DEFECT: $prop raises an alarm on the behaviour-preserving refactoring $dir:"; printf '%s\n' "$out" | grep -v '^VIOLATION' | head -3; fail=1
    else
      echo "selftest: $prop is silent on $dir"
    fi
  fi
  rm -rf "$base"
done
echo "selftest: $nb behaviour-preserving refactoring(s) exercised for $prop"
[ "$fail" -eq 0 ] || exit 2
exit 0
