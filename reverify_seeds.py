#!/usr/bin/env python3
"""reverify_seeds.py [id ...]: re-run verify_seed.py for adopted seeds against the current /repo and
refresh caught_by in their meta.json. Prints one line per seed; exit 1 if a seed no longer confirms
or is not caught by the check of the property it breaks."""
import json, os, subprocess, sys
from concurrent.futures import ThreadPoolExecutor
root = "/verif/seeded"
ids = sys.argv[1:] or sorted(d for d in os.listdir(root) if os.path.isdir(os.path.join(root, d)))
def one(sid):
    d = os.path.join(root, sid)
    out = subprocess.run(["python3", "/verif/verify_seed.py", d], capture_output=True, text=True).stdout
    try:
        r = json.loads(out)
    except Exception:
        return sid, None, out[-400:]
    return sid, r, ""
bad = 0
with ThreadPoolExecutor(max_workers=7) as ex:
    for sid, r, err in ex.map(one, ids):
        mp = os.path.join(root, sid, "meta.json")
        meta = json.load(open(mp))
        if r is None:
            print(sid, "ERROR", err); bad += 1; continue
        ok = r["demo_clean_passes"] and r["patch_applies"] and r["builds"] and not r["suite_new_failures"] and r["demo_patched_fails"]
        if not ok:
            print(sid, "NOT CONFIRMED", {k: r[k] for k in ("demo_clean_passes", "patch_applies", "builds", "suite_new_failures", "demo_patched_fails")}); bad += 1; continue
        caught = [{"property": p, "expect_key": keys[0], "all_keys_first6": keys} for p, keys in r["checks_fired"].items()]
        meta["caught_by"] = caught
        meta["detected_by_target_property_check"] = any(c["property"] == meta["breaks_property"] for c in caught)
        json.dump(meta, open(mp, "w"), indent=1)
        tag = "ok" if meta["detected_by_target_property_check"] else "MISSED-BY-TARGET"
        if tag != "ok": bad += 1
        print(sid, tag, [c["property"] + ":" + c["expect_key"] for c in caught])
sys.exit(1 if bad else 0)
