#!/usr/bin/env python3
"""mutate.py [--max N] [--jobs J] [--seed S] [--out FILE] [--lines A-B] <file relative to /repo> ...

Checker self-assessment by small syntactic mutants (complements the hand-written seeds): every mutant is one token
changed in one line of library code (relational / arithmetic / bit operators swapped, an integer literal moved by one,
a condition negated, an assignment or call statement dropped). Each is applied to a scratch copy of /repo under
/var/tmp (never to /repo), built, run against the pinned suite, and - if it compiles and the suite's result is the
baseline's, i.e. the tests cannot tell - the quick checks of the properties anchored in that file are run on it.

Output (JSON lines): status = stillborn | killed-by-tests | caught (with the checks that fired) | survived.
A survivor is either an equivalent mutant (behaviour unchanged) or a miss of the checks: they are triaged by hand.
Nothing here decides a property; it measures the checks."""
import json, os, random, re, shutil, subprocess, sys
from concurrent.futures import ThreadPoolExecutor

ENV = dict(os.environ, GOFLAGS="-mod=mod", GOPROXY="off", GOSUMDB="off", GOTOOLCHAIN="local")
ENV.pop("GOWORK", None)
REPO = os.environ.get("VERIF_REPO", "/repo")
VERIF = os.path.dirname(os.path.abspath(__file__))

CHECKS = [
    (r"^asm/", "C03 C06 C07 C15 C16 C19"),
    (r"^(rom|header)\.go$", "C09 C10"),
    (r"^mapping/lorom/", "C04 C05 C11"),
    (r"^mapping/", "C04 C05"),
    (r"^color15/", "C17"),
    (r"^emulator/bus/", "C13 C08 C01 C02"),
    (r"^emulator/memory/", "C11"),
    (r"^emulator/system\.go$", "C11 C12 C14"),
    (r"^xbuf/", "C14 C15"),
    (r"^emulator/cpu65c816/cpu_disassembler", "C14"),
    (r"^emulator/cpualt/cpu_disassembler", "C14"),
    (r"^emulator/cpu", "C01 C02 C08 C12 C07 C14"),
]

SWAPS = [
    (r"(?<![<>=!&|+\-*/^%])<=(?![=<])", ["<"]), (r"(?<![<>=!&|+\-*/^%-])<(?![=<-])", ["<="]),
    (r"(?<![<>=!&|+\-*/^%])>=(?![=>])", [">"]), (r"(?<![<>=!&|+\-*/^%>-])>(?![=>])", [">="]),
    (r"==", ["!="]), (r"!=", ["=="]),
    (r"(?<![+\w)\]] )\+(?![+=])", []),  # placeholder (unary plus does not occur)
    (r"(?<=[\w)\]] )\+(?= [\w(])", ["-"]), (r"(?<=[\w)\]] )-(?= [\w(])", ["+"]),
    (r"(?<=[\w)\]] )\|(?= [\w(])", ["&"]), (r"(?<=[\w)\]] )&(?= [\w(^])", ["|"]),
    (r"(?<=[\w)\]] )<<(?= [\w(])", [">>"]), (r"(?<=[\w)\]] )>>(?= [\w(])", ["<<"]),
    (r"\+=", ["-="]), (r"-=", ["+="]), (r"&&", ["||"]), (r"\|\|", ["&&"]),
]
LIT = re.compile(r"(?<![\w.])(0[xX][0-9a-fA-F_]+|\d+)(?![\w.])")


def code_part(line):
    """line without its // comment and with string/rune literals blanked (same length)."""
    out, i, n = [], 0, len(line)
    while i < n:
        c = line[i]
        if c == '/' and i + 1 < n and line[i + 1] == '/':
            break
        if c in '"`\'':
            q, j = c, i + 1
            while j < n and line[j] != q:
                j += 2 if (line[j] == '\\' and q != '`') else 1
            out.append(' ' * (min(j, n - 1) - i + 1))
            i = j + 1
            continue
        out.append(c)
        i += 1
    return ''.join(out)


def mutants_of(path):
    src = open(os.path.join(REPO, path)).read().split('\n')
    res = []
    in_block_comment = False
    for ln, line in enumerate(src):
        s = line.strip()
        if in_block_comment:
            if '*/' in s:
                in_block_comment = False
            continue
        if s.startswith('/*'):
            in_block_comment = '*/' not in s
            continue
        if not s or s.startswith('//') or s.startswith('package ') or s.startswith('import ') or s.startswith('"'):
            continue
        code = code_part(line)
        for pat, repls in SWAPS:
            for m in re.finditer(pat, code):
                for r in repls:
                    res.append((ln, line[:m.start()] + r + line[m.end():], "%s -> %s" % (m.group(0), r)))
        for m in LIT.finditer(code):
            t = m.group(1).replace('_', '')
            try:
                v = int(t, 0)
            except ValueError:
                continue
            for d in (1, -1):
                if v + d < 0:
                    continue
                nv = hex(v + d) if t.lower().startswith('0x') else str(v + d)
                res.append((ln, line[:m.start()] + nv + line[m.end():], "%s -> %s" % (t, nv)))
        m = re.match(r"^(\s*)(if|} else if) (.*) \{\s*$", code)
        if m and not re.search(r";", m.group(3)):
            res.append((ln, "%s%s !(%s) {" % (m.group(1), m.group(2), line[m.start(3):m.end(3)]), "negated condition"))
        if re.match(r"^\s*[\w.\[\]()*]+(\[[^\]]*\])? (=|\+=|-=|\|=|&=|<<=|>>=) [^{]*$", code) and not code.rstrip().endswith(','):
            res.append((ln, re.match(r"^\s*", line).group(0) + "// dropped", "statement dropped: " + s[:50]))
        if re.match(r"^\s*[\w.]+\([^{]*\)\s*$", code) and not s.startswith(('return', 'panic', 'defer', 'go ')):
            res.append((ln, re.match(r"^\s*", line).group(0) + "// dropped", "call dropped: " + s[:50]))
    return src, res


def sh(cmd, cwd, timeout=900):
    try:
        p = subprocess.run(cmd, shell=True, cwd=cwd, env=ENV, capture_output=True, text=True, timeout=timeout)
        return p.returncode, p.stdout + p.stderr
    except subprocess.TimeoutExpired:
        return 124, "timeout"


def suite_sig(cwd):
    rc, out = sh("go test -vet=off -count=1 ./... 2>&1 | grep -E '^(ok|FAIL|---|panic)' | grep -v 'TestCPU_Step' | sed -E 's/[0-9.]+s//g' | sort", cwd)
    return out


LINES = [0, 10**9]


def main():
    args = sys.argv[1:]
    mx, jobs, seed, outp = 200, 6, 1, None
    files = []
    while args:
        a = args.pop(0)
        if a == '--max': mx = int(args.pop(0))
        elif a == '--jobs': jobs = int(args.pop(0))
        elif a == '--seed': seed = int(args.pop(0))
        elif a == '--out': outp = args.pop(0)
        elif a == '--lines':
            lo, hi = args.pop(0).split('-')
            LINES[0], LINES[1] = int(lo), int(hi)
        else: files.append(a)
    rnd = random.Random(seed)
    todo = []
    for f in files:
        src, ms = mutants_of(f)
        for (ln, new, what) in ms:
            if LINES[0] <= ln + 1 <= LINES[1]:
                todo.append((f, ln, new, what, src[ln]))
    rnd.shuffle(todo)
    todo = todo[:mx]
    base = "/var/tmp/mut-%d" % os.getpid()
    os.makedirs(base)
    shutil.copytree(REPO, base + "/ref", symlinks=True)
    shutil.rmtree(base + "/ref/.git", ignore_errors=True)
    baseline = suite_sig(base + "/ref")
    workers = []
    for j in range(jobs):
        d = "%s/w%d" % (base, j)
        shutil.copytree(base + "/ref", d + "/repo", symlinks=True)
        os.makedirs(d + "/verif/evidence")
        shutil.copytree(VERIF + "/ref", d + "/verif/ref")
        shutil.copy(VERIF + "/known_findings.json", d + "/verif/")
        workers.append(d)
    free = list(workers)
    out = open(outp, "w") if outp else sys.stdout

    def run(item):
        f, ln, new, what, old = item
        d = free.pop()
        try:
            p = os.path.join(d, "repo", f)
            orig = open(p).read()
            lines = orig.split('\n')
            lines[ln] = new
            open(p, "w").write('\n'.join(lines))
            rec = {"file": f, "line": ln + 1, "what": what, "old": old.strip()[:120], "new": new.strip()[:120]}
            try:
                rc, o = sh("go build ./... && go vet ./" + os.path.dirname(f) + "/ 2>&1 | grep -c 'declared and not used' ", d + "/repo")
                rc, o = sh("go build ./...", d + "/repo")
                if rc != 0:
                    rec["status"] = "stillborn"
                    return rec
                if suite_sig(d + "/repo") != baseline:
                    rec["status"] = "killed-by-tests"
                    return rec
                props = "C18"
                for pat, cs in CHECKS:
                    if re.search(pat, f):
                        props = cs + " C18"
                        break
                fired = {}
                for pr in props.split():
                    rc, o = sh("%s -prop %s -tier quick -repo %s/repo -verif %s/verif" % (os.environ.get("SV_BIN", VERIF + "/bin/sv"), pr, d, d), VERIF)
                    if rc != 0:
                        keys = [l.strip().split(' @')[0] for l in o.splitlines() if l.startswith('  C')]
                        fired[pr] = keys[:2]
                rec["status"] = "caught" if fired else "survived"
                rec["fired"] = fired
                return rec
            finally:
                open(p, "w").write(orig)
        finally:
            free.append(d)

    n = {"stillborn": 0, "killed-by-tests": 0, "caught": 0, "survived": 0}
    with ThreadPoolExecutor(max_workers=jobs) as ex:
        for rec in ex.map(run, todo):
            n[rec["status"]] += 1
            out.write(json.dumps(rec) + "\n")
            out.flush()
    shutil.rmtree(base, ignore_errors=True)
    sys.stderr.write(json.dumps(n) + "\n")


if __name__ == "__main__":
    main()
