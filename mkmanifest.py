#!/usr/bin/env python3
"""Regenerates MANIFEST.json from the table below and the list of implemented properties (bin/sv -list)."""
import json, subprocess, os
os.chdir(os.path.dirname(os.path.abspath(__file__)))
impl = subprocess.run(["bin/sv", "-list"], capture_output=True, text=True).stdout.split()

P = {
 "C04": dict(level="proof", tech="abstract interpretation (known bits with bit provenance + intervals) of the 8 mapping functions per 8 KiB page; table arithmetic on the 16384 page summaries",
   text="Sound over-approximating abstract interpretation of every mapping function, one abstract cell per 8 KiB page with the 13 offset bits symbolic, covers all 2^24 addresses x 2 directions x 4 mappers; the round-trip and class obligations are decided exactly on the page summaries. Nothing is sampled, so the verdict is a theorem about every address given the trusted base.",
   note="Trusted: go/packages+go/ssa (x/tools v0.29.0) represent the source; absint transfer functions for & | + - << >> comparisons and phi; inputs are 24-bit (upper byte of the uint32 zero).", ref="4 C04"),
 "C05": dict(level="proof", tech="same page summaries; comparison with the documented region table ref/mapper_regions.json, class windows, console regions, error shape",
   text="Page summaries (sound abstract interpretation, exhaustive over 2^24 x 2 x 4) are compared with the hand-authored documented region table and the class windows; uniformity of every page proves byte order is preserved inside 8 KiB pages in both directions.",
   note="Trusted: as C04, plus ref/mapper_regions.json being the documented map (bus->pak half only; pak->bus is constrained through C04, uniformity, error shape and the rejection window).", ref="4 C05"),
 "C03": dict(level="proof", tech="abstract interpretation with bit provenance of all 90 instruction methods in 16 width/target/listing cells; comparison with the independently authored opcode matrix ref/isa65816.json",
   text="Each emitting method is interpreted with every operand bit symbolic, so the verdict on opcode byte, little-endian operand bytes, length, address/n advance and width guard holds for every operand value and every tracked-width state; the opcode/mode/length oracle is an independent transcription of the WDC opcode matrix. All 90 methods x 16 cells are covered, nothing is sampled.",
   note="Trusted: go/ssa, absint transfer functions, ref/isa65816.json, the method-name grammar of DESIGN appendix B, Go's copy builtin. 'Decodes back with the library's own CPU' is covered by table agreement (cpu-agree) plus C01/decode and C07/length.", ref="4 C03"),
 "C08": dict(level="proof", tech="interval abstract interpretation of Step in 12288 opcode x M,X,E x interrupt cells per package; bus-access events carry address and dispatch-index intervals; liveness of panic/fatal/index-range sites",
   text="Sound interval analysis of every bus access of every Step cell (all other state symbolic) in both interpreters proves address < 2^24 and dispatch index < 2^20, and that no panic, log.Fatal or possibly-out-of-range array index is live when the whole bus is mapped; the cells cover all opcodes and all register/memory valuations, nothing is sampled.",
   note="Trusted: go/ssa, absint interval transfer functions; assumes flag bytes hold 0/1 (obligation C01/flags01), memory back ends and user callbacks are outside the boundary, whole bus mapped (nil-backend arms pruned).", ref="4 C08"),
 "C01": dict(level="other", tech="table arithmetic against an independent opcode matrix + abstract interpretation of Step per opcode x M,X,E x interrupt cell: decoded length, live unknown-mode arms, dependence of outputs on stale register copies, unchanged-field / PC / SP / memory-write effect signatures, flag ranges",
   text="Structural necessary conditions only: decode table and decoded length per (opcode,M,X), one routine per mnemonic, no unknown-mode arm live, no flow from the non-authoritative copy of A/X/Y, per-mnemonic may-change sets with exact PC/SP deltas in native mode, flags stay 0/1 - each decided for all register/memory valuations of its cell in both packages. The numerical semantics of the 256 opcodes (ALU results, flag values, in-bank address arithmetic, pushed bytes) are not decided by any static argument in reach and are not claimed.",
   note="Oracles: ref/isa65816.json, ref/isa_effects.json (authored from the WDC data sheet). Trusted: go/ssa, absint. Values computed by the routines are outside the claim (DESIGN.md section 7).", ref="4 C01"),
 "C12": dict(level="other", tech="interval + linear-form abstract interpretation of Step cells (cycle bounds, AllCycles accounting, stop status with Stopped partitioned, OnPC/WDM callback arguments and ordering) plus SSA structural rules (module-wide writers of Stopped/AllCycles, natural-loop shape and dominance in RunUntil)",
   text="Cycle count >= 1 and exact accounting are decided for every register/memory valuation of each opcode x M,X,E x interrupt cell in both packages; the stop clause by cells with Stopped fixed plus a module-wide who-may-store rule; RunUntil by a ranking argument whose premises (budget test, target test dominating Step with no effect between, counter advanced only by Step's first result >= 1, result recomputed after the loop) are structural SSA facts. Together they are an inductive argument, not an exploration; loops are not unrolled.",
   note="Assumes user callbacks and the Logger do not modify the CPU (outside the library); flags 0/1 (C01/flags01). cpualt declares OnPC but never consults it: the OnPC clause is checked for the interpreter that dispatches it.", ref="4 C12"),
 "C02": dict(level="other", tech="sibling congruence: opcode/cycle tables read from the interpreted initialisers compared entry-wise; Step of both packages abstractly interpreted per opcode x M,X,E x interrupt cell over identically named symbols with exact gated merges, and the two abstract transformers (fields, return, bus-access trace, branch trace) compared syntactically",
   text="A sufficient condition for the lock-step equivalence: if for every cell both Step functions denote the same hash-consed term for every output and the same ordered bus trace, they compute the same results on every state of the cell. It catches any one-sided change of a constant, operator, table entry, field, access order or branch. It is not a necessary condition: a behaviour-preserving restructuring of one copy that changes its term structure is reported (DESIGN.md section 6).",
   note="Hypothesis of the property: whole bus mapped. Declared asymmetries: OnPC prologue of cpu65c816.Step, debug latches Bus.EA/Bus.Write/Bus.M. Functions not reachable from Step (Reset, Init*, TriggerIRQ) are not compared.", ref="4 C02"),
 "C07": dict(level="other", tech="step obligations of an inductive invariant, each decided by abstract interpretation: emitted length (Emitter cells) = decoded length (Step cells) per opcode and width; refusal iff width mismatch; REP/SEP tracker bits (abstract bits evaluated at each operand byte) = CPU M/X after the Step cell with that operand; mod-set of the tracker and of CPU M/X over all emittable opcodes",
   text="The property is an invariant over all straight-line programs; its induction step is a finite set of per-instruction obligations, all discharged statically for every operand value and width state (90 methods x 16 cells, 2 x 4096 REP/SEP cells, every emittable opcode). The base case and 'no taken transfer / no PLP, RTI' are hypotheses stated by the property itself.",
   note="Trusted: go/ssa, absint, ref/isa65816.json, P layout bit5=M bit4=X. XCE is not emittable (checked: no method emits an opcode that changes M/X other than REP/SEP/PLP/RTI).", ref="4 C07"),
 "C14": dict(level="other", tech="abstract interpretation of the three trace renderers per opcode x M,X,E cell with formatter calls recorded as path-guarded render events: unchanged-state (mod-set) check, instruction bytes read vs Step's decoded length, operand-byte order per addressing mode, branch-destination term vs Step's target (gated terms restricted to the render path), dependence on stale register copies; SSA structural rules on RunUntil's logging region",
   text="Truthfulness clauses that are visible in the shape of the renderer (which bytes, which order, which register copy, which destination term, no side effect) are decided for every register/memory valuation of each cell; non-perturbation follows from the renderer's empty mod-set plus the structural confinement of Logger in RunUntil. Punctuation/spacing of the line and the cycles column are not checked.",
   note="Trusted: go/ssa, absint, ref/isa65816.json; xbuf.B and fmt append what they are given; Logger.Write (user code) does not touch the CPU.", ref="4 C14"),
 "C18": dict(level="proof", tech="whole-module effect analysis: forward taint propagation over SSA def-use from the address of every package-level variable (mod-set of globals), parameter read-only summaries with CHA for interface calls, external-callee allowlist, import and go-statement scan",
   text="The schedule quantifier is discharged by a whole-program absence-of-shared-writable-state argument: no function other than package initialisers can write any package-level variable or publish a reference to one, every external callee is stateless or internally synchronised, and no goroutines/sync/unsafe are used; instances with disjoint heaps then cannot interfere (Go memory model). Every function of the module is analysed, reachable or not.",
   note="Trusted: go/ssa; completeness of the reference-derivation rules in tool/rules/effects.go; the standard-library allowlist; io.Writer contract; sentinel error values are immutable; buffers the caller shares between instances are the caller's responsibility.", ref="4 C18"),
 "C09": dict(level="proof", tech="struct layout from go/types (encoding/binary sizes, sequential offsets, rom tags), SSA structural rules on the two reflection walkers (induction variable, skip predicate, byte order, Field(i).Addr()), abstract interpretation with exact gated terms of ReadHeader's version logic and of ROM.ReadHeader/WriteHeader/NewROM windows",
   text="Round-trip follows from a partition of the 80 header bytes into fixed-size little-endian fields read and written by walkers that are shown, structurally, to visit the same fields in the same order with the same byte order; offsets and tags are computed from the type, the version table and the zeroing set are decided for all header contents by restricting gated terms to the four cases, and the ROM windows are exact slices. Nothing depends on sampled header contents.",
   note="Trusted base: encoding/binary and reflect behave as documented; go/types sizes for fixed-width integers; absint. HeaderOffset is the value NewROM establishes.", ref="4 C09"),
 "C17": dict(level="other", tech="abstract interpretation of color15 with fully symbolic inputs: bit provenance for the two pack/unpack compositions, interval analysis of every narrowing conversion / product / sum, gated-term shape of each packed channel (dependence set, clamp condition, both restrictions), term of Luminosity",
   text="The pack clause is decided for all 2^16 colours and all 2^24 triples at once by bit provenance; absence of lossy narrowing and overflow for all channels in 0..31, multiplicands 0..255 and divisors 1..255 by intervals; the per-channel result is shown to be the term min(31, floor(ch*m/d)) of its own channel by restricting the gated merge to both sides of the clamp. Consequences such as monotonicity in the ratio are implied by that term and are not separately checked.",
   note="Trusted: go/ssa, absint; divisor != 0 is the property's precondition; the shape clause relies on the narrowing clause (term keys identify values modulo their width).", ref="4 C17"),
 "C10": dict(level="other", tech="abstract interpretation with linear forms of BusReader/BusWriter (two offset cells, bank and offset symbolic) and of busWriter.Write (symbolic writer and payload): window start/end terms, guard-implies-bound check on the comparison in force at the copy, progress term restricted to accepted/refused paths, mod-set of the always-error methods",
   text="Window bounds are linear-form identities valid for every bank and offset; the no-silent-partial-write clause is decided as an implication between the guard comparison dominating copy and the remaining-window term; refusal changes nothing by restriction of the gated progress term. What bytes.Reader returns and images shorter than the addressed bank are outside the claim. Two genuine defects (window ends one byte early in reader and writer) are recorded as known findings because a baseline test pins the behaviour.",
   note="Trusted: go/ssa, absint, bytes.Reader, builtin copy; 24-bit bus addresses; len(p) < 2^31.", ref="4 C10"),
 "C13": dict(level="other", tech="SSA structural rules (dominance of the alignment guards over the single table store, induction variable of Attach's loop, module-wide who-writes-the-table, lock-step induction variables and value identity in EaDump) plus abstract interpretation of the straight-line accessors (slot index term = shr4 of the address term; empty slot panics)",
   text="Routing is a statement about all Attach histories because the table can only be written by Attach's loop (who-may-write) with index range start>>4..end>>4 after both alignment tests, and every accessor selects the backend by a>>4 of the address it forwards unchanged. EaDump's count and placement follow from lock-step induction variables. The rules are sufficient conditions in the 'index derived from the accessed address' style; a correct chunked implementation would be reported as undecided (DESIGN.md section 6).",
   note="Trusted: go/ssa, absint. Behaviour of the attached backends themselves is C11's (memory.RAM).", ref="4 C13"),
 "C11": dict(level="other", tech="abstract interpretation of CreateEmulator along its single feasible path with counted loops unrolled (constant bounds), Attach calls collected as site descriptors and replayed under Attach's structurally justified semantics into a per-page backing map; comparison with the LoROM page summaries; index terms of memory.RAM.Read/Write",
   text="Agreement of two static descriptions: the emulator's page map (derived from the 485 Attach calls the code performs, every argument a compile-time constant) and the mapper's exhaustive page summary, compared on all 2048 pages; plus the index identity of the RAM backend. Byte-level read/write behaviour then follows from C13 (routing passes the full address to the selected backend).",
   note="Trusted: go/ssa, absint single-path unrolling, C13/attach+route, C05 summaries. Holds for the array sizes declared in System (len(SRAM)>>15 is a Go constant).", ref="4 C11"),
}
reasons_pending = "no check is registered for this property at this commit (machinery not built yet); see DESIGN.md section 4 for the planned static rules"

checks, na = [], []
props = [json.loads(l) for l in open("properties.jsonl")]
for p in props:
    i = p["id"]
    if i in impl and i in P:
        d = P[i]
        checks.append({
            "property_id": i,
            "quick_cmd": f"./check {i} quick",
            "thorough_cmd": f"./check {i} thorough",
            "evidence_file": f"/verif/evidence/{i}.json",
            "replay_cmd_template": f"./check {i} --explain {{path}}",
            "engine": "sv",
            "level_claimed": {"category": d["level"], "text": d["text"], "design_ref": "DESIGN.md section " + d["ref"]},
            "level_note": d["note"],
            "technique": "static analysis: " + d["tech"],
        })
    else:
        na.append({"property_id": i, "reason": P.get(i, {}).get("na", reasons_pending)})
m = {
 "version": 1,
 "setup_cmd": "./setup.sh",
 "hooks": {"guard": "verif", "enable": "none needed: static analysis reads /repo's source, no instrumentation is compiled in", "baseline_off_cmd": "cd /repo && go test -vet=off -count=1 ./...", "source_commits": [], "add_only": True},
 "engines": [{"name": "sv", "path": "tool/", "serves_properties": [c["property_id"] for c in checks], "kind_free_text": "Go static analyser over go/packages + go/ssa (x/tools v0.29.0): abstract interpretation of loop-free functions, mod-set/effect summaries, dominance rules, sibling congruence, struct layout"}],
 "checks": checks,
 "not_applicable": na,
 "notes": "All checks are static: they load and type-check /repo's current working tree on every run, never execute repository code and call no solver. known_findings.json lists genuine defects that are recorded rather than repaired; fixed entries are a log only.",
}
json.dump(m, open("MANIFEST.json", "w"), indent=1)
print("checks:", [c["property_id"] for c in checks], "n/a:", len(na))
