#!/usr/bin/env python3
"""batch_adopt.py <dir-with-<ID>-<tag>-subdirs> ...: adopt every seeded change found (patch.diff + demo/ + NOTES.md) under the given
directories with adopt_seed.py; the "needs to manifest" text is taken from the NOTES.md line that mentions it (or its first lines)."""
import os, re, subprocess, sys
from concurrent.futures import ThreadPoolExecutor
jobs = []
for root in sys.argv[1:]:
    for name in sorted(os.listdir(root)):
        d = os.path.join(root, name)
        m = re.match(r"(C\d\d)-(\w+)$", name)
        if not m or not os.path.exists(d + "/patch.diff"):
            continue
        notes = open(d + "/NOTES.md", errors="replace").read() if os.path.exists(d + "/NOTES.md") else ""
        needs = ""
        for para in re.split(r"\n\s*\n", notes):
            if re.search(r"need|manifest|trigger", para, re.I):
                needs = " ".join(para.split())
                break
        if not needs:
            needs = " ".join(notes.split())[:300]
        needs = re.sub(r"[`*#]", "", needs)[:400]
        jobs.append((d, name, m.group(1), needs))
def run(j):
    d, sid, prop, needs = j
    out = subprocess.run(["python3", "/verif/adopt_seed.py", d, sid, prop, needs], capture_output=True, text=True).stdout
    return sid, out.strip().splitlines()[-1] if out.strip() else "no output"
with ThreadPoolExecutor(max_workers=4) as ex:
    for sid, line in ex.map(run, jobs):
        print(sid, "::", line[:400])
