#!/usr/bin/env python3
"""Authors isa65816.json from the WDC W65C816S opcode matrix (data sheet table 5-4 / 'Programming the 65816'
appendix), by column pattern plus a literal list. It does not read the repository."""
import json
ops = {}
def put(op, mn, mode):
    assert op not in ops, hex(op)
    ops[op] = (mn, mode)
# group 1: ORA AND EOR ADC STA LDA CMP SBC in row pairs 0/1 .. E/F
g1 = ["ora", "and", "eor", "adc", "sta", "lda", "cmp", "sbc"]
even = {1: "(dp,x)", 3: "sr,s", 5: "dp", 7: "[dp]", 9: "imm_m", 0xD: "abs", 0xF: "long"}
odd = {1: "(dp),y", 2: "(dp)", 3: "(sr,s),y", 5: "dp,x", 7: "[dp],y", 9: "abs,y", 0xD: "abs,x", 0xF: "long,x"}
for i, mn in enumerate(g1):
    for col, mode in even.items():
        op = (2 * i) << 4 | col
        if op == 0x89:  # STA has no immediate form: $89 is BIT #
            put(op, "bit", "imm_m")
        else:
            put(op, mn, mode)
    for col, mode in odd.items():
        put((2 * i + 1) << 4 | col, mn, mode)
# read-modify-write columns 6 and E
rmw = ["asl", "rol", "lsr", "ror"]
for i, mn in enumerate(rmw):
    put((2 * i) << 4 | 6, mn, "dp");   put((2 * i + 1) << 4 | 6, mn, "dp,x")
    put((2 * i) << 4 | 0xE, mn, "abs"); put((2 * i + 1) << 4 | 0xE, mn, "abs,x")
    put((2 * i) << 4 | 0xA, mn, "acc")
for base, mn in ((0xC0, "dec"), (0xE0, "inc")):
    put(base | 6, mn, "dp"); put(base + 0x10 | 6, mn, "dp,x"); put(base | 0xE, mn, "abs"); put(base + 0x10 | 0xE, mn, "abs,x")
put(0x1A, "inc", "acc"); put(0x3A, "dec", "acc")
lit = """
00 brk imm8s | 10 bpl rel8 | 20 jsr abs | 30 bmi rel8 | 40 rti imp | 50 bvc rel8 | 60 rts imp | 70 bvs rel8
80 bra rel8 | 90 bcc rel8 | A0 ldy imm_x | B0 bcs rel8 | C0 cpy imm_x | D0 bne rel8 | E0 cpx imm_x | F0 beq rel8
02 cop imm8 | 22 jsl long | 42 wdm imm8 | 62 per rel16 | 82 brl rel16 | A2 ldx imm_x | C2 rep imm8 | E2 sep imm8
04 tsb dp | 14 trb dp | 24 bit dp | 34 bit dp,x | 44 mvp blk | 54 mvn blk | 64 stz dp | 74 stz dp,x
84 sty dp | 94 sty dp,x | A4 ldy dp | B4 ldy dp,x | C4 cpy dp | D4 pei (dp)s | E4 cpx dp | F4 pea imm16
86 stx dp | 96 stx dp,y | A6 ldx dp | B6 ldx dp,y
08 php imp | 18 clc imp | 28 plp imp | 38 sec imp | 48 pha imp | 58 cli imp | 68 pla imp | 78 sei imp
88 dey imp | 98 tya imp | A8 tay imp | B8 clv imp | C8 iny imp | D8 cld imp | E8 inx imp | F8 sed imp
5A phy imp | 7A ply imp | 8A txa imp | 9A txs imp | AA tax imp | BA tsx imp | CA dex imp | DA phx imp | EA nop imp | FA plx imp
0B phd imp | 1B tcs imp | 2B pld imp | 3B tsc imp | 4B phk imp | 5B tcd imp | 6B rtl imp | 7B tdc imp
8B phb imp | 9B txy imp | AB plb imp | BB tyx imp | CB wai imp | DB stp imp | EB xba imp | FB xce imp
0C tsb abs | 1C trb abs | 2C bit abs | 3C bit abs,x | 4C jmp abs | 5C jml long | 6C jmp (abs) | 7C jmp (abs,x)
8C sty abs | 9C stz abs | AC ldy abs | BC ldy abs,x | CC cpy abs | DC jml [abs] | EC cpx abs | FC jsr (abs,x)
8E stx abs | 9E stz abs,x | AE ldx abs | BE ldx abs,y
"""
for ent in lit.replace("\n", "|").split("|"):
    ent = ent.strip()
    if not ent:
        continue
    o, mn, mode = ent.split()
    put(int(o, 16), mn, mode)
assert len(ops) == 256, len(ops)
# operand bytes following the opcode, and which flag shortens the instruction
oplen = {"imp": 0, "acc": 0, "imm8": 1, "imm8s": 1, "imm_m": 2, "imm_x": 2, "imm16": 2, "dp": 1, "dp,x": 1, "dp,y": 1, "(dp,x)": 1, "(dp)": 1, "(dp)s": 1,
         "[dp]": 1, "(dp),y": 1, "[dp],y": 1, "abs": 2, "abs,x": 2, "abs,y": 2, "(abs)": 2, "[abs]": 2, "(abs,x)": 2, "long": 3,
         "long,x": 3, "rel8": 1, "rel16": 2, "sr,s": 1, "(sr,s),y": 1, "blk": 2}
out = []
for op in range(256):
    mn, mode = ops[op]
    dep = {"imm_m": "m", "imm_x": "x"}.get(mode, "-")
    out.append({"op": "%02X" % op, "mn": mn, "mode": mode, "len": 1 + oplen[mode], "dep": dep})
# self checks
assert sorted(o["op"] for o in out if o["dep"] == "m") == ["09", "29", "49", "69", "89", "A9", "C9", "E9"]
assert sorted(o["op"] for o in out if o["dep"] == "x") == ["A0", "A2", "C0", "E0"]
pairs = {}
for o in out:
    k = (o["mn"], o["mode"])
    assert k not in pairs, k
    pairs[k] = o["op"]
doc = {
 "_doc": "65C816 opcode matrix: mnemonic, canonical addressing mode, length in bytes with 16-bit registers (len), and the flag (m/x) whose value 1 shortens the instruction by one byte. imm8s = signature byte of BRK (the repository's table lists BRK with size 1; both 1 and 2 are accepted, see DESIGN.md A.1). (dp)s = PEI's stack/direct-indirect form (repository folds it to DP). jml = JMP long forms (alias jmp accepted).",
 "opcodes": out,
}
json.dump(doc, open("isa65816.json", "w"), indent=0)
print("wrote", len(out))
