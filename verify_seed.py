#!/usr/bin/env python3
"""verify_seed.py <dir-with-patch.diff-and-demo/> [--keep]
Confirms a seeded change: applies it to a scratch copy of /repo, checks build + baseline suite, runs the demonstration
with and without the change, then runs every check of /verif against the changed copy and prints which obligations fire.
Scratch copies live under /var/tmp and are removed at the end."""
import json, os, re, shutil, subprocess, sys, glob
seed = os.path.abspath(sys.argv[1])
env = dict(os.environ, GOFLAGS="-mod=mod", GOPROXY="off", GOSUMDB="off", GOTOOLCHAIN="local")
env.pop("GOWORK", None)
base = "/var/tmp/vs-%d" % os.getpid()
repo = base + "/repo"
def sh(cmd, cwd=None, timeout=1200):
    p = subprocess.run(cmd, shell=True, cwd=cwd, env=env, capture_output=True, text=True, timeout=timeout)
    return p.returncode, p.stdout + p.stderr
os.makedirs(base)
shutil.copytree("/repo", repo, symlinks=True)
shutil.rmtree(repo + "/.git", ignore_errors=True)
res = {"seed": seed}
# demo placement
demos = []
for f in sorted(glob.glob(seed + "/demo/**/*", recursive=True)):
    if os.path.isdir(f): continue
    head = open(f, errors="replace").read(600)
    m = re.search(r"[Pp]lace\w*\s+(?:it\s+)?(?:at|in|into|under|as):?\s+`?([\w./-]+)`?", head)
    dest = m.group(1).rstrip(",;:") if m else None
    if dest is not None and dest.strip("./") == "":
        dest = os.path.basename(f)  # "." = the root package
    elif dest:
        dest = dest.rstrip(".")
    if dest and not dest.endswith(".go"):
        dest = os.path.join(dest, os.path.basename(f))
    demos.append((f, dest, head.splitlines()[0] if head else ""))
res["demos"] = [(os.path.basename(f), d) for f, d, _ in demos]
def place():
    for f, d, _ in demos:
        if not d: continue
        os.makedirs(os.path.dirname(os.path.join(repo, d)) or repo, exist_ok=True)
        shutil.copy(f, os.path.join(repo, d))
def run_demo():
    outs = []
    rc_all = 0
    for f, d, _ in demos:
        if not d: continue
        pkg = "./" + os.path.dirname(d) if os.path.dirname(d) else "."
        if d.endswith("_test.go"):
            m = re.search(r"-run\s+'?\"?([\w|^$()]+)", open(f, errors="replace").read(600))
            if m:
                runpat = m.group(1)
            else:
                names = re.findall(r"^func (Test\w+)\(", open(f, errors="replace").read(), re.M)
                runpat = "^(" + "|".join(names) + ")$" if names else "Seed"
            rc, out = sh(f"go test -vet=off -count=1 -run '{runpat}' {pkg}", cwd=repo)
        else:
            rc, out = sh(f"go run {pkg}", cwd=repo)
        rc_all |= (rc != 0)
        outs.append(out[-1500:])
    return rc_all, "\n".join(outs)
def suite():
    rc, out = sh("go build ./... && go test -vet=off -count=1 ./... 2>&1 | grep -E '^(ok|FAIL|---|panic)'", cwd=repo)
    bad = [l for l in out.splitlines() if (l.startswith("--- FAIL") or l.startswith("panic")) and "TestCPU_Step" not in l]
    pk = [l for l in out.splitlines() if l.startswith("FAIL") and "cpu65c816" not in l and l.strip() != "FAIL"]
    return bad + pk, out
def unplace():
    for f, d, _ in demos:
        if d and os.path.exists(os.path.join(repo, d)): os.remove(os.path.join(repo, d))
place()
rc, out = run_demo()
res["demo_clean_passes"] = (rc == 0)
if rc != 0: res["demo_clean_output"] = out[-800:]
unplace()
rc, out = sh(f"patch -p1 -s < {seed}/patch.diff", cwd=repo)
res["patch_applies"] = (rc == 0)
if rc != 0: res["patch_output"] = out[-500:]
rcb, outb = sh("go build ./...", cwd=repo)
res["builds"] = (rcb == 0)
bad, out = suite()
res["suite_new_failures"] = bad
place()
rc, out = run_demo()
res["demo_patched_fails"] = (rc != 0)
res["demo_patched_tail"] = out[-300:]
# remove demo files before running the checks (they analyse non-test code only, but keep the tree as the patch leaves it)
for f, d, _ in demos:
    if d and os.path.exists(os.path.join(repo, d)): os.remove(os.path.join(repo, d))
vdir = base + "/verif"
os.makedirs(vdir + "/evidence")
shutil.copytree("/verif/ref", vdir + "/ref")
shutil.copy("/verif/known_findings.json", vdir)
props = subprocess.run(["/verif/bin/sv", "-list"], capture_output=True, text=True).stdout.split()
fired = {}
for p in props:
    pr = subprocess.run(["/verif/bin/sv", "-prop", p, "-repo", repo, "-verif", vdir], capture_output=True, text=True, env=env)
    if pr.returncode != 0:
        keys = [l.strip().split(" @ ")[0] for l in pr.stdout.splitlines() if l.startswith("  " + p + "/")]
        fired[p] = keys[:6] if keys else ["exit %d: %s" % (pr.returncode, (pr.stdout + pr.stderr)[-300:])]
res["checks_fired"] = fired
print(json.dumps(res, indent=1))
if "--keep" not in sys.argv:
    shutil.rmtree(base, ignore_errors=True)
