#!/usr/bin/env python3
"""adopt_seed.py <seed-dir> <id> <property> "<what it needs to manifest>"
Re-verifies a seeded change with verify_seed.py and stores it as /verif/seeded/<id>/ (patch.diff, demo/, NOTES.md, meta.json)."""
import json, os, shutil, subprocess, sys
src, sid, prop, needs = sys.argv[1:5]
out = subprocess.run(["python3", "/verif/verify_seed.py", src], capture_output=True, text=True).stdout
r = json.loads(out)
ok = r["demo_clean_passes"] and r["patch_applies"] and r["builds"] and not r["suite_new_failures"] and r["demo_patched_fails"]
if not ok:
    print("NOT ADOPTED:", json.dumps({k: r[k] for k in r if k != "checks_fired"}, indent=1)[:1500]); sys.exit(1)
dst = "/verif/seeded/" + sid
shutil.rmtree(dst, ignore_errors=True)
os.makedirs(dst)
shutil.copy(src + "/patch.diff", dst)
shutil.copytree(src + "/demo", dst + "/demo")
if os.path.exists(src + "/NOTES.md"): shutil.copy(src + "/NOTES.md", dst)
caught = []
for p, keys in r["checks_fired"].items():
    k = keys[0]
    caught.append({"property": p, "expect_key": k, "all_keys_first6": keys})
meta = {
 "id": sid, "breaks_property": prop, "origin": "written by an independent sub-agent that saw only the property text and a scratch worktree",
 "needs_to_manifest": needs,
 "confirmed": {"applies_to_repo_head": True, "builds": True, "baseline_suite_new_failures": [], "demo_passes_without_change": True, "demo_fails_with_change": True,
               "how": "python3 /verif/verify_seed.py <dir>: scratch copy of /repo under /var/tmp, patch -p1, go build ./..., go test -vet=off -count=1 ./..., demo with and without the change, then every check with -repo <copy>"},
 "demo": [d for d in r["demos"]],
 "caught_by": caught,
 "detected_by_target_property_check": any(c["property"] == prop for c in caught),
}
json.dump(meta, open(dst + "/meta.json", "w"), indent=1)
print("adopted", sid, "caught by", [c["property"] + ":" + c["expect_key"] for c in caught])
