// Package absint is a forward abstract interpreter over go/ssa for loop-free
// functions (engine E1 of DESIGN.md). Integer values live in a reduced product of
// known bits with bit provenance, unsigned intervals and linear forms over
// hash-consed atoms; every transfer function over-approximates and answers "unknown"
// rather than guessing.
package absint

import (
	"fmt"
	"go/types"
	"math/bits"
	"sort"
	"strconv"
	"strings"
)

// ---------------------------------------------------------------------------
// atoms and linear forms

// Atom is an opaque symbolic quantity: an entry value of a field or parameter, the
// result of a bus read, or the result of a non-linear operator applied to other
// forms. Atoms are hash-consed on Key, so equal keys mean syntactically equal
// computations over the same entry symbols.
type Atom struct {
	ID   int
	Key  string
	W    int     // width in bits of the quantity
	Hi   uint64  // inclusive upper bound (lower bound is 0)
	Deps []*Atom // base atoms (entry symbols, bus reads) this quantity is computed from; nil for a base atom
	// gated merge ite(IteCond, IteT, IteF), if this atom is one
	IteCond    string
	IteT, IteF *Lin
	// operator and operand forms of a derived (non-linear) atom; "" for base atoms
	Op   string
	Args []*Lin
}

// Restrict simplifies a form under the assumption that the branch conditions in
// guards (key -> truth value) hold: gated merges over those conditions collapse to
// the corresponding side.
func Restrict(l *Lin, guards map[string]bool) *Lin {
	r := &Lin{W: l.W, C: l.C}
	for _, t := range l.T {
		if t.A.IteT != nil {
			if v, ok := guards[t.A.IteCond]; ok {
				side := t.A.IteF
				if v {
					side = t.A.IteT
				}
				rs := Restrict(side, guards)
				if rs.W != l.W {
					// a narrower quantity inside a wider form stands for its (zero-extended)
					// value: re-read it at the outer width when it cannot wrap at its own
					if rs.W > l.W {
						// the outer form is modulo its own (smaller) width: so is the inner one
						rs = linTrunc(rs, l.W)
					} else if _, hi, ok := rs.rangeNoWrap(); ok && hi <= mask(rs.W) {
						rs = &Lin{W: l.W, C: rs.C, T: rs.T}
					} else {
						r = linAdd(r, &Lin{W: l.W, T: []LinTerm{t}}, false)
						continue
					}
				}
				r = linAdd(r, linScale(rs, t.K), false)
				continue
			}
		}
		r = linAdd(r, &Lin{W: l.W, T: []LinTerm{t}}, false)
	}
	return r
}

// BaseDeps returns the base atoms a depends on (itself if it is a base atom).
func (a *Atom) BaseDeps() []*Atom {
	if a.Deps == nil {
		return []*Atom{a}
	}
	return a.Deps
}

type Interner struct {
	atoms map[string]*Atom
	list  []*Atom
	fresh int
	// Conds maps the key of a branch condition used as a merge gate to the
	// (un-negated) comparison it stands for.
	Conds map[string]*Bool
}

func NewInterner() *Interner { return &Interner{atoms: map[string]*Atom{}, Conds: map[string]*Bool{}} }

// NoteCond records the comparison behind a gate key.
func (in *Interner) NoteCond(key string, b *Bool) {
	if _, ok := in.Conds[key]; ok {
		return
	}
	u := *b
	u.Neg = false
	in.Conds[key] = &u
}

func (in *Interner) Atom(key string, w int, hi uint64) *Atom {
	if a, ok := in.atoms[key]; ok {
		// the bound must hold wherever the atom is used, not only where it was
		// created under some edge refinement: keep the weakest bound seen
		if hi > a.Hi {
			a.Hi = hi
		}
		return a
	}
	a := &Atom{ID: len(in.list), Key: key, W: w, Hi: hi}
	in.atoms[key] = a
	in.list = append(in.list, a)
	return a
}

// Derived interns an atom computed from the given forms and records its base dependencies.
func (in *Interner) Derived(key string, w int, hi uint64, from ...*Lin) *Atom {
	a := in.Atom(key, w, hi)
	if a.Deps == nil {
		seen := map[*Atom]bool{}
		deps := []*Atom{}
		for _, l := range from {
			for _, t := range l.T {
				for _, d := range t.A.BaseDeps() {
					if !seen[d] {
						seen[d] = true
						deps = append(deps, d)
					}
				}
			}
		}
		a.Deps = deps
	}
	return a
}

// LinDeps lists the base atoms a form depends on.
func LinDeps(l *Lin) []*Atom {
	seen := map[*Atom]bool{}
	var deps []*Atom
	for _, t := range l.T {
		for _, d := range t.A.BaseDeps() {
			if !seen[d] {
				seen[d] = true
				deps = append(deps, d)
			}
		}
	}
	return deps
}

// ResetFresh restarts the numbering of fresh atoms (only valid on a new interner).
func (in *Interner) FreshCount() int { return in.fresh }

// Fresh returns an atom equal to nothing else.
func (in *Interner) Fresh(prefix string, w int, hi uint64) *Atom {
	in.fresh++
	return in.Atom(fmt.Sprintf("%s#%d", prefix, in.fresh), w, hi)
}

type LinTerm struct {
	A *Atom
	K uint64
}

// Lin is c + sum K_i*A_i modulo 2^W.
type Lin struct {
	W int
	C uint64
	T []LinTerm // sorted by atom ID, K != 0 mod 2^W
}

func mask(w int) uint64 {
	if w >= 64 {
		return ^uint64(0)
	}
	return (uint64(1) << uint(w)) - 1
}

func LinConst(w int, c uint64) *Lin { return &Lin{W: w, C: c & mask(w)} }
func LinAtom(w int, a *Atom) *Lin   { return &Lin{W: w, T: []LinTerm{{a, 1}}} }

func (l *Lin) IsConst() bool { return len(l.T) == 0 }

func (l *Lin) Key() string {
	var sb strings.Builder
	sb.WriteString(strconv.FormatUint(l.C, 16))
	// canonical order: by atom key, not by creation order
	ts := l.T
	if len(ts) > 1 {
		ts = append([]LinTerm(nil), l.T...)
		sort.Slice(ts, func(i, j int) bool { return ts[i].A.Key < ts[j].A.Key })
	}
	for _, t := range ts {
		sb.WriteByte('+')
		if t.K != 1 {
			// print small negative coefficients as such for readability
			if neg := (-t.K) & mask(l.W); neg < 0x10000 && t.K > 0x10000 {
				sb.WriteString("-" + strconv.FormatUint(neg, 16))
			} else {
				sb.WriteString(strconv.FormatUint(t.K, 16))
			}
			sb.WriteByte('*')
		}
		sb.WriteString(t.A.Key)
	}
	return sb.String()
}

func linAdd(a, b *Lin, sub bool) *Lin {
	w := a.W
	m := mask(w)
	r := &Lin{W: w}
	if sub {
		r.C = (a.C - b.C) & m
	} else {
		r.C = (a.C + b.C) & m
	}
	i, j := 0, 0
	for i < len(a.T) || j < len(b.T) {
		switch {
		case j >= len(b.T) || (i < len(a.T) && a.T[i].A.ID < b.T[j].A.ID):
			r.T = append(r.T, a.T[i])
			i++
		case i >= len(a.T) || b.T[j].A.ID < a.T[i].A.ID:
			k := b.T[j].K
			if sub {
				k = (-k) & m
			}
			if k != 0 {
				r.T = append(r.T, LinTerm{b.T[j].A, k})
			}
			j++
		default:
			var k uint64
			if sub {
				k = (a.T[i].K - b.T[j].K) & m
			} else {
				k = (a.T[i].K + b.T[j].K) & m
			}
			if k != 0 {
				r.T = append(r.T, LinTerm{a.T[i].A, k})
			}
			i++
			j++
		}
	}
	return r
}

func linScale(a *Lin, k uint64) *Lin {
	m := mask(a.W)
	r := &Lin{W: a.W, C: (a.C * k) & m}
	for _, t := range a.T {
		if kk := (t.K * k) & m; kk != 0 {
			r.T = append(r.T, LinTerm{t.A, kk})
		}
	}
	return r
}

// linTrunc reduces a form modulo 2^w (w <= a.W): truncation is a ring homomorphism.
func linTrunc(a *Lin, w int) *Lin {
	m := mask(w)
	r := &Lin{W: w, C: a.C & m}
	var inner []*Lin
	for _, t := range a.T {
		kk := t.K & m
		if kk == 0 {
			continue
		}
		// a zero-extended N-bit quantity, N >= w, is that quantity modulo 2^w
		if strings.HasPrefix(t.A.Op, "zext") && len(t.A.Args) == 1 && t.A.Args[0].W >= w && t.A.IteT == nil {
			inner = append(inner, linScale(linTrunc(t.A.Args[0], w), kk))
			continue
		}
		r.T = append(r.T, LinTerm{t.A, kk})
	}
	for _, x := range inner {
		r = linAdd(r, x, false)
	}
	return r
}

// rangeNoWrap evaluates the form over the naturals (no modulus), interpreting each
// coefficient as a non-negative integer. ok=false if any coefficient is "negative"
// (>= 2^(W-1)) or the arithmetic overflows 64 bits.
func (l *Lin) rangeNoWrap() (lo, hi uint64, ok bool) {
	lo, hi = l.C, l.C
	for _, t := range l.T {
		if l.W < 64 && t.K >= uint64(1)<<uint(l.W-1) {
			return 0, 0, false
		}
		if l.W == 64 && t.K >= uint64(1)<<63 {
			return 0, 0, false
		}
		h, p := bits.Mul64(t.K, t.A.Hi)
		if h != 0 {
			return 0, 0, false
		}
		var c uint64
		hi, c = bits.Add64(hi, p, 0)
		if c != 0 {
			return 0, 0, false
		}
	}
	return lo, hi, true
}

// ---------------------------------------------------------------------------
// bits

type BitKind uint8

const (
	BZero BitKind = iota
	BOne
	BLit // copy (possibly negated) of bit Idx of atom A
	BTop
)

type Bit struct {
	K   BitKind
	A   *Atom
	Idx uint8
	Neg bool
}

func (b Bit) String() string {
	switch b.K {
	case BZero:
		return "0"
	case BOne:
		return "1"
	case BLit:
		s := fmt.Sprintf("%s.%d", b.A.Key, b.Idx)
		if b.Neg {
			return "~" + s
		}
		return s
	}
	return "?"
}

func bitConst(v bool) Bit {
	if v {
		return Bit{K: BOne}
	}
	return Bit{K: BZero}
}

func bitNot(a Bit) Bit {
	switch a.K {
	case BZero:
		return Bit{K: BOne}
	case BOne:
		return Bit{K: BZero}
	case BLit:
		a.Neg = !a.Neg
		return a
	}
	return a
}

func sameLit(a, b Bit) (same, opposite bool) {
	if a.K == BLit && b.K == BLit && a.A == b.A && a.Idx == b.Idx {
		return a.Neg == b.Neg, a.Neg != b.Neg
	}
	return false, false
}

func bitAnd(a, b Bit) Bit {
	if a.K == BZero || b.K == BZero {
		return Bit{K: BZero}
	}
	if a.K == BOne {
		return b
	}
	if b.K == BOne {
		return a
	}
	if s, o := sameLit(a, b); s {
		return a
	} else if o {
		return Bit{K: BZero}
	}
	return Bit{K: BTop}
}

func bitOr(a, b Bit) Bit { return bitNot(bitAnd(bitNot(a), bitNot(b))) }
func bitXor(a, b Bit) Bit {
	if a.K == BZero {
		return b
	}
	if b.K == BZero {
		return a
	}
	if a.K == BOne {
		return bitNot(b)
	}
	if b.K == BOne {
		return bitNot(a)
	}
	if s, o := sameLit(a, b); s {
		return Bit{K: BZero}
	} else if o {
		return Bit{K: BOne}
	}
	return Bit{K: BTop}
}

func bitMaj(a, b, c Bit) Bit {
	return bitOr(bitOr(bitAnd(a, b), bitAnd(a, c)), bitAnd(b, c))
}

func bitJoin(a, b Bit) Bit {
	if a == b {
		return a
	}
	return Bit{K: BTop}
}

// ---------------------------------------------------------------------------
// values

type Val interface{ isVal() }

// Int is an abstract integer of width W.
type Int struct {
	W      int
	Signed bool // only informational; arithmetic is on the two's complement bit pattern
	Bits   []Bit
	Lo, Hi uint64 // unsigned bounds of the bit pattern
	Lin    *Lin
}

type Tri uint8

const (
	TriTop Tri = iota
	TriF
	TriT
)

func (t Tri) String() string { return [...]string{"?", "false", "true"}[t] }

type CmpInfo struct {
	Op   string // == != < <= > >=
	X, Y Val    // operands as evaluated
	XS   any    // ssa.Value of X (for refinement), opaque here
	YS   any
	Sgn  bool
}

type Bool struct {
	K   Tri
	Cmp *CmpInfo
	Key string // identity of an unknown boolean (entry symbol), "" if none
	Neg bool
	// NilOf: this boolean is a nil test of that SSA value (opaque here); it is true
	// exactly when the value is nil if NilSense, exactly when it is non-nil otherwise
	NilOf    any
	NilSense bool
	// Conj: this boolean (before Neg) is the conjunction of these conditions (`a && b`
	// kept in a variable; `a || b` is the negated conjunction of the negations)
	Conj []*Bool
}

// Obj is an abstract memory object.
type ObjKind uint8

const (
	ObjSym    ObjKind = iota // pre-existing object with unknown contents (receiver pointee etc.)
	ObjFresh                 // allocated during the analysed execution; unwritten cells are zero
	ObjGlobal                // package-level variable
)

type Obj struct {
	ID   int
	Kind ObjKind
	Name string
	T    types.Type // type of the object (pointee)
}

// Sel is one step of an access path.
type Sel struct {
	Field int  // >= 0: struct field index
	Index int  // >= 0: constant element index (Field == -1)
	Dyn   *Int // non-nil: dynamic element index (Field == -1, Index == -1)
}

type Ptr struct {
	Nil  Tri // TriT = nil pointer
	Obj  *Obj
	Path []Sel
	T    types.Type // pointee type
}

type Slice struct {
	Nil   Tri
	Base  Ptr // pointer to element 0 of the underlying storage as seen by this slice (array obj + path + offset)
	Off   *Int
	Len   *Int
	Cap   *Int
	ElemT types.Type
}

type Struct struct {
	T *types.Struct
	F []Val
}

type Array struct {
	T *types.Array
	E []Val
}

type Func struct {
	Fn   any // *ssa.Function
	Bind []Val
	Key  string
}

type Iface struct {
	Dyn types.Type
	V   Val
}

type Tuple struct{ E []Val }

type Str struct {
	Known bool
	S     string
	Key   string
}

// Top is an unknown value of type T. A non-empty Key gives it an identity.
type Top struct {
	T   types.Type
	Key string
	// NonNil: an interface value known not to be nil (a freshly made error).
	NonNil bool
	// NilIf: the value is nil exactly when this (undecided) condition holds: the merge
	// of a nil and a non-nil value under a named branch.
	NilIf *Bool
}

// Slot is a value loaded from a dispatch table (array of functions or interfaces)
// with a dynamic index; calling it is a bus primitive.
type Slot struct {
	Table Ptr
	Index *Int
	T     types.Type
}

func (*Int) isVal()    {}
func (*Bool) isVal()   {}
func (*Ptr) isVal()    {}
func (*Slice) isVal()  {}
func (*Struct) isVal() {}
func (*Array) isVal()  {}
func (*Func) isVal()   {}
func (*Iface) isVal()  {}
func (*Tuple) isVal()  {}
func (*Str) isVal()    {}
func (*Top) isVal()    {}
func (*Slot) isVal()   {}

// ---------------------------------------------------------------------------
// Int constructors and reduction

func NewConst(w int, c uint64, signed bool) *Int {
	c &= mask(w)
	v := &Int{W: w, Signed: signed, Bits: make([]Bit, w), Lo: c, Hi: c, Lin: LinConst(w, c)}
	for i := 0; i < w; i++ {
		v.Bits[i] = bitConst(c>>uint(i)&1 == 1)
	}
	return v
}

// NewSym is the value of atom a: every bit is a literal of a, bounded by a.Hi.
func NewSym(w int, a *Atom, signed bool) *Int {
	v := &Int{W: w, Signed: signed, Bits: make([]Bit, w), Lo: 0, Hi: mask(w), Lin: LinAtom(w, a)}
	if a.Hi < v.Hi {
		v.Hi = a.Hi
	}
	for i := 0; i < w; i++ {
		v.Bits[i] = Bit{K: BLit, A: a, Idx: uint8(i)}
	}
	return v.reduce()
}

func NewTopInt(in *Interner, w int, signed bool, why string) *Int {
	a := in.Fresh("top:"+why, w, mask(w))
	v := &Int{W: w, Signed: signed, Bits: make([]Bit, w), Lo: 0, Hi: mask(w), Lin: LinAtom(w, a)}
	for i := range v.Bits {
		v.Bits[i] = Bit{K: BTop}
	}
	return v
}

func (v *Int) clone() *Int {
	c := *v
	c.Bits = append([]Bit(nil), v.Bits...)
	return &c
}

func (v *Int) IsConst() (uint64, bool) {
	if v.Lo == v.Hi {
		return v.Lo, true
	}
	return 0, false
}

func bitlen(x uint64) int { return bits.Len64(x) }

// reduce propagates information between the three components.
func (v *Int) reduce() *Int {
	m := mask(v.W)
	if v.Hi > m {
		v.Hi = m
	}
	// lin -> interval
	if l, h, ok := v.Lin.rangeNoWrap(); ok && h <= m {
		if l > v.Lo {
			v.Lo = l
		}
		if h < v.Hi {
			v.Hi = h
		}
	}
	for iter := 0; iter < 2; iter++ {
		// bits -> interval
		var lb, hb uint64
		for i := 0; i < v.W; i++ {
			switch v.Bits[i].K {
			case BOne:
				lb |= 1 << uint(i)
				hb |= 1 << uint(i)
			case BLit, BTop:
				hb |= 1 << uint(i)
			}
		}
		if lb > v.Lo {
			v.Lo = lb
		}
		if hb < v.Hi {
			v.Hi = hb
		}
		if v.Lo > v.Hi {
			// contradictory (unreachable) value; keep it well-formed
			v.Hi = v.Lo
		}
		// interval -> bits: common leading prefix of Lo and Hi is known
		n := bitlen(v.Lo ^ v.Hi)
		for i := n; i < v.W; i++ {
			v.Bits[i] = bitConst(v.Lo>>uint(i)&1 == 1)
		}
	}
	if v.Lo == v.Hi && !v.Lin.IsConst() {
		v.Lin = LinConst(v.W, v.Lo)
	}
	// identity through bit shuffling: if every bit is bit i of one atom A (and the
	// rest are zero above A's range) the value is A itself
	if len(v.Lin.T) == 1 && v.Lin.T[0].A.Deps != nil && v.W > 0 && v.Bits[0].K == BLit {
		a := v.Bits[0].A
		n := bitlen(a.Hi)
		ok := n <= v.W // the atom's whole range must fit: low bits of a wider quantity are not the quantity
		for i := 0; i < v.W && ok; i++ {
			b := v.Bits[i]
			if i < n {
				ok = b.K == BLit && b.A == a && int(b.Idx) == i && !b.Neg
			} else {
				ok = b.K == BZero
			}
		}
		if ok && a.Deps == nil {
			v.Lin = LinAtom(v.W, a)
		}
	}
	if c, ok := linConstVal(v.Lin); ok {
		v.Lo, v.Hi = c, c
		for i := 0; i < v.W; i++ {
			v.Bits[i] = bitConst(c>>uint(i)&1 == 1)
		}
	}
	return v
}

func linConstVal(l *Lin) (uint64, bool) {
	if l.IsConst() {
		return l.C, true
	}
	return 0, false
}

func (v *Int) String() string {
	if c, ok := v.IsConst(); ok {
		return fmt.Sprintf("0x%x", c)
	}
	return fmt.Sprintf("{[0x%x,0x%x] %s}", v.Lo, v.Hi, v.Lin.Key())
}

// BitString renders bits msb first.
func (v *Int) BitString() string {
	var parts []string
	for i := v.W - 1; i >= 0; i-- {
		parts = append(parts, v.Bits[i].String())
	}
	return strings.Join(parts, " ")
}

// KnownBits returns (mask of known bits, their values).
func (v *Int) KnownBits() (known, val uint64) {
	for i := 0; i < v.W; i++ {
		switch v.Bits[i].K {
		case BZero:
			known |= 1 << uint(i)
		case BOne:
			known |= 1 << uint(i)
			val |= 1 << uint(i)
		}
	}
	return
}

// ---------------------------------------------------------------------------
// rendering of arbitrary values (for keys and reports)

func ValKey(v Val) string {
	switch x := v.(type) {
	case nil:
		return "<nil>"
	case *Int:
		return x.Lin.Key()
	case *Bool:
		if x.K != TriTop {
			return x.K.String()
		}
		if x.Key != "" {
			if x.Neg {
				return "!" + x.Key
			}
			return x.Key
		}
		if x.Cmp != nil {
			return "(" + ValKey(x.Cmp.X) + x.Cmp.Op + ValKey(x.Cmp.Y) + ")"
		}
		if len(x.Conj) > 0 {
			var p []string
			for _, c := range x.Conj {
				p = append(p, ValKey(c))
			}
			k := "and(" + strings.Join(p, ",") + ")"
			if x.Neg {
				return "!" + k
			}
			return k
		}
		return "bool?"
	case *Ptr:
		if x.Nil == TriT {
			return "nil"
		}
		if x.Obj == nil {
			return "ptr?"
		}
		return "&" + x.Obj.Name + PathKey(x.Path)
	case *Slice:
		if x.Nil == TriT {
			return "nil[]"
		}
		return "slice(" + ValKey(&x.Base) + "+" + ValKey(x.Off) + ";len=" + ValKey(x.Len) + ")"
	case *Struct:
		var p []string
		for _, f := range x.F {
			p = append(p, ValKey(f))
		}
		return "{" + strings.Join(p, ",") + "}"
	case *Array:
		var p []string
		for _, f := range x.E {
			p = append(p, ValKey(f))
		}
		return "[" + strings.Join(p, ",") + "]"
	case *Func:
		return "func:" + x.Key
	case *Iface:
		return "iface(" + ValKey(x.V) + ")"
	case *Tuple:
		var p []string
		for _, f := range x.E {
			p = append(p, ValKey(f))
		}
		return "(" + strings.Join(p, ",") + ")"
	case *Str:
		if x.Known {
			return strconv.Quote(x.S)
		}
		return "str:" + x.Key
	case *Top:
		if x.Key != "" {
			return "top:" + x.Key
		}
		return "top"
	case *Slot:
		return "slot(" + ValKey(&x.Table) + "[" + ValKey(x.Index) + "])"
	}
	return fmt.Sprintf("%T", v)
}

func PathKey(p []Sel) string {
	var sb strings.Builder
	for _, s := range p {
		switch {
		case s.Field >= 0:
			sb.WriteString(".f" + strconv.Itoa(s.Field))
		case s.Index >= 0:
			sb.WriteString("[" + strconv.Itoa(s.Index) + "]")
		default:
			sb.WriteString("[" + s.Dyn.Lin.Key() + "]")
		}
	}
	return sb.String()
}

func sortStrings(s []string) []string { sort.Strings(s); return s }

// SameBits reports whether every bit of x and y is known (a constant or a copy of an entry bit) and the same in
// both: the two values are then equal whatever their terms look like (a shift-and-mask spelling against a
// multiply-and-add one).
func SameBits(x, y *Int) bool {
	if x == nil || y == nil || x.W != y.W {
		return false
	}
	for i := 0; i < x.W; i++ {
		a, b := x.Bits[i], y.Bits[i]
		if a.K == BTop || b.K == BTop || a.K != b.K {
			return false
		}
		if a.K == BLit && (a.A.Key != b.A.Key || a.Idx != b.Idx || a.Neg != b.Neg) {
			return false
		}
	}
	return true
}
