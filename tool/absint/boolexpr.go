package absint

import (
	"fmt"
	"math/bits"
	"sort"
	"strings"
)

// Boolean structure of abstract values.
//
// A flag-like value (range [0,1]) and every branch condition used as a merge gate is
// turned into a boolean expression over *canonical atomic propositions*:
//
//	bit(T,k)    bit k of the term T reduced modulo 2^(k+1)
//	zero(T)     T == 0
//	eq(T,U)     T == U            (operands ordered by key)
//	lt(T,U)     T <  U unsigned   (slt: signed); >, >=, <= are rewritten to lt
//
// Bit extraction distributes over and / or / xor / shifts / extensions / gated merges,
// so differently written computations of the same flag ("(a^d)&0x80 == 0", "sum > 0xff"
// for a 9-bit sum, "v>>7") meet in the same propositions. Expressions are compared by
// truth table over the propositions they mention: equality of the tables implies
// equality of the functions whatever the propositions' actual correlation.

type BExpr struct {
	Op string // "const", "var", "not", "and", "or", "xor", "ite"
	K  bool
	V  string
	A  []*BExpr
}

func BConst(b bool) *BExpr { return &BExpr{Op: "const", K: b} }
func BVar(n string) *BExpr { return &BExpr{Op: "var", V: n} }
func BNot(x *BExpr) *BExpr {
	if x.Op == "const" {
		return BConst(!x.K)
	}
	if x.Op == "not" {
		return x.A[0]
	}
	return &BExpr{Op: "not", A: []*BExpr{x}}
}
func BAnd(x, y *BExpr) *BExpr {
	switch {
	case x.Op == "const":
		if x.K {
			return y
		}
		return x
	case y.Op == "const":
		if y.K {
			return x
		}
		return y
	}
	return &BExpr{Op: "and", A: []*BExpr{x, y}}
}
func BOr(x, y *BExpr) *BExpr {
	switch {
	case x.Op == "const":
		if x.K {
			return x
		}
		return y
	case y.Op == "const":
		if y.K {
			return y
		}
		return x
	}
	return &BExpr{Op: "or", A: []*BExpr{x, y}}
}
func BXor(x, y *BExpr) *BExpr {
	switch {
	case x.Op == "const":
		if x.K {
			return BNot(y)
		}
		return y
	case y.Op == "const":
		if y.K {
			return BNot(x)
		}
		return x
	}
	return &BExpr{Op: "xor", A: []*BExpr{x, y}}
}
func BIte(c, t, f *BExpr) *BExpr {
	if c.Op == "const" {
		if c.K {
			return t
		}
		return f
	}
	if t.Op == "const" && f.Op == "const" {
		switch {
		case t.K && !f.K:
			return c
		case !t.K && f.K:
			return BNot(c)
		default:
			return t
		}
	}
	return &BExpr{Op: "ite", A: []*BExpr{c, t, f}}
}

func (e *BExpr) Eval(env map[string]bool) bool {
	switch e.Op {
	case "const":
		return e.K
	case "var":
		return env[e.V]
	case "not":
		return !e.A[0].Eval(env)
	case "and":
		return e.A[0].Eval(env) && e.A[1].Eval(env)
	case "or":
		return e.A[0].Eval(env) || e.A[1].Eval(env)
	case "xor":
		return e.A[0].Eval(env) != e.A[1].Eval(env)
	case "ite":
		if e.A[0].Eval(env) {
			return e.A[1].Eval(env)
		}
		return e.A[2].Eval(env)
	}
	return false
}

func (e *BExpr) CollectVars(set map[string]bool) {
	if e.Op == "var" {
		set[e.V] = true
	}
	for _, a := range e.A {
		a.CollectVars(set)
	}
}

func (e *BExpr) String() string {
	switch e.Op {
	case "const":
		if e.K {
			return "1"
		}
		return "0"
	case "var":
		return e.V
	case "not":
		return "!" + e.A[0].String()
	case "ite":
		return "ite(" + e.A[0].String() + "," + e.A[1].String() + "," + e.A[2].String() + ")"
	}
	return "(" + e.A[0].String() + " " + e.Op + " " + e.A[1].String() + ")"
}

// MaxTableVars bounds the truth tables built by Canon.
const MaxTableVars = 16

// Canon returns a canonical rendering of the boolean function: the propositions it
// really depends on (sorted) and its truth table. ok=false if it mentions too many.
func (e *BExpr) Canon() (string, bool) {
	set := map[string]bool{}
	e.CollectVars(set)
	var vars []string
	for v := range set {
		vars = append(vars, v)
	}
	sort.Strings(vars)
	if len(vars) > MaxTableVars {
		return e.String(), false
	}
	n := len(vars)
	rows := 1 << uint(n)
	tab := make([]bool, rows)
	env := map[string]bool{}
	for r := 0; r < rows; r++ {
		for i, v := range vars {
			env[v] = r>>uint(i)&1 == 1
		}
		tab[r] = e.Eval(env)
	}
	// drop propositions the function does not depend on
	var keep []int
	for i := range vars {
		dep := false
		for r := 0; r < rows && !dep; r++ {
			if tab[r] != tab[r^(1<<uint(i))] {
				dep = true
			}
		}
		if dep {
			keep = append(keep, i)
		}
	}
	var sb strings.Builder
	sb.WriteString("f(")
	for j, i := range keep {
		if j > 0 {
			sb.WriteString(" ; ")
		}
		sb.WriteString(vars[i])
	}
	sb.WriteString(")=")
	for r := 0; r < 1<<uint(len(keep)); r++ {
		full := 0
		for j, i := range keep {
			if r>>uint(j)&1 == 1 {
				full |= 1 << uint(i)
			}
		}
		if tab[full] {
			sb.WriteByte('1')
		} else {
			sb.WriteByte('0')
		}
	}
	return sb.String(), true
}

// BoolCtx turns values of one interner into boolean expressions.
type BoolCtx struct {
	Conds map[string]*Bool // gate key -> comparison
	O     *Ops             // optional: transfer functions used to put operands into one form
	depth int
}

// BitOf is bit k of the value denoted by l.
func (c *BoolCtx) BitOf(l *Lin, k int) *BExpr {
	if k >= l.W {
		return BConst(false)
	}
	// the top bit of X - Y, both below half the range, is the borrow: X < Y
	if k == l.W-1 && k > 0 {
		if e := c.signOfDifference(l); e != nil {
			return e
		}
	}
	if k+1 < l.W {
		l = linTrunc(l, k+1)
	}
	if l.IsConst() {
		return BConst(l.C>>uint(k)&1 == 1)
	}
	// bit 0 of a sum has no carries: the parity of the odd terms
	if k == 0 && len(l.T) > 0 {
		e := BConst(l.C&1 == 1)
		for _, t := range l.T {
			if t.K&1 == 1 {
				e = BXor(e, c.atomBit(t.A, 0))
			}
		}
		if len(l.T) > 1 || l.C&1 == 1 {
			return e
		}
	}
	if len(l.T) == 1 && l.C == 0 {
		t := l.T[0]
		if t.K&(t.K-1) == 0 { // power of two: a left shift
			j := bits.TrailingZeros64(t.K)
			if k < j {
				return BConst(false)
			}
			return c.atomBit(t.A, k-j)
		}
	}
	// x ^ all-ones is kept as (2^w-1) - x: bit k of it is the complement of bit k of x
	if len(l.T) == 1 && l.C == mask(l.W) && l.T[0].K == mask(l.W) {
		return BNot(c.atomBit(l.T[0].A, k))
	}
	// a sum of shifted quantities occupying pairwise disjoint bit ranges (a packed
	// byte): the bit belongs to exactly one of them
	if e := c.packedBit(l, k); e != nil {
		return e
	}
	return BVar(fmt.Sprintf("bit(%s,%d)", l.Key(), k))
}

// LinInt wraps a form as a value with whatever interval the form implies.
func LinInt(l *Lin) *Int {
	v := &Int{W: l.W, Bits: topBits(l.W), Lo: 0, Hi: mask(l.W), Lin: l}
	return v.reduce()
}

// linName names a form in a proposition: the key, tagged with the width when the
// form may wrap at it (then the same key at another width is a different quantity).
func linName(l *Lin) string {
	if _, hi, ok := l.rangeNoWrap(); ok && hi <= mask(l.W) {
		return l.Key()
	}
	return fmt.Sprintf("%s/%d", l.Key(), l.W)
}

func (c *BoolCtx) signOfDifference(l *Lin) *BExpr {
	w := l.W
	if w < 2 || w > 63 {
		return nil
	}
	half := uint64(1) << uint(w-1)
	x, y := &Lin{W: w}, &Lin{W: w}
	if l.C < half {
		x.C = l.C
	} else {
		y.C = (-l.C) & mask(w)
	}
	neg := false
	for _, t := range l.T {
		if t.K < half {
			x.T = append(x.T, t)
		} else {
			y.T = append(y.T, LinTerm{t.A, (-t.K) & mask(w)})
			neg = true
		}
	}
	if !neg {
		return nil
	}
	_, xh, ok1 := x.rangeNoWrap()
	_, yh, ok2 := y.rangeNoWrap()
	if !ok1 || !ok2 || xh >= half || yh >= half {
		return nil
	}
	return c.CmpExpr(&CmpInfo{Op: "<", X: LinInt(x), Y: LinInt(y)})
}

func (c *BoolCtx) packedBit(l *Lin, k int) *BExpr {
	var used uint64 = l.C
	var hit *LinTerm
	for i := range l.T {
		t := l.T[i]
		if t.K&(t.K-1) != 0 {
			return nil
		}
		j := bits.TrailingZeros64(t.K)
		n := bitlen(t.A.Hi)
		if j+n > 64 {
			return nil
		}
		span := mask(n) << uint(j)
		if used&span != 0 {
			return nil
		}
		used |= span
		if k >= j && k < j+n {
			hit = &l.T[i]
		}
	}
	if hit == nil {
		return BConst(l.C>>uint(k)&1 == 1)
	}
	return c.atomBit(hit.A, k-bits.TrailingZeros64(hit.K))
}

func (c *BoolCtx) atomBit(a *Atom, i int) *BExpr {
	if i >= bitlen(a.Hi) || i >= a.W {
		return BConst(false)
	}
	if a.IteT != nil {
		return BIte(c.CondExpr(a.IteCond), c.BitOf(a.IteT, i), c.BitOf(a.IteF, i))
	}
	arg := func(n int) *Lin { return a.Args[n] }
	switch {
	case a.Op == "and" && len(a.Args) == 2:
		return BAnd(c.BitOf(arg(0), i), c.BitOf(arg(1), i))
	case a.Op == "or" && len(a.Args) == 2:
		return BOr(c.BitOf(arg(0), i), c.BitOf(arg(1), i))
	case a.Op == "xor" && len(a.Args) == 2:
		return BXor(c.BitOf(arg(0), i), c.BitOf(arg(1), i))
	case strings.HasPrefix(a.Op, "shr") && len(a.Args) == 1 && len(a.Op) > 3:
		var n int
		fmt.Sscanf(a.Op[3:], "%d", &n)
		if i+n >= arg(0).W {
			return BConst(false)
		}
		return c.BitOf(arg(0), i+n)
	case strings.HasPrefix(a.Op, "sar") && len(a.Args) == 1 && len(a.Op) > 3:
		var n int
		fmt.Sscanf(a.Op[3:], "%d", &n)
		j := i + n
		if j >= arg(0).W {
			j = arg(0).W - 1
		}
		return c.BitOf(arg(0), j)
	case strings.HasPrefix(a.Op, "zext") && len(a.Args) == 1:
		if i >= arg(0).W {
			return BConst(false)
		}
		return c.BitOf(arg(0), i)
	case strings.HasPrefix(a.Op, "sext") && len(a.Args) == 1:
		j := i
		if j >= arg(0).W {
			j = arg(0).W - 1
		}
		return c.BitOf(arg(0), j)
	}
	return BVar(fmt.Sprintf("bit(0+%s,%d)", a.Key, i))
}

func intOf(v Val) *Int {
	i, _ := v.(*Int)
	return i
}

// ZeroExpr: the proposition x == 0.
func (c *BoolCtx) ZeroExpr(x *Int) *BExpr {
	if cv, ok := x.IsConst(); ok {
		return BConst(cv == 0)
	}
	if x.Lin.C != 0 && len(x.Lin.T) > 0 {
		return c.CmpExpr(&CmpInfo{Op: "==", X: x, Y: NewConst(x.W, 0, false)})
	}
	// a zero-extended quantity is zero exactly when the quantity is
	if len(x.Lin.T) == 1 && x.Lin.T[0].K == 1 && x.Lin.C == 0 {
		if at := x.Lin.T[0].A; strings.HasPrefix(at.Op, "zext") && len(at.Args) == 1 && at.IteT == nil {
			return c.ZeroExpr(LinInt(at.Args[0]))
		}
	}
	// (T & low-mask) == 0 is T == 0 modulo the mask's width
	if len(x.Lin.T) == 1 && x.Lin.T[0].K == 1 {
		if at := x.Lin.T[0].A; at.Op == "and" && len(at.Args) == 2 {
			for i := 0; i < 2; i++ {
				m, other := at.Args[i], at.Args[1-i]
				if m.IsConst() && m.C != 0 && (m.C+1)&m.C == 0 && !other.IsConst() {
					n := bits.Len64(m.C)
					if n < other.W {
						return c.ZeroExpr(LinInt(linTrunc(other, n)))
					}
				}
			}
		}
	}
	// only few bit positions can be non-zero: all of them must be clear
	var pos []int
	for i := 0; i < x.W; i++ {
		if x.Bits[i].K != BZero {
			pos = append(pos, i)
		}
	}
	if x.Hi < mask(x.W) {
		n := bitlen(x.Hi)
		var p2 []int
		for _, i := range pos {
			if i < n {
				p2 = append(p2, i)
			}
		}
		pos = p2
	}
	if len(pos) > 0 && len(pos) <= 2 {
		e := BNot(c.BitOf(x.Lin, pos[0]))
		for _, i := range pos[1:] {
			e = BAnd(e, BNot(c.BitOf(x.Lin, i)))
		}
		return e
	}
	return BVar("zero(" + linName(x.Lin) + ")")
}

// CondExpr is the boolean expression of the branch condition registered under key.
func (c *BoolCtx) CondExpr(key string) *BExpr {
	b := c.Conds[key]
	if b != nil && len(b.Conj) > 0 {
		e := BConst(true)
		for _, m := range b.Conj {
			var me *BExpr
			switch {
			case m.Cmp != nil:
				me = c.CmpExpr(m.Cmp)
			case m.Key != "":
				me = BVar("cond:" + m.Key)
			default:
				return BVar("cond:" + key)
			}
			if m.Neg {
				me = BNot(me)
			}
			e = BAnd(e, me)
		}
		return e
	}
	if b == nil || b.Cmp == nil {
		return BVar("cond:" + key)
	}
	c.depth++
	defer func() { c.depth-- }()
	if c.depth > 64 {
		return BVar("cond:" + key)
	}
	return c.CmpExpr(b.Cmp)
}

// CmpExpr normalises one comparison.
func (c *BoolCtx) CmpExpr(cm *CmpInfo) *BExpr {
	x, y := intOf(cm.X), intOf(cm.Y)
	if x == nil || y == nil {
		return BVar("cond:(" + ValKey(cm.X) + cm.Op + ValKey(cm.Y) + ")")
	}
	op := cm.Op
	// two constants: decided
	if xc, ok1 := x.IsConst(); ok1 {
		if yc, ok2 := y.IsConst(); ok2 {
			a, b := int64(xc), int64(yc)
			if cm.Sgn && x.W < 64 {
				a, b = int64(xc<<(64-uint(x.W)))>>(64-uint(x.W)), int64(yc<<(64-uint(y.W)))>>(64-uint(y.W))
			}
			var r bool
			switch {
			case op == "==":
				r = xc == yc
			case op == "!=":
				r = xc != yc
			case cm.Sgn:
				r = map[string]bool{"<": a < b, "<=": a <= b, ">": a > b, ">=": a >= b}[op]
			default:
				r = map[string]bool{"<": xc < yc, "<=": xc <= yc, ">": xc > yc, ">=": xc >= yc}[op]
			}
			return BConst(r)
		}
	}
	// constant on the right
	if _, isC := x.IsConst(); isC {
		if _, isC2 := y.IsConst(); !isC2 {
			x, y = y, x
			op = flipOp(op)
		}
	}
	lt := func(a, b *Int) *BExpr {
		// a < b
		nonneg := a.Hi <= mask(a.W)>>1 && b.Hi <= mask(b.W)>>1
		if bc, ok := b.IsConst(); ok && (!cm.Sgn || nonneg) {
			if bc == 0 {
				return BConst(false)
			}
			if bc&(bc-1) == 0 { // a < 2^k
				k := bits.TrailingZeros64(bc)
				if a.Hi < uint64(1)<<uint(k+1) {
					return BNot(c.BitOf(a.Lin, k))
				}
			}
			if bc == 1 {
				return c.ZeroExpr(a)
			}
			// a < c is not(c-1 < a): comparisons with a constant are named with the
			// constant on the left, so `q >= 32` and `q > 31` are one proposition
			return BNot(BVar("lt(" + linName(LinConst(b.W, bc-1)) + "," + linName(a.Lin) + ")"))
		}
		if ac, ok := a.IsConst(); ok && (!cm.Sgn || nonneg) { // c < b
			if (ac+1)&ac == 0 { // c = 2^k-1: b >= 2^k
				k := bits.TrailingZeros64(ac + 1)
				if b.Hi < uint64(1)<<uint(k+1) && k < b.W {
					return c.BitOf(b.Lin, k)
				}
			}
			if ac == 0 {
				return BNot(c.ZeroExpr(b))
			}
		}
		n := "lt"
		if cm.Sgn && !(a.Hi <= mask(a.W)>>1 && b.Hi <= mask(b.W)>>1) {
			n = "slt" // (a signed comparison of non-negative operands is the unsigned one)
		}
		return BVar(n + "(" + linName(a.Lin) + "," + linName(b.Lin) + ")")
	}
	switch op {
	case "==", "!=":
		var e *BExpr
		if yc, ok := y.IsConst(); ok && x.Lin.C != 0 && len(x.Lin.T) > 0 {
			// T + c == d  <=>  T == d - c (mod 2^w)
			nl := &Lin{W: x.Lin.W, T: x.Lin.T}
			nx := &Int{W: x.W, Signed: x.Signed, Bits: topBits(x.W), Lo: 0, Hi: mask(x.W), Lin: nl}
			nx = nx.reduce()
			x, y = nx, NewConst(x.W, (yc-x.Lin.C)&mask(x.W), false)
		}
		if yc, ok := y.IsConst(); ok {
			switch {
			case x.Hi <= 1:
				switch yc {
				case 0:
					e = BNot(c.BitOf(x.Lin, 0))
				case 1:
					e = c.BitOf(x.Lin, 0)
				default:
					e = BConst(false)
				}
			case yc == 0:
				e = c.ZeroExpr(x)
			default:
				// a single possibly-set bit compared with that bit's value
				e = BVar("eq(" + linName(x.Lin) + "," + linName(y.Lin) + ")")
				if yc&(yc-1) == 0 {
					only := true
					k := bits.TrailingZeros64(yc)
					for i := 0; i < x.W; i++ {
						if i != k && x.Bits[i].K != BZero {
							only = false
						}
					}
					if only {
						e = c.BitOf(x.Lin, k)
					}
				}
			}
		} else {
			a, b := linName(x.Lin), linName(y.Lin)
			// equality of the top bits of two terms, written with a mask or with a shift
			if na, ta, ok1 := highPart(x.Lin); ok1 {
				if nb, tb, ok2 := highPart(y.Lin); ok2 && na == nb && ta.W == tb.W {
					if c.O != nil {
						// evaluate both as shifts, so that a shift the transfer
						// functions see through (hi byte of lo+256*hi) has one name
						sa := c.O.Shr(c.O.Rebuild(ta, nil), NewConst(ta.W, uint64(na), false), false)
						sb := c.O.Shr(c.O.Rebuild(tb, nil), NewConst(tb.W, uint64(nb), false), false)
						a, b = linName(sa.Lin), linName(sb.Lin)
					} else {
						a = fmt.Sprintf("hi%d(%s)", na, linName(ta))
						b = fmt.Sprintf("hi%d(%s)", nb, linName(tb))
					}
				}
			}
			if a > b {
				a, b = b, a
			}
			e = BVar("eq(" + a + "," + b + ")")
		}
		if op == "!=" {
			return BNot(e)
		}
		return e
	case "<":
		return lt(x, y)
	case ">":
		return lt(y, x)
	case ">=":
		return BNot(lt(x, y))
	case "<=":
		return BNot(lt(y, x))
	}
	return BVar("cond:(" + x.Lin.Key() + op + y.Lin.Key() + ")")
}

// IteConds collects the gate keys of all gated merges inside l (recursively).
func IteConds(l *Lin, set map[string]bool) {
	seen := map[*Atom]bool{}
	var walkAtom func(a *Atom)
	var walk func(l *Lin)
	walk = func(l *Lin) {
		for _, t := range l.T {
			walkAtom(t.A)
		}
	}
	walkAtom = func(a *Atom) {
		if seen[a] {
			return
		}
		seen[a] = true
		if a.IteT != nil {
			set[a.IteCond] = true
			walk(a.IteT)
			walk(a.IteF)
		}
		for _, x := range a.Args {
			walk(x)
		}
	}
	walk(l)
}

// Rebuild re-evaluates the form l with the transfer functions of o (whose interner may
// differ from the one l was built in: base atoms are re-interned by key), resolving
// gated merges whose condition is decided by assign.
func (o Ops) Rebuild(l *Lin, assign map[string]bool) *Int {
	return o.RebuildSubst(l, assign, nil)
}

// RebuildSubst is Rebuild with some atoms (by key) replaced by constants.
func (o Ops) RebuildSubst(l *Lin, assign map[string]bool, subst map[string]uint64) *Int {
	return o.RebuildBounded(l, assign, subst, nil)
}

// RebuildBounded is RebuildSubst with upper bounds known for some sub-terms (by the
// name linName gives them): a term re-evaluated to such a name gets the bound, so that
// masks and extensions the bound makes redundant disappear.
func (o Ops) RebuildBounded(l *Lin, assign map[string]bool, subst map[string]uint64, hi map[string]uint64) *Int {
	memo := map[*Atom]*Int{}
	if len(hi) > 0 {
		// path-specific bounds are written into the atoms themselves, so they need an
		// interner of their own (results are compared by key only)
		o = Ops{In: NewInterner()}
	}
	bound := func(v *Int) *Int {
		if len(hi) == 0 || v.Lin.IsConst() {
			return v
		}
		if b, ok := hi[linName(v.Lin)]; ok && b < v.Hi {
			c := v.clone()
			c.Hi = b
			if c.Lo > b {
				c.Lo = b
			}
			if len(c.Lin.T) == 1 && c.Lin.C == 0 && c.Lin.T[0].K == 1 && c.Lin.T[0].A.Hi > b {
				c.Lin.T[0].A.Hi = b
			}
			return c.reduce()
		}
		return v
	}
	var atomVal func(a *Atom) *Int
	var linVal func(l *Lin) *Int
	// x&m1 + x&m2 with disjoint constant masks is x&(m1|m2): digits picked apart and
	// summed again are put back together (applied to a value already rebuilt, so its
	// atoms belong to o's interner)
	mergeMasks := func(v *Int) *Int {
		for round := 0; round < 8; round++ {
			type grp struct {
				other *Lin
				mask  uint64
				n     int
			}
			groups := map[string]*grp{}
			member := map[*Atom]string{}
			for _, t := range v.Lin.T {
				if t.K != 1 || t.A.Op != "and" || len(t.A.Args) != 2 {
					continue
				}
				for i := 0; i < 2; i++ {
					if c, other := t.A.Args[i], t.A.Args[1-i]; c.IsConst() && !other.IsConst() {
						k := other.Key()
						g := groups[k]
						if g == nil {
							g = &grp{other: other}
							groups[k] = g
						}
						if g.mask&c.C != 0 {
							g.n = -1 << 20 // overlapping masks: leave this group alone
						}
						g.mask |= c.C
						g.n++
						member[t.A] = k
						break
					}
				}
			}
			var gkeys []string
			for k, g := range groups {
				if g.n >= 2 {
					gkeys = append(gkeys, k)
				}
			}
			if len(gkeys) == 0 {
				return v
			}
			sort.Strings(gkeys)
			w := v.W
			r := NewConst(w, v.Lin.C, false)
			for _, t := range v.Lin.T {
				if k, ok := member[t.A]; ok && groups[k].n >= 2 {
					continue
				}
				x := NewSym(t.A.W, t.A, false)
				if x.W != w {
					x = o.Convert(x, w, false, false)
				}
				if t.K != 1 {
					x = o.Mul(x, NewConst(w, t.K, false))
				}
				r = o.Add(r, x)
			}
			for _, k := range gkeys {
				g := groups[k]
				ov := linVal(g.other)
				if ov.W != w {
					ov = o.Convert(ov, w, false, false)
				}
				r = o.Add(r, o.And(ov, NewConst(w, g.mask, false)))
			}
			v = r
		}
		return v
	}
	linVal = func(l *Lin) *Int {
		r := NewConst(l.W, l.C, false)
		for _, t := range l.T {
			v := atomVal(t.A)
			if v.W != l.W {
				v = o.Convert(v, l.W, false, false)
			}
			if t.K != 1 {
				v = o.Mul(v, NewConst(l.W, t.K, false))
			}
			r = o.Add(r, v)
		}
		return bound(mergeMasks(r))
	}
	atomVal = func(a *Atom) *Int {
		if v, ok := memo[a]; ok {
			return v
		}
		var v *Int
		if c, ok := subst[a.Key]; ok {
			v = NewConst(a.W, c, false)
			memo[a] = v
			return v
		}
		switch {
		case a.IteT != nil:
			if side, ok := assign[a.IteCond]; ok {
				if side {
					v = linVal(a.IteT)
				} else {
					v = linVal(a.IteF)
				}
			} else {
				v = o.Gamma(a.IteCond, linVal(a.IteT), linVal(a.IteF))
			}
		case a.Op == "" || len(a.Args) == 0:
			v = NewSym(a.W, o.In.Atom(a.Key, a.W, a.Hi), false)
		default:
			args := make([]*Int, len(a.Args))
			for i, x := range a.Args {
				args[i] = linVal(x)
			}
			var n int
			switch {
			case a.Op == "and":
				v = o.And(args[0], args[1])
			case a.Op == "or":
				v = o.Or(args[0], args[1])
			case a.Op == "xor":
				v = o.Xor(args[0], args[1])
			case a.Op == "mul":
				v = o.Mul(args[0], args[1])
			case a.Op == "quo":
				v = o.Quo(args[0], args[1], false)
			case a.Op == "squo":
				v = o.Quo(args[0], args[1], true)
			case a.Op == "rem":
				v = o.Rem(args[0], args[1], false)
			case a.Op == "srem":
				v = o.Rem(args[0], args[1], true)
			case a.Op == "shl":
				v = o.Shl(args[0], args[1])
			case a.Op == "shr":
				v = o.Shr(args[0], args[1], false)
			case strings.HasPrefix(a.Op, "shr"):
				fmt.Sscanf(a.Op[3:], "%d", &n)
				v = o.Shr(args[0], NewConst(args[0].W, uint64(n), false), false)
			case strings.HasPrefix(a.Op, "sar"):
				fmt.Sscanf(a.Op[3:], "%d", &n)
				v = o.Shr(args[0], NewConst(args[0].W, uint64(n), false), true)
			case strings.HasPrefix(a.Op, "zext"):
				v = o.Convert(args[0], a.W, false, false)
			case strings.HasPrefix(a.Op, "sext"):
				v = o.Convert(args[0], a.W, true, false)
			default:
				v = NewSym(a.W, o.In.Atom(a.Key, a.W, a.Hi), false)
			}
		}
		if v.W != a.W {
			v = o.Convert(v, a.W, false, false)
		}
		v = bound(v)
		memo[a] = v
		return v
	}
	return linVal(l)
}

// Assign replaces the propositions in env by constants.
func (e *BExpr) Assign(env map[string]bool) *BExpr {
	switch e.Op {
	case "const":
		return e
	case "var":
		if v, ok := env[e.V]; ok {
			return BConst(v)
		}
		return e
	}
	a := make([]*BExpr, len(e.A))
	for i, x := range e.A {
		a[i] = x.Assign(env)
	}
	switch e.Op {
	case "not":
		return BNot(a[0])
	case "and":
		return BAnd(a[0], a[1])
	case "or":
		return BOr(a[0], a[1])
	case "xor":
		return BXor(a[0], a[1])
	case "ite":
		return BIte(a[0], a[1], a[2])
	}
	return &BExpr{Op: e.Op, A: a}
}

// BitAtoms lists the derived atoms of l (at any operand depth) whose value is 0 or 1.
func BitAtoms(l *Lin) []*Atom {
	var out []*Atom
	seen := map[*Atom]bool{}
	var walk func(l *Lin)
	walk = func(l *Lin) {
		for _, t := range l.T {
			a := t.A
			if seen[a] {
				continue
			}
			seen[a] = true
			if a.Hi <= 1 && a.Op != "" && a.IteT == nil {
				out = append(out, a)
			}
			for _, x := range a.Args {
				walk(x)
			}
			if a.IteT != nil {
				walk(a.IteT)
				walk(a.IteF)
			}
		}
	}
	walk(l)
	return out
}

// highPart recognises T & ^(2^n-1) (at T's width) and T >> n: both are determined by,
// and determine, the bits of T from n upwards.
func highPart(l *Lin) (n int, t *Lin, ok bool) {
	if len(l.T) != 1 || l.C != 0 || l.T[0].K != 1 {
		return 0, nil, false
	}
	a := l.T[0].A
	switch {
	case a.Op == "and" && len(a.Args) == 2:
		for i := 0; i < 2; i++ {
			m, other := a.Args[i], a.Args[1-i]
			if !m.IsConst() || other.IsConst() {
				continue
			}
			low := ^m.C & mask(other.W)
			if low != 0 && (low+1)&low == 0 && m.C&mask(other.W) == mask(other.W)&^low {
				return bits.Len64(low), other, true
			}
		}
	case strings.HasPrefix(a.Op, "shr") && len(a.Op) > 3 && len(a.Args) == 1:
		var k int
		fmt.Sscanf(a.Op[3:], "%d", &k)
		if k > 0 && k < a.Args[0].W {
			return k, a.Args[0], true
		}
	}
	return 0, nil, false
}

// LinName is the name a form has inside a proposition.
func LinName(l *Lin) string { return linName(l) }

// EvalConst evaluates the form l with the atoms named in subst replaced by constants, deciding the gated merges on
// the way from their own comparisons (conds maps condition keys to the comparisons noted by the interpreter). It
// reports false when something other than the substituted atoms is left.
func (o Ops) EvalConst(l *Lin, conds map[string]*Bool, subst map[string]uint64) (uint64, bool) {
	bc := &BoolCtx{Conds: conds, O: &o}
	assign := map[string]bool{}
	for round := 0; round < 16; round++ {
		r := o.RebuildSubst(l, assign, subst)
		if c, ok := r.IsConst(); ok {
			return c, true
		}
		open := map[string]bool{}
		IteConds(r.Lin, open)
		progress := false
		for k := range open {
			if _, done := assign[k]; done {
				continue
			}
			b := conds[k]
			if b == nil || b.Cmp == nil {
				continue
			}
			x, okx := b.Cmp.X.(*Int)
			y, oky := b.Cmp.Y.(*Int)
			if !okx || !oky {
				continue
			}
			xc, ok1 := o.EvalConst(x.Lin, conds, subst)
			yc, ok2 := o.EvalConst(y.Lin, conds, subst)
			if !ok1 || !ok2 {
				continue
			}
			e := bc.CmpExpr(&CmpInfo{Op: b.Cmp.Op, X: NewConst(x.W, xc, x.Signed), Y: NewConst(y.W, yc, y.Signed), Sgn: b.Cmp.Sgn})
			if e.Op == "const" {
				assign[k] = e.K
				progress = true
			}
		}
		if !progress {
			return 0, false
		}
	}
	return 0, false
}
