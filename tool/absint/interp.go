package absint

import (
	"fmt"
	"go/constant"
	"go/token"
	"go/types"
	"math/bits"
	"strconv"
	"strings"

	"golang.org/x/tools/go/ssa"
)

// State is the abstract machine state flowing along CFG edges.
type State struct {
	Heap   *Heap
	refine map[ssa.Value]Val // edge-local narrowing of SSA values (current activation only)
	// facts are branch outcomes established by calls that have returned: a callee that comes back only along
	// paths on which a test went one way (the others panic) leaves that outcome in force for what follows.
	// They speak about terms, not locations, so later stores do not invalidate them.
	facts []GuardInfo
}

// intersectFacts keeps the facts present with the same outcome on both sides.
func intersectFacts(a, b []GuardInfo) []GuardInfo {
	var out []GuardInfo
	for _, x := range a {
		for _, y := range b {
			if x.Key == y.Key && x.Outcome == y.Outcome {
				out = append(out, x)
				break
			}
		}
	}
	return out
}

// unionFacts appends the facts of b that a lacks.
func unionFacts(a, b []GuardInfo) []GuardInfo {
	out := append([]GuardInfo(nil), a...)
	for _, y := range b {
		dup := false
		for _, x := range out {
			if x.Key == y.Key {
				dup = true
				break
			}
		}
		if !dup {
			out = append(out, y)
		}
	}
	return out
}

func (s *State) fork() *State {
	n := &State{Heap: s.Heap.Fork(), facts: append([]GuardInfo(nil), s.facts...)}
	if len(s.refine) > 0 {
		n.refine = make(map[ssa.Value]Val, len(s.refine))
		for k, v := range s.refine {
			n.refine[k] = v
		}
	}
	return n
}

// Event is something a rule may want to look at: calls that leave the module,
// bus primitives, panics, builtin copies.
type Event struct {
	Seq    int    // position in the common sequence of events and stores
	Kind   string // "ext-call", "slot-call", "panic", "fatal", "copy", "append", "unknown-call", "map-update", "map-lookup"
	Callee string
	Method string
	Args   []Val
	Slot   *Slot
	Result Val
	Fn     *ssa.Function // innermost function containing the site
	Pos    token.Pos
	Stack  []string
	Instr  ssa.Instruction
	Guards map[string]bool // undecided branch outcomes holding at the event (copy and ext-call events)
	GuardL []GuardInfo
	PathL  []GuardInfo // undecided branch outcomes in force over the whole call stack
}

type StoreEvent struct {
	Seq    int // position in the common sequence of events and stores
	Key    string
	Obj    *Obj
	Path   []Sel
	V      Val
	Fn     *ssa.Function
	Pos    token.Pos
	GuardL []GuardInfo
}

// Hooks let a rule model what lies outside the interpreted code.
type Hooks struct {
	// SlotCall models a call through a dispatch-table slot (bus primitive). The
	// returned value is the call's result (nil = unknown of the result type).
	SlotCall func(ip *Interp, st *State, ev *Event) Val
	// ExtCall models a call to a function outside the module or without body.
	// handled=false falls back to the built-in models.
	ExtCall func(ip *Interp, st *State, ev *Event) (res Val, handled bool)
	// UnknownCall models a call through an unknown function value (user callback).
	UnknownCall func(ip *Interp, st *State, ev *Event) (res Val, handled bool)
	// SlotIsNil decides `slot == nil`.
	SlotIsNil func(s *Slot) Tri
	// DynStore may model a store through a dynamic index.
	DynStore func(ip *Interp, st *State, p *Ptr, t types.Type, v Val) bool
	// Branch is called for every conditional branch the domain could not decide.
	Branch func(ip *Interp, cond *Bool, instr *ssa.If)
	// Enter is called when an in-module function is entered (inlined).
	Enter func(ip *Interp, fn *ssa.Function, args []Val)
	// OverrideCall may replace the analysis of an in-module function.
	OverrideCall func(ip *Interp, st *State, fn *ssa.Function, args []Val) (res Val, handled bool)
}

type Interp struct {
	// ZeroGlobalPkgs: packages (by path) whose initialiser has been interpreted into the heap image in use
	ZeroGlobalPkgs map[string]bool
	seq            int
	In             *Interner
	Ops            Ops
	Hooks          Hooks
	EntryBound     func(name string, t types.Type) (uint64, bool)

	Events    []Event
	Stores    []StoreEvent
	Imprec    []string
	LiveBlock map[*ssa.BasicBlock]bool
	MaxDepth  int
	// TraceStores enables the Stores log (off by default: cost).
	TraceStores bool
	// LoopHavoc lets functions with loops be interpreted once per block with back
	// edges dropped: at a loop header the loop-carried phis and every heap cell
	// written inside the loop become unknown, so the body is analysed for an
	// arbitrary iteration. Run with CallFix until the set of written cells is stable.
	LoopHavoc   bool
	loopWritten map[*ssa.BasicBlock]map[string]bool
	// loop-invariant cells: a cell written in a loop whose value at every back edge is
	// the value it had on entry keeps that value at the header instead of becoming unknown
	loopPre    map[*ssa.BasicBlock]map[string]string // header -> cell -> key of the value on entry
	loopDiff   map[*ssa.BasicBlock]map[string]bool   // header -> cells seen with another value at a back edge
	loopStable map[*ssa.BasicBlock]map[string]bool   // header -> cells established as invariant
	phiPre     map[*ssa.Phi]string                   // loop-header phi -> key of the value entering the loop
	phiInit    map[*ssa.Phi]Val
	phiDiff    map[*ssa.Phi]bool
	phiStable  map[*ssa.Phi]bool
	phiSeen    map[*ssa.Phi]bool
	// InductionVars (opt-in, arbitrary-iteration mode): a loop-carried value that every
	// back edge advances by the same constant is init + step*T, T = the number of
	// completed iterations of its loop, instead of an unknown; counters of one loop then
	// stay related to each other.
	InductionVars bool
	phiStep       map[*ssa.Phi]uint64
	phiHdr        map[*ssa.Phi]Val
	phiDelta      map[*ssa.Phi][]string // "c:<const>" per back edge, or "?"
	loopChanged   bool
	curLoops      []*ssa.BasicBlock
	headerObjs    map[*ssa.BasicBlock]int // number of objects existing when the loop was entered
	// UnrollLoops lets functions with loops be interpreted along their single
	// feasible path, provided every branch inside is decided (counted loops with
	// constant bounds); an undecided branch makes the run imprecise.
	UnrollLoops  bool
	MaxPathSteps int
	// TraceReturns records every reachable return with the guards in force.
	TraceReturns bool
	// TraceDyn records loads and stores through non-constant indices as events
	// (and accepts such stores without modelling their effect).
	TraceDyn bool
	// TraceArith records possibly lossy narrowing conversions and possibly
	// overflowing multiplications/additions as events.
	TraceArith bool

	objs       []*Obj
	symObjs    map[string]*Obj
	locs       map[string]locInfo
	stack      []*ssa.Function
	acts       []*activation
	curPos     token.Pos
	fresh      int
	steps      int
	storeEpoch int
	gate       string // key of the branch condition controlling the merge being computed
	gateExact  bool   // the merge has exactly one live edge per side of that branch
	gateSwap   bool   // the first merged value comes from the false side
	curSt      *State // state of the instruction being interpreted (for event path guards)
	totalForks int    // path splits since the last Reset (unroll mode)
}

func New() *Interp {
	in := NewInterner()
	return &Interp{In: in, Ops: Ops{in}, symObjs: map[string]*Obj{}, locs: map[string]locInfo{}, LiveBlock: map[*ssa.BasicBlock]bool{}, MaxDepth: 12}
}

// Reset clears per-run logs and starts a new atom table (so that the numbering of
// merge atoms is deterministic per run); objects are kept.
func (ip *Interp) Reset() {
	ip.In = NewInterner()
	ip.Ops = Ops{ip.In}
	ip.gate = ""
	ip.curSt = nil
	ip.totalForks = 0
	ip.seq = 0
	ip.Events = ip.Events[:0]
	ip.Stores = ip.Stores[:0]
	ip.Imprec = nil
	ip.LiveBlock = map[*ssa.BasicBlock]bool{}
	ip.stack = ip.stack[:0]
	ip.acts = ip.acts[:0]
	ip.steps = 0
	ip.storeEpoch = 0
}

func (ip *Interp) Steps() int { return ip.steps }

func (ip *Interp) Imprecise(why string) {
	fn := ""
	if f := ip.curFn(); f != nil {
		fn = f.String() + ": "
	}
	ip.Imprec = append(ip.Imprec, fn+why)
}

// havocObj forgets everything known about the contents of o (after a write that
// is not modelled cell by cell).
func (ip *Interp) havocObj(st *State, o *Obj) {
	prefix := strconv.Itoa(o.ID)
	for k := range st.Heap.local {
		if strings.HasPrefix(k, prefix) && (len(k) == len(prefix) || k[len(prefix)] == '.' || k[len(prefix)] == '[') {
			delete(st.Heap.local, k)
		}
	}
	ip.fresh++
	o.Kind = ObjSym
	o.Name = fmt.Sprintf("%s~w%d", strings.SplitN(o.Name, "~w", 2)[0], ip.fresh)
}

// havocVal is an unknown value of type t with an identity.
func (ip *Interp) havocVal(name string, t types.Type) Val {
	switch t.Underlying().(type) {
	case *types.Struct, *types.Array:
		return ip.topOf(t, name)
	}
	return ip.entry(name, t)
}

func (ip *Interp) CurFn() *ssa.Function { return ip.curFn() }

// GuardInfo is one undecided branch outcome known to hold at a program point.
type GuardInfo struct {
	Key     string
	Outcome bool
	Cmp     *CmpInfo // the comparison (after removing negations Outcome refers to Cmp itself)
}

// GuardList is Guards with the comparisons' operands.
func (ip *Interp) GuardList(st *State) []GuardInfo {
	out := []GuardInfo{} // never nil: an event that records its guards gets the path-wide list even when none is local
	if len(ip.acts) == 0 || st == nil {
		return out
	}
	act := ip.acts[len(ip.acts)-1]
	for k, v := range st.refine {
		b, ok := v.(*Bool)
		if !ok || b.K == TriTop {
			continue
		}
		if ev, ok := act.env[k].(*Bool); ok && ev.K == TriTop {
			if len(ev.Conj) > 0 {
				// a conjunction that holds: every member holds (one that fails says nothing
				// about a single member)
				if (b.K == TriT) != ev.Neg {
					for _, c := range ev.Conj {
						key, neg := GateOf(c)
						out = append(out, GuardInfo{Key: key, Outcome: !neg, Cmp: c.Cmp})
					}
				}
				continue
			}
			key, neg := GateOf(ev)
			out = append(out, GuardInfo{Key: key, Outcome: (b.K == TriT) != neg, Cmp: ev.Cmp})
		}
	}
	for _, f := range st.facts {
		dup := false
		for _, g := range out {
			if g.Key == f.Key {
				dup = true
			}
		}
		if !dup {
			out = append(out, f)
		}
	}
	return out
}

// GateOf names the un-negated condition behind an undecided boolean: the key of its
// comparison (or entry symbol) and whether the boolean is the negation of it.
func GateOf(b *Bool) (string, bool) {
	u := *b
	u.Neg = false
	return ValKey(&u), b.Neg
}

// decideByGuards decides a comparison the intervals leave open when the branch
// outcomes already in force on this path settle it: both are reduced to canonical
// propositions (so `v != 0` taken earlier decides a later `v == 1` for a 0/1 value,
// whichever variable or cell the value is read from).
func (ip *Interp) decideByGuards(st *State, cb *Bool) Tri {
	if cb.Cmp == nil || st == nil {
		return TriTop
	}
	gl := ip.PathGuardList(st)
	if len(gl) == 0 {
		return TriTop
	}
	bc := &BoolCtx{Conds: ip.In.Conds}
	e := bc.CmpExpr(cb.Cmp)
	vars := map[string]bool{}
	e.CollectVars(vars)
	if len(vars) == 0 || len(vars) > 4 {
		return TriTop
	}
	env := map[string]bool{}
	for _, g := range gl {
		if g.Cmp == nil {
			continue
		}
		ge := bc.CmpExpr(g.Cmp)
		val := g.Outcome
		for ge.Op == "not" {
			ge, val = ge.A[0], !val
		}
		if ge.Op == "var" && vars[ge.V] {
			env[ge.V] = val
		}
	}
	if len(env) == 0 {
		return TriTop
	}
	r := e.Assign(env)
	rest := map[string]bool{}
	r.CollectVars(rest)
	if len(rest) > 0 {
		return TriTop
	}
	out := r.Eval(nil) != cb.Neg
	if out {
		return TriT
	}
	return TriF
}

// PathGuards returns the undecided branch conditions (key -> outcome) in force at
// the current point over the whole call stack: those of the innermost activation and
// those that held at each enclosing call site.
func (ip *Interp) PathGuards(st *State) map[string]bool {
	g := ip.Guards(st)
	if len(ip.acts) > 0 {
		for k, v := range ip.acts[len(ip.acts)-1].outer {
			if _, ok := g[k]; !ok {
				g[k] = v
			}
		}
	}
	return g
}

// PathGuardList is PathGuards with the comparisons' operands.
func (ip *Interp) PathGuardList(st *State) []GuardInfo {
	out := ip.GuardList(st)
	if len(ip.acts) > 0 {
		seen := map[string]bool{}
		for _, g := range out {
			seen[g.Key] = true
		}
		for _, g := range ip.acts[len(ip.acts)-1].outerL {
			if !seen[g.Key] {
				seen[g.Key] = true
				out = append(out, g)
			}
		}
	}
	return out
}

// GuardListOf returns the guards recorded with an event.
func (ip *Interp) GuardListOf(ev Event) []GuardInfo { return ev.GuardL }

// Guards returns the undecided branch conditions (key -> outcome) known to hold at
// the current point of the innermost activation.
func (ip *Interp) Guards(st *State) map[string]bool {
	g := map[string]bool{}
	if len(ip.acts) == 0 || st == nil {
		return g
	}
	act := ip.acts[len(ip.acts)-1]
	for k, v := range st.refine {
		b, ok := v.(*Bool)
		if !ok || b.K == TriTop {
			continue
		}
		if ev, ok := act.env[k].(*Bool); ok && ev.K == TriTop {
			if len(ev.Conj) > 0 {
				if (b.K == TriT) != ev.Neg {
					for _, c := range ev.Conj {
						key, neg := GateOf(c)
						g[key] = !neg
					}
				}
				continue
			}
			key, neg := GateOf(ev)
			g[key] = (b.K == TriT) != neg
		}
	}
	for _, f := range st.facts {
		if _, ok := g[f.Key]; !ok {
			g[f.Key] = f.Outcome
		}
	}
	return g
}
func (ip *Interp) CurPos() token.Pos { return ip.curPos }

// StackFuncs returns the functions being interpreted, outermost first.
func (ip *Interp) StackFuncs() []*ssa.Function { return append([]*ssa.Function(nil), ip.stack...) }

func (ip *Interp) curFn() *ssa.Function {
	if len(ip.stack) == 0 {
		return nil
	}
	return ip.stack[len(ip.stack)-1]
}

func (ip *Interp) stackNames() []string {
	var s []string
	for _, f := range ip.stack {
		s = append(s, f.String())
	}
	return s
}

func (ip *Interp) event(e Event) *Event {
	e.Fn = ip.curFn()
	if e.Pos == token.NoPos {
		e.Pos = ip.curPos
	}
	e.Stack = ip.stackNames()
	ip.seq++
	e.Seq = ip.seq
	if e.PathL == nil && ip.curSt != nil {
		e.PathL = ip.PathGuardList(ip.curSt)
	}
	if e.GuardL != nil && e.PathL != nil {
		// guards are reported over the whole call stack: a store in a helper is under the
		// tests its callers made before calling it
		e.GuardL = e.PathL
	}
	ip.Events = append(ip.Events, e)
	return &ip.Events[len(ip.Events)-1]
}

// ---------------------------------------------------------------------------

type activation struct {
	fn  *ssa.Function
	env map[ssa.Value]Val
	// loads remembers, for values produced by a load, the heap cell they came from
	loads map[ssa.Value]loadOrigin
	// outer: branch outcomes in force at the call site (over all enclosing activations)
	outer  map[string]bool
	outerL []GuardInfo
}

type loadOrigin struct {
	key string
	v   Val
}

type edgeIn struct {
	pred *ssa.BasicBlock
	st   *State
}

// topoOrder returns the blocks reachable from entry in a topological order, or
// ok=false if the CFG has a cycle.
func topoOrder(fn *ssa.Function) (order []*ssa.BasicBlock, ok bool) {
	state := map[*ssa.BasicBlock]int{}
	ok = true
	var visit func(b *ssa.BasicBlock)
	visit = func(b *ssa.BasicBlock) {
		state[b] = 1
		for _, s := range b.Succs {
			switch state[s] {
			case 0:
				visit(s)
			case 1:
				ok = false
			}
		}
		state[b] = 2
		order = append(order, b)
	}
	visit(fn.Blocks[0])
	for i, j := 0, len(order)-1; i < j; i, j = i+1, j-1 {
		order[i], order[j] = order[j], order[i]
	}
	return
}

// topoOrderCut orders the blocks ignoring back edges (edges to a dominator) and
// returns the loop headers with their natural loop bodies.
func topoOrderCut(fn *ssa.Function) (order []*ssa.BasicBlock, loops map[*ssa.BasicBlock]map[*ssa.BasicBlock]bool) {
	loops = map[*ssa.BasicBlock]map[*ssa.BasicBlock]bool{}
	for _, b := range fn.Blocks {
		for _, s := range b.Succs {
			if s.Dominates(b) {
				body := loops[s]
				if body == nil {
					body = map[*ssa.BasicBlock]bool{s: true}
					loops[s] = body
				}
				stack := []*ssa.BasicBlock{b}
				for len(stack) > 0 {
					n := stack[len(stack)-1]
					stack = stack[:len(stack)-1]
					if body[n] {
						continue
					}
					body[n] = true
					stack = append(stack, n.Preds...)
				}
			}
		}
	}
	state := map[*ssa.BasicBlock]int{}
	var visit func(b *ssa.BasicBlock)
	visit = func(b *ssa.BasicBlock) {
		state[b] = 1
		for _, s := range b.Succs {
			if s.Dominates(b) {
				continue
			}
			if state[s] == 0 {
				visit(s)
			}
		}
		state[b] = 2
		order = append(order, b)
	}
	visit(fn.Blocks[0])
	for i, j := 0, len(order)-1; i < j; i, j = i+1, j-1 {
		order[i], order[j] = order[j], order[i]
	}
	return
}

// CallFix runs Call in LoopHavoc mode until the set of cells written inside loops is
// stable, and returns the results of the last run.
func (ip *Interp) CallFix(fn *ssa.Function, mkArgs func() ([]Val, *State)) (Val, *State) {
	ip.LoopHavoc = true
	ip.loopWritten = map[*ssa.BasicBlock]map[string]bool{}
	ip.headerObjs = map[*ssa.BasicBlock]int{}
	baseObjs := len(ip.objs)
	baseSyms := map[string]*Obj{}
	for k, v := range ip.symObjs {
		baseSyms[k] = v
	}
	ip.loopStable = map[*ssa.BasicBlock]map[string]bool{}
	for i := 0; i < 12; i++ {
		ip.Reset()
		ip.loopPre = map[*ssa.BasicBlock]map[string]string{}
		ip.loopDiff = map[*ssa.BasicBlock]map[string]bool{}
		ip.phiPre, ip.phiDiff, ip.phiSeen = map[*ssa.Phi]string{}, map[*ssa.Phi]bool{}, map[*ssa.Phi]bool{}
		ip.phiHdr, ip.phiDelta = map[*ssa.Phi]Val{}, map[*ssa.Phi][]string{}
		if ip.phiStep == nil || i == 0 {
			ip.phiStep = map[*ssa.Phi]uint64{}
		}
		if ip.phiStable == nil || i == 0 {
			ip.phiStable = map[*ssa.Phi]bool{}
		}
		// identical allocation numbering in every iteration, so that cell keys are comparable
		ip.objs = ip.objs[:baseObjs]
		ip.symObjs = map[string]*Obj{}
		for k, v := range baseSyms {
			ip.symObjs[k] = v
		}
		ip.fresh = 0
		ip.loopChanged = false
		args, st := mkArgs()
		res, out := ip.Call(fn, args, nil, st)
		// cells that came back unchanged at every back edge are invariant; a cell once
		// found invariant is dropped again if a later round (run under that assumption)
		// sees it change
		for h, w := range ip.loopWritten {
			for k := range w {
				_, entered := ip.loopPre[h]
				was := ip.loopStable[h][k]
				now := entered && !ip.loopDiff[h][k]
				if now != was {
					if ip.loopStable[h] == nil {
						ip.loopStable[h] = map[string]bool{}
					}
					if now && !ip.loopChanged {
						// only adopt new invariants once the written set is stable
						ip.loopStable[h][k] = true
						ip.loopChanged = true
					} else if !now {
						delete(ip.loopStable[h], k)
						ip.loopChanged = true
					}
				}
			}
		}
		for phi := range ip.phiSeen {
			now := !ip.phiDiff[phi]
			if now != ip.phiStable[phi] {
				if now && !ip.loopChanged {
					ip.phiStable[phi] = true
					ip.loopChanged = true
				} else if !now {
					delete(ip.phiStable, phi)
					ip.loopChanged = true
				}
			}
		}
		if ip.InductionVars {
			for phi, ds := range ip.phiDelta {
				step, affine := uint64(0), len(ds) > 0
				for i, d := range ds {
					var c uint64
					if _, err := fmt.Sscanf(d, "c:%d", &c); err != nil || (i > 0 && c != step) {
						affine = false
						break
					}
					step = c
				}
				old, had := ip.phiStep[phi]
				switch {
				case affine && step != 0 && (!had || old != step):
					if !ip.loopChanged {
						ip.phiStep[phi] = step
						ip.loopChanged = true
					}
				case (!affine || step == 0) && had:
					delete(ip.phiStep, phi)
					ip.loopChanged = true
				}
			}
		}
		if !ip.loopChanged {
			ip.loopPre, ip.phiPre, ip.phiHdr, ip.phiDelta = nil, nil, nil, nil
			return res, out
		}
	}
	ip.loopPre, ip.phiPre, ip.phiHdr, ip.phiDelta = nil, nil, nil, nil
	ip.Imprecise("loop-written cells did not stabilise in " + fn.String())
	return nil, nil
}

// noteLatch compares, at a back edge, the loop-written cells with their values from
// before the loop.
func (ip *Interp) noteLatch(act *activation, header, from *ssa.BasicBlock, s *State) {
	if ip.loopPre == nil {
		return
	}
	// loop-carried SSA values: the value arriving over this back edge against the one
	// that entered the loop
	if idx := predIndex(header, from); idx >= 0 {
		for _, instr := range header.Instrs {
			phi, ok := instr.(*ssa.Phi)
			if !ok {
				break
			}
			pk, had := ip.phiPre[phi]
			lv := ip.get(act, s, phi.Edges[idx])
			if !had || ValKey(lv) != pk {
				ip.phiDiff[phi] = true
			}
			if ip.phiDelta != nil {
				d := "?"
				if hv, ok := ip.phiHdr[phi].(*Int); ok {
					if li, ok := lv.(*Int); ok && li.W == hv.W {
						if c, isC := ip.Ops.Sub(li, hv).IsConst(); isC {
							d = fmt.Sprintf("c:%d", c)
						}
					}
				}
				ip.phiDelta[phi] = append(ip.phiDelta[phi], d)
			}
		}
	}
	pre := ip.loopPre[header]
	d := ip.loopDiff[header]
	if d == nil {
		d = map[string]bool{}
		ip.loopDiff[header] = d
	}
	for k := range ip.loopWritten[header] {
		v, ok := s.Heap.get(k)
		pk, had := pre[k]
		if !ok || !had || ValKey(v) != pk || strings.Contains(pk, "loopcell:") {
			d[k] = true
		}
	}
}

// IsAcyclic reports whether fn can be interpreted by this engine.
func IsAcyclic(fn *ssa.Function) bool {
	if fn == nil || len(fn.Blocks) == 0 {
		return false
	}
	_, ok := topoOrder(fn)
	return ok
}

// Call interprets fn on args in state st. It returns the (joined) result and the
// state at return, or out == nil if no return is reachable (every path panics).
func (ip *Interp) Call(fn *ssa.Function, args []Val, bind []Val, st *State) (res Val, out *State) {
	if len(fn.Blocks) == 0 {
		ip.Imprecise("call of body-less function " + fn.String())
		return ip.topOf(fn.Signature.Results(), "nobody"), st
	}
	if len(ip.stack) >= ip.MaxDepth {
		ip.Imprecise("inlining depth exceeded at " + fn.String())
		return ip.topOf(fn.Signature.Results(), "depth"), st
	}
	for _, f := range ip.stack {
		if f == fn {
			ip.Imprecise("recursion through " + fn.String())
			return ip.topOf(fn.Signature.Results(), "recursion"), st
		}
	}
	order, ok := topoOrder(fn)
	var loopBodies map[*ssa.BasicBlock]map[*ssa.BasicBlock]bool
	if !ok && ip.LoopHavoc {
		order, loopBodies = topoOrderCut(fn)
		ok = true
	}
	outerLoops := ip.curLoops
	if !ok {
		if ip.UnrollLoops {
			return ip.callPath(fn, args, bind, st)
		}
		ip.Imprecise("loop in " + fn.String())
		return ip.topOf(fn.Signature.Results(), "loop"), st
	}
	if ip.Hooks.Enter != nil {
		ip.Hooks.Enter(ip, fn, args)
	}
	ip.stack = append(ip.stack, fn)
	savedPos := ip.curPos
	act := &activation{fn: fn, env: map[ssa.Value]Val{}, loads: map[ssa.Value]loadOrigin{}}
	// the branch outcomes in force at the call site stay in force in the callee
	act.outer = ip.PathGuards(st)
	act.outerL = ip.PathGuardList(st)
	ip.acts = append(ip.acts, act)
	defer func() {
		ip.stack = ip.stack[:len(ip.stack)-1]
		ip.acts = ip.acts[:len(ip.acts)-1]
		ip.curPos = savedPos
		ip.curLoops = outerLoops
	}()

	for i, p := range fn.Params {
		if i < len(args) {
			act.env[p] = args[i]
		} else {
			act.env[p] = ip.topOf(p.Type(), "missing-arg")
		}
	}
	for i, fv := range fn.FreeVars {
		if i < len(bind) {
			act.env[fv] = bind[i]
		} else {
			act.env[fv] = ip.topOf(fv.Type(), "missing-binding")
		}
	}
	// the callee must not see the caller's refinements (different SSA values)
	entry := &State{Heap: st.Heap}
	ins := map[*ssa.BasicBlock][]edgeIn{fn.Blocks[0]: {{nil, entry}}}
	var retVals []Val
	var retStates []*State
	var retBlocks []*ssa.BasicBlock

	for _, b := range order {
		in := ins[b]
		if len(in) == 0 {
			continue // dead block
		}
		ip.LiveBlock[b] = true
		ip.gate, ip.gateExact, ip.gateSwap = "", false, false
		if loopBodies != nil {
			ip.curLoops = append([]*ssa.BasicBlock(nil), outerLoops...)
			for h, body := range loopBodies {
				if body[b] {
					ip.curLoops = append(ip.curLoops, h)
				}
			}
		}
		var tree *mnode
		if len(in) > 1 {
			idxs := make([]int, len(in))
			for i := range in {
				idxs[i] = i
			}
			tree = ip.buildMerge(act, ins, b, in, idxs)
		}
		cur := in[0].st
		if tree != nil {
			cur = ip.foldState(tree, in)
		}
		// phis, evaluated against the per-edge states and folded along the same tree
		for _, instr := range b.Instrs {
			phi, ok := instr.(*ssa.Phi)
			if !ok {
				break
			}
			if tree == nil {
				if idx := predIndex(b, in[0].pred); idx >= 0 {
					act.env[phi] = ip.get(act, in[0].st, phi.Edges[idx])
				}
				continue
			}
			act.env[phi] = ip.foldVal(tree, func(e int) Val {
				idx := predIndex(b, in[e].pred)
				if idx < 0 {
					return ip.topOf(phi.Type(), "phi-edge")
				}
				return ip.get(act, in[e].st, phi.Edges[idx])
			})
		}
		ip.gate, ip.gateExact, ip.gateSwap = "", false, false
		if loopBodies != nil && loopBodies[b] != nil {
			// loop header: forget loop-carried values and cells written in the loop
			if cur == in[0].st {
				cur = cur.fork()
			}
			if ip.headerObjs != nil {
				ip.headerObjs[b] = len(ip.objs)
			}
			for _, instr := range b.Instrs {
				phi, ok := instr.(*ssa.Phi)
				if !ok {
					break
				}
				ip.fresh++
				if ip.phiPre != nil {
					// the value entering the loop (merged over the forward edges above)
					if init, ok := act.env[phi]; ok && init != nil {
						ip.phiPre[phi] = ValKey(init)
						ip.phiSeen[phi] = true
						if ip.phiStable[phi] {
							continue // invariant: keeps the value it entered with
						}
					}
				}
				init, _ := act.env[phi].(*Int)
				if step, ok := ip.phiStep[phi]; ok && ip.InductionVars && init != nil {
					t := NewSym(64, ip.In.Atom(fmt.Sprintf("iter:%s.%d", fn.Name(), b.Index), 64, 1<<40), false)
					tw := ip.Ops.Convert(t, init.W, false, init.Signed)
					v := ip.Ops.Add(init, ip.Ops.Mul(tw, NewConst(init.W, step, init.Signed)))
					v.Signed = init.Signed
					act.env[phi] = v
				} else {
					act.env[phi] = ip.havocVal(fmt.Sprintf("loopvar:%s.%s.%s", fn.Name(), phi.Name(), phi.Comment), phi.Type())
				}
				if ip.phiHdr != nil {
					ip.phiHdr[phi] = act.env[phi]
				}
			}
			if ip.loopPre != nil {
				pre := map[string]string{}
				for k := range ip.loopWritten[b] {
					if v, ok := cur.Heap.get(k); ok {
						pre[k] = ValKey(v)
					}
				}
				ip.loopPre[b] = pre
			}
			for k := range ip.loopWritten[b] {
				if ip.loopStable[b][k] {
					continue // invariant: keeps its value from before the loop
				}
				if li, ok := ip.locs[k]; ok {
					cur.Heap.set(k, ip.havocVal("loopcell:"+li.obj.Name+PathKey(li.path), li.t))
				}
			}
		}
		live := true
		for _, instr := range b.Instrs {
			if _, ok := instr.(*ssa.Phi); ok {
				continue
			}
			ip.steps++
			ip.curSt = cur
			if p := instr.Pos(); p.IsValid() {
				ip.curPos = p
			}
			switch t := instr.(type) {
			case *ssa.If:
				c := ip.get(act, cur, t.Cond)
				cb, _ := c.(*Bool)
				k := TriTop
				if cb != nil {
					k = cb.K
				}
				if k == TriTop && cb != nil {
					k = ip.decideByGuards(cur, cb)
				}
				if k == TriTop && ip.Hooks.Branch != nil && cb != nil {
					ip.Hooks.Branch(ip, cb, t)
				}
				if k != TriF {
					s := cur
					if k == TriTop {
						s = cur.fork()
						ip.refineEdge(act, s, t.Cond, cb, true)
					}
					if !(loopBodies != nil && b.Succs[0].Dominates(b)) {
						ins[b.Succs[0]] = append(ins[b.Succs[0]], edgeIn{b, s})
					} else {
						ip.noteLatch(act, b.Succs[0], b, s)
					}
				}
				if k != TriT {
					s := cur
					if k == TriTop {
						s = cur.fork()
						ip.refineEdge(act, s, t.Cond, cb, false)
					}
					if !(loopBodies != nil && b.Succs[1].Dominates(b)) {
						ins[b.Succs[1]] = append(ins[b.Succs[1]], edgeIn{b, s})
					} else {
						ip.noteLatch(act, b.Succs[1], b, s)
					}
				}
				live = false
			case *ssa.Jump:
				if !(loopBodies != nil && b.Succs[0].Dominates(b)) {
					ins[b.Succs[0]] = append(ins[b.Succs[0]], edgeIn{b, cur})
				} else {
					ip.noteLatch(act, b.Succs[0], b, cur)
				}
				live = false
			case *ssa.Return:
				var rv Val
				switch len(t.Results) {
				case 0:
				case 1:
					rv = ip.get(act, cur, t.Results[0])
				default:
					tp := &Tuple{}
					for _, r := range t.Results {
						tp.E = append(tp.E, ip.get(act, cur, r))
					}
					rv = tp
				}
				if ip.TraceReturns {
					ip.event(Event{Kind: "return", Args: []Val{rv}, Instr: t, GuardL: ip.GuardList(cur), Guards: ip.Guards(cur)})
				}
				retVals = append(retVals, rv)
				retStates = append(retStates, &State{Heap: cur.Heap, facts: ip.GuardList(cur)})
				retBlocks = append(retBlocks, b)
				live = false
			case *ssa.Panic:
				ip.event(Event{Kind: "panic", Args: []Val{ip.get(act, cur, t.X)}, Instr: t})
				live = false
			default:
				if !ip.step(act, cur, instr) {
					live = false // call that never returns
				}
			}
			if !live {
				break
			}
		}
	}
	if len(retStates) == 0 {
		return nil, nil
	}
	res = retVals[0]
	outS := retStates[0]
	if len(retStates) > 1 {
		// merge the returns like the predecessors of a virtual exit block
		in := make([]edgeIn, len(retStates))
		idxs := make([]int, len(retStates))
		for i := range retStates {
			in[i] = edgeIn{pred: retBlocks[i], st: retStates[i]}
			idxs[i] = i
		}
		tree := ip.buildMerge(act, ins, nil, in, idxs)
		outS = ip.foldState(tree, in)
		if res != nil {
			res = ip.foldVal(tree, func(e int) Val { return retVals[e] })
		}
		ip.gate, ip.gateExact, ip.gateSwap = "", false, false
		// an opaque merged result gets an identity: the caller can test it against nil, forward it, and a rule
		// can tell that a value is "what that call returned"
		if t, ok := res.(*Top); ok && t.Key == "" && t.NilIf == nil && !t.NonNil && t.T != nil {
			ip.fresh++
			res = &Top{T: t.T, Key: fmt.Sprintf("ret#%d:%s", ip.fresh, fn.Name())}
		}
	}
	return res, &State{Heap: outS.Heap, refine: st.refine, facts: unionFacts(st.facts, outS.facts)}
}

// callPath interprets a function containing loops along its unique feasible path.
func (ip *Interp) callPath(fn *ssa.Function, args []Val, bind []Val, st *State) (Val, *State) {
	if ip.Hooks.Enter != nil {
		ip.Hooks.Enter(ip, fn, args)
	}
	ip.stack = append(ip.stack, fn)
	savedPos := ip.curPos
	act := &activation{fn: fn, env: map[ssa.Value]Val{}, loads: map[ssa.Value]loadOrigin{}}
	// the branch outcomes in force at the call site stay in force in the callee
	act.outer = ip.PathGuards(st)
	act.outerL = ip.PathGuardList(st)
	ip.acts = append(ip.acts, act)
	defer func() {
		ip.stack = ip.stack[:len(ip.stack)-1]
		ip.acts = ip.acts[:len(ip.acts)-1]
		ip.curPos = savedPos
	}()
	for i, p := range fn.Params {
		if i < len(args) {
			act.env[p] = args[i]
		} else {
			act.env[p] = ip.topOf(p.Type(), "missing-arg")
		}
	}
	for i, fv := range fn.FreeVars {
		if i < len(bind) {
			act.env[fv] = bind[i]
		}
	}
	cur := &State{Heap: st.Heap}
	forks := 0
	return ip.runPath(fn, act, st, nil, fn.Blocks[0], cur, &forks)
}

// runPath follows one path of fn from block b (entered from prev) to a return. A branch
// the abstract state does not decide splits the path: both continuations are followed
// to their ends (each with its own copy of the SSA environment) and their results and
// heaps are merged under that branch's condition, which is exact because each side is
// a complete execution. The number of splits per call is bounded.
func (ip *Interp) runPath(fn *ssa.Function, act *activation, st *State, prev, b *ssa.BasicBlock, cur *State, forks *int) (Val, *State) {
	limit := ip.MaxPathSteps
	if limit == 0 {
		limit = 2_000_000
	}
	for {
		ip.LiveBlock[b] = true
		// phis take the value of the edge we came along (evaluated simultaneously)
		var phiVals []Val
		var phis []*ssa.Phi
		for _, instr := range b.Instrs {
			phi, ok := instr.(*ssa.Phi)
			if !ok {
				break
			}
			idx := predIndex(b, prev)
			if idx < 0 {
				ip.Imprecise("phi without predecessor in " + fn.String())
				return ip.topOf(fn.Signature.Results(), "loop"), st
			}
			phis = append(phis, phi)
			phiVals = append(phiVals, ip.get(act, cur, phi.Edges[idx]))
		}
		for i, phi := range phis {
			act.env[phi] = phiVals[i]
			if cur.refine != nil {
				delete(cur.refine, phi) // a refinement made in an earlier iteration is about the old value
			}
		}
		var next *ssa.BasicBlock
		for _, instr := range b.Instrs {
			if _, ok := instr.(*ssa.Phi); ok {
				continue
			}
			ip.steps++
			ip.curSt = cur
			if ip.steps > limit {
				ip.Imprecise("path step limit exceeded in " + fn.String())
				return ip.topOf(fn.Signature.Results(), "loop"), st
			}
			// a value computed again in a later iteration is a new value: what a branch of
			// an earlier iteration established about the old one no longer applies
			if v, ok := instr.(ssa.Value); ok && cur.refine != nil {
				delete(cur.refine, v)
				delete(act.loads, v)
			}
			if p := instr.Pos(); p.IsValid() {
				ip.curPos = p
			}
			switch t := instr.(type) {
			case *ssa.If:
				cb, _ := ip.get(act, cur, t.Cond).(*Bool)
				if cb != nil && cb.K == TriTop {
					if k := ip.decideByGuards(cur, cb); k != TriTop {
						c2 := *cb
						c2.K = k
						cb = &c2
					}
				}
				switch {
				case cb != nil && cb.K == TriT:
					next = b.Succs[0]
				case cb != nil && cb.K == TriF:
					next = b.Succs[1]
				case cb != nil && (cb.Cmp != nil || cb.Key != "" || len(cb.Conj) > 0) && *forks < 64 && ip.totalForks < 4096:
					*forks++
					ip.totalForks++
					if ip.Hooks.Branch != nil {
						ip.Hooks.Branch(ip, cb, t)
					}
					key, neg := GateOf(cb)
					ip.In.NoteCond(key, cb)
					envT, loadsT := cloneEnv(act.env), cloneLoads(act.loads)
					envF, loadsF := cloneEnv(act.env), cloneLoads(act.loads)
					sT := cur.fork()
					ip.refineEdge(act, sT, t.Cond, cb, true)
					act.env, act.loads = envT, loadsT
					rT, oT := ip.runPath(fn, act, st, b, b.Succs[0], sT, forks)
					sF := cur.fork()
					act.env, act.loads = envF, loadsF
					ip.refineEdge(act, sF, t.Cond, cb, false)
					rF, oF := ip.runPath(fn, act, st, b, b.Succs[1], sF, forks)
					switch {
					case oT == nil:
						return rF, oF
					case oF == nil:
						return rT, oT
					}
					ip.gate, ip.gateExact, ip.gateSwap = key, true, neg
					var res Val
					if rT != nil || rF != nil {
						res = ip.JoinVal(rT, rF)
					}
					h := ip.joinHeaps(oT.Heap, oF.Heap)
					ip.gate, ip.gateExact, ip.gateSwap = "", false, false
					return res, &State{Heap: h, refine: st.refine, facts: intersectFacts(oT.facts, oF.facts)}
				default:
					ip.Imprecise("undecided branch inside a loop of " + fn.String())
					return ip.topOf(fn.Signature.Results(), "loop"), st
				}
			case *ssa.Jump:
				next = b.Succs[0]
			case *ssa.Return:
				var rv Val
				switch len(t.Results) {
				case 0:
				case 1:
					rv = ip.get(act, cur, t.Results[0])
				default:
					tp := &Tuple{}
					for _, r := range t.Results {
						tp.E = append(tp.E, ip.get(act, cur, r))
					}
					rv = tp
				}
				if ip.TraceReturns {
					ip.event(Event{Kind: "return", Args: []Val{rv}, Instr: t, GuardL: ip.GuardList(cur), Guards: ip.Guards(cur)})
				}
				return rv, &State{Heap: cur.Heap, refine: st.refine, facts: unionFacts(st.facts, ip.GuardList(cur))}
			case *ssa.Panic:
				ip.event(Event{Kind: "panic", Args: []Val{ip.get(act, cur, t.X)}, Instr: t})
				return nil, nil
			default:
				if !ip.step(act, cur, instr) {
					return nil, nil
				}
			}
			if next != nil {
				break
			}
		}
		if next == nil {
			ip.Imprecise("block without terminator in " + fn.String())
			return ip.topOf(fn.Signature.Results(), "loop"), st
		}
		prev, b = b, next
	}
}

func cloneEnv(m map[ssa.Value]Val) map[ssa.Value]Val {
	c := make(map[ssa.Value]Val, len(m))
	for k, v := range m {
		c[k] = v
	}
	return c
}

func cloneLoads(m map[ssa.Value]loadOrigin) map[ssa.Value]loadOrigin {
	c := make(map[ssa.Value]loadOrigin, len(m))
	for k, v := range m {
		c[k] = v
	}
	return c
}

func predIndex(b, pred *ssa.BasicBlock) int {
	for i, p := range b.Preds {
		if p == pred {
			return i
		}
	}
	return -1
}

// mnode is a node of the merge tree of a join block: a leaf is one live incoming
// edge; an inner node merges the edges on the true side and on the false side of
// the branch `gate` (exact), or two arbitrary groups (inexact).
type mnode struct {
	edge  int
	gate  string
	exact bool
	t, f  *mnode
}

// chainStep is one undecided branch on the way from the merge's common dominator
// to an incoming edge: the edge is taken only if `gate` has the outcome `side`.
type chainStep struct {
	gate string
	side bool
}

// edgeChain returns the exact path condition of the incoming edge pred -> b relative
// to lca, as the conjunction of branch outcomes, provided every block between lca and
// pred has a single live incoming edge (so the conjunction is also necessary). ok is
// false when some block on the way is itself a join or a branch condition has no key.
func (ip *Interp) edgeChain(act *activation, ins map[*ssa.BasicBlock][]edgeIn, lca, b, pred *ssa.BasicBlock) ([]chainStep, bool) {
	var rev []chainStep
	child, cur := b, pred
	for n := 0; ; n++ {
		if n > 100000 || cur == nil {
			return nil, false
		}
		if len(cur.Instrs) > 0 {
			if iff, isIf := cur.Instrs[len(cur.Instrs)-1].(*ssa.If); isIf && cur.Succs[0] != cur.Succs[1] {
				cb, isB := act.env[iff.Cond].(*Bool)
				if !isB {
					return nil, false
				}
				if cb.K == TriTop {
					if cb.Cmp == nil && cb.Key == "" && len(cb.Conj) == 0 {
						return nil, false
					}
					key, neg := GateOf(cb)
					ip.In.NoteCond(key, cb)
					rev = append(rev, chainStep{key, (child == cur.Succs[0]) != neg})
				}
			}
		}
		if cur == lca {
			break
		}
		live := ins[cur]
		if len(live) != 1 {
			return nil, false
		}
		child, cur = cur, live[0].pred
	}
	out := make([]chainStep, len(rev))
	for i := range rev {
		out[i] = rev[len(rev)-1-i]
	}
	return out, true
}

func (ip *Interp) buildMerge(act *activation, ins map[*ssa.BasicBlock][]edgeIn, b *ssa.BasicBlock, in []edgeIn, idxs []int) *mnode {
	if len(idxs) == 1 {
		return &mnode{edge: idxs[0]}
	}
	// nearest common dominator of the predecessors in this group
	lca := in[idxs[0]].pred
	for lca != nil {
		all := true
		for _, i := range idxs[1:] {
			if !lca.Dominates(in[i].pred) {
				all = false
				break
			}
		}
		if all {
			break
		}
		lca = lca.Idom()
	}
	if lca != nil {
		// edges whose path condition from lca is an exact conjunction (D) and the rest (U)
		chains := map[int][]chainStep{}
		var D, U []int
		for _, i := range idxs {
			if ch, ok := ip.edgeChain(act, ins, lca, b, in[i].pred); ok {
				chains[i] = ch
				D = append(D, i)
			} else {
				U = append(U, i)
			}
		}
		if len(D) > 0 {
			var els *mnode
			if len(U) > 0 {
				els = ip.buildMerge(act, ins, b, in, U)
			}
			bad := false
			var build func(d []int, depth int) *mnode
			build = func(d []int, depth int) *mnode {
				if len(d) == 0 {
					return els
				}
				exhausted := 0
				for _, i := range d {
					if len(chains[i]) <= depth {
						exhausted++
					}
				}
				if exhausted > 0 {
					if len(d) == 1 {
						return &mnode{edge: d[0]}
					}
					bad = true
					return nil
				}
				g := chains[d[0]][depth].gate
				var ts, fs []int
				for _, i := range d {
					st := chains[i][depth]
					if st.gate != g {
						bad = true
						return nil
					}
					if st.side {
						ts = append(ts, i)
					} else {
						fs = append(fs, i)
					}
				}
				t, f := build(ts, depth+1), build(fs, depth+1)
				switch {
				case t == nil:
					return f
				case f == nil:
					return t
				}
				return &mnode{gate: g, exact: true, t: t, f: f}
			}
			if n := build(D, 0); n != nil && !bad {
				return n
			}
		}
	}
	// no usable controlling branches: inexact sequential merge
	return &mnode{gate: "", exact: false, t: ip.buildMerge(act, ins, b, in, idxs[:1]), f: ip.buildMerge(act, ins, b, in, idxs[1:])}
}

func (ip *Interp) setGate(n *mnode) {
	ip.gate, ip.gateExact, ip.gateSwap = n.gate, n.exact, false
}

func (ip *Interp) foldVal(n *mnode, leaf func(int) Val) Val {
	if n.t == nil {
		return leaf(n.edge)
	}
	a, b := ip.foldVal(n.t, leaf), ip.foldVal(n.f, leaf)
	ip.setGate(n)
	return ip.JoinVal(a, b)
}

func (ip *Interp) foldState(n *mnode, in []edgeIn) *State {
	if n.t == nil {
		return in[n.edge].st
	}
	a, b := ip.foldState(n.t, in), ip.foldState(n.f, in)
	ip.setGate(n)
	h := ip.joinHeaps(a.Heap, b.Heap)
	// keep only refinements present on both sides
	nr := map[ssa.Value]Val{}
	for k, v := range a.refine {
		if w, ok := b.refine[k]; ok {
			nr[k] = ip.JoinVal(v, w)
		}
	}
	return &State{Heap: h, refine: nr, facts: intersectFacts(a.facts, b.facts)}
}

func (ip *Interp) refineEdge(act *activation, s *State, cond ssa.Value, cb *Bool, outcome bool) {
	if s.refine == nil {
		s.refine = map[ssa.Value]Val{}
	}
	if outcome {
		s.refine[cond] = &Bool{K: TriT}
	} else {
		s.refine[cond] = &Bool{K: TriF}
	}
	if cb != nil && len(cb.Conj) > 0 {
		if outcome != cb.Neg {
			for _, c := range cb.Conj {
				if c.Cmp != nil || c.NilOf != nil {
					ip.refineEdge(act, s, cond, c, true)
				}
			}
			if outcome {
				s.refine[cond] = &Bool{K: TriT}
			} else {
				s.refine[cond] = &Bool{K: TriF}
			}
		}
		return
	}
	if cb != nil && cb.NilOf != nil {
		if v, ok := cb.NilOf.(ssa.Value); ok && v.Parent() == act.fn {
			// (a test made in a callee and handed back as a boolean refines nothing here:
			// the tested value is not one of this function's)
			if _, isConst := v.(*ssa.Const); !isConst {
				curV := ip.get(act, s, v)
				var nv Val
				if outcome == cb.NilSense {
					nv = &Top{T: v.Type(), Key: "nil"}
				} else if t, isTop := curV.(*Top); isTop && !t.NonNil {
					c := *t
					c.NonNil, c.NilIf = true, nil
					nv = &c
				}
				if nv != nil {
					s.refine[v] = nv
					if lo, ok := act.loads[v]; ok {
						if cur, ok := s.Heap.get(lo.key); ok && cur == lo.v {
							s.Heap.set(lo.key, nv)
						}
					}
				}
			}
		}
	}
	if cb == nil || cb.Cmp == nil {
		return
	}
	c := cb.Cmp
	if cb.Neg {
		outcome = !outcome
	}
	x, xok := c.X.(*Int)
	y, yok := c.Y.(*Int)
	if xok && yok {
		// a value that was loaded from a heap cell which still holds that very value
		// narrows the cell as well (the cell's content is what was tested)
		narrow := func(v ssa.Value, r *Int) {
			s.refine[v] = r
			if lo, ok := act.loads[v]; ok {
				if cur, ok := s.Heap.get(lo.key); ok && cur == lo.v {
					s.Heap.set(lo.key, r)
				}
			}
		}
		if xs, ok := c.XS.(ssa.Value); ok {
			if _, isConst := xs.(*ssa.Const); !isConst {
				narrow(xs, ip.Ops.RefineCmp(c.Op, x, y, outcome, c.Sgn))
			}
		}
		if ys, ok := c.YS.(ssa.Value); ok {
			if _, isConst := ys.(*ssa.Const); !isConst {
				narrow(ys, ip.Ops.RefineCmp(flipOp(c.Op), y, x, outcome, c.Sgn))
			}
		}
	}
}

func flipOp(op string) string {
	switch op {
	case "<":
		return ">"
	case "<=":
		return ">="
	case ">":
		return "<"
	case ">=":
		return "<="
	}
	return op
}

// get evaluates an operand.
func (ip *Interp) get(act *activation, st *State, v ssa.Value) Val {
	if st != nil && st.refine != nil {
		if r, ok := st.refine[v]; ok {
			return r
		}
	}
	if r, ok := act.env[v]; ok {
		return r
	}
	switch x := v.(type) {
	case *ssa.Const:
		return ip.constVal(x)
	case *ssa.Global:
		return ip.GlobalPtr(x)
	case *ssa.Function:
		return &Func{Fn: x, Key: x.String()}
	case *ssa.Builtin:
		return &Func{Fn: x, Key: "builtin:" + x.Name()}
	}
	ip.Imprecise(fmt.Sprintf("operand %s (%T) has no value", v.Name(), v))
	return ip.topOf(v.Type(), "noval")
}

func (ip *Interp) GlobalPtr(g *ssa.Global) *Ptr {
	name := g.Pkg.Pkg.Path() + "." + g.Name()
	elem := g.Type().(*types.Pointer).Elem()
	return &Ptr{Nil: TriF, Obj: ip.GlobalObj(name, elem), T: elem}
}

func (ip *Interp) constVal(c *ssa.Const) Val {
	t := c.Type()
	if w, s, ok := IntType(t); ok {
		if c.Value == nil {
			return NewConst(w, 0, s)
		}
		if u, ok := constant.Uint64Val(constant.ToInt(c.Value)); ok {
			return NewConst(w, u, s)
		}
		if i, ok := constant.Int64Val(constant.ToInt(c.Value)); ok {
			return NewConst(w, uint64(i), s)
		}
		return NewTopInt(ip.In, w, s, "bigconst")
	}
	if c.Value == nil {
		return ip.zero(t)
	}
	switch c.Value.Kind() {
	case constant.Bool:
		if constant.BoolVal(c.Value) {
			return &Bool{K: TriT}
		}
		return &Bool{K: TriF}
	case constant.String:
		return &Str{Known: true, S: constant.StringVal(c.Value)}
	}
	return &Top{T: t, Key: "const:" + c.Value.ExactString()}
}

func asInt(v Val) (*Int, bool) { i, ok := v.(*Int); return i, ok }

// step interprets one non-terminator instruction. It returns false if control never
// continues past it.
func (ip *Interp) step(act *activation, st *State, instr ssa.Instruction) bool {
	switch t := instr.(type) {
	case *ssa.DebugRef:
		return true
	case *ssa.Alloc:
		elem := t.Type().(*types.Pointer).Elem()
		ip.fresh++
		name := fmt.Sprintf("alloc:%s:%s#%d", act.fn.Name(), t.Name(), ip.fresh)
		if t.Comment != "" {
			name = fmt.Sprintf("alloc:%s:%s#%d", act.fn.Name(), t.Comment, ip.fresh)
		}
		act.env[t] = &Ptr{Nil: TriF, Obj: ip.newObj(ObjFresh, name, elem), T: elem}
	case *ssa.BinOp:
		act.env[t] = ip.binop(act, st, t)
	case *ssa.UnOp:
		act.env[t] = ip.unop(act, st, t)
	case *ssa.Convert:
		act.env[t] = ip.convert(ip.get(act, st, t.X), t.X.Type(), t.Type())
	case *ssa.ChangeType:
		v := ip.get(act, st, t.X)
		if iv, ok := v.(*Int); ok {
			if _, s, ok2 := IntType(t.Type()); ok2 {
				c := iv.clone()
				c.Signed = s
				v = c
			}
		}
		act.env[t] = v
	case *ssa.MakeInterface:
		act.env[t] = &Iface{Dyn: t.X.Type(), V: ip.get(act, st, t.X)}
	case *ssa.ChangeInterface:
		act.env[t] = ip.get(act, st, t.X)
	case *ssa.TypeAssert:
		x := ip.get(act, st, t.X)
		var res Val
		okv := &Bool{K: TriTop}
		if ifc, ok := x.(*Iface); ok && ifc.Dyn != nil {
			if types.Identical(ifc.Dyn, t.AssertedType) {
				res, okv = ifc.V, &Bool{K: TriT}
			} else if _, isIface := t.AssertedType.Underlying().(*types.Interface); isIface {
				if types.Implements(ifc.Dyn, t.AssertedType.Underlying().(*types.Interface)) {
					res, okv = ifc, &Bool{K: TriT}
				} else {
					res, okv = ip.zero(t.AssertedType), &Bool{K: TriF}
				}
			} else {
				res, okv = ip.zero(t.AssertedType), &Bool{K: TriF}
			}
		} else {
			res = ip.topOf(t.AssertedType, "typeassert")
		}
		if t.CommaOk {
			act.env[t] = &Tuple{E: []Val{res, okv}}
		} else {
			act.env[t] = res
		}
	case *ssa.Extract:
		tv := ip.get(act, st, t.Tuple)
		if tp, ok := tv.(*Tuple); ok && t.Index < len(tp.E) {
			act.env[t] = tp.E[t.Index]
		} else {
			act.env[t] = ip.topOf(t.Type(), "extract")
		}
	case *ssa.Field:
		x := ip.get(act, st, t.X)
		if s, ok := x.(*Struct); ok && t.Field < len(s.F) {
			act.env[t] = s.F[t.Field]
		} else {
			act.env[t] = ip.topOf(t.Type(), "field")
		}
	case *ssa.FieldAddr:
		x := ip.get(act, st, t.X)
		p, ok := x.(*Ptr)
		if !ok || p.Obj == nil {
			ip.Imprecise("field address of unknown pointer " + t.X.Name())
			act.env[t] = &Ptr{Nil: TriTop, T: t.Type().(*types.Pointer).Elem()}
			break
		}
		act.env[t] = &Ptr{Nil: TriF, Obj: p.Obj, Path: appendSel(p.Path, Sel{Field: t.Field, Index: -1}), T: t.Type().(*types.Pointer).Elem()}
	case *ssa.Index:
		x := ip.get(act, st, t.X)
		idx, _ := asInt(ip.get(act, st, t.Index))
		switch a := x.(type) {
		case *Array:
			if idx != nil {
				if c, ok := idx.IsConst(); ok && int(c) < len(a.E) {
					act.env[t] = a.E[c]
					return true
				}
				if idx.Hi < uint64(len(a.E)) && idx.Hi-idx.Lo < 64 {
					var acc Val
					for i := idx.Lo; i <= idx.Hi; i++ {
						if acc == nil {
							acc = a.E[i]
						} else {
							acc = ip.JoinVal(acc, a.E[i])
						}
					}
					act.env[t] = acc
					return true
				}
			}
		case *Str:
			if a.Known && idx != nil {
				if c, ok := idx.IsConst(); ok && int(c) < len(a.S) {
					act.env[t] = NewConst(8, uint64(a.S[c]), false)
					return true
				}
				// a character of a constant string selected by a term: a value determined by
				// the string and that term
				if idx.Hi < uint64(len(a.S)) {
					act.env[t] = ip.strIndex(a.S, idx)
					return true
				}
			}
		}
		act.env[t] = ip.topOf(t.Type(), "index")
	case *ssa.IndexAddr:
		act.env[t] = ip.indexAddr(act, st, t)
	case *ssa.Slice:
		res := ip.sliceOp(act, st, t)
		act.env[t] = res
		if ip.TraceDyn {
			if src, ok := ip.get(act, st, t.X).(*Slice); ok {
				if rs, ok := res.(*Slice); ok {
					ip.event(Event{Kind: "slice-op", Args: []Val{src, rs}, Instr: t})
				}
			}
		}
	case *ssa.Store:
		a := ip.get(act, st, t.Addr)
		p, ok := a.(*Ptr)
		if !ok {
			ip.Imprecise("store through non-pointer")
			break
		}
		ip.Store(st, p, t.Val.Type(), ip.get(act, st, t.Val))
	case *ssa.MakeClosure:
		fn := t.Fn.(*ssa.Function)
		f := &Func{Fn: fn, Key: fn.String()}
		for _, b := range t.Bindings {
			f.Bind = append(f.Bind, ip.get(act, st, b))
		}
		act.env[t] = f
	case *ssa.MakeMap:
		ip.fresh++
		act.env[t] = &Top{T: t.Type(), Key: fmt.Sprintf("makemap#%d", ip.fresh)}
	case *ssa.MakeSlice:
		ip.fresh++
		elem := t.Type().Underlying().(*types.Slice).Elem()
		l, _ := asInt(ip.get(act, st, t.Len))
		c, _ := asInt(ip.get(act, st, t.Cap))
		if l == nil {
			l = NewTopInt(ip.In, 64, true, "makeslice-len")
		}
		if c == nil {
			c = l
		}
		arr := types.NewArray(elem, 1<<40)
		o := ip.newObj(ObjFresh, fmt.Sprintf("makeslice:%s#%d", act.fn.Name(), ip.fresh), arr)
		act.env[t] = &Slice{Nil: TriF, Base: Ptr{Nil: TriF, Obj: o, T: arr}, Off: NewConst(64, 0, true), Len: ip.Ops.Convert(l, 64, true, true), Cap: ip.Ops.Convert(c, 64, true, true), ElemT: elem}
	case *ssa.Lookup:
		x := ip.get(act, st, t.X)
		if s, ok := x.(*Str); ok && s.Known {
			if idx, ok := asInt(ip.get(act, st, t.Index)); ok {
				if c, ok := idx.IsConst(); ok && int(c) < len(s.S) {
					act.env[t] = NewConst(8, uint64(s.S[c]), false)
					return true
				}
				if idx.Hi < uint64(len(s.S)) {
					act.env[t] = ip.strIndex(s.S, idx)
					return true
				}
			}
		}
		ev := ip.event(Event{Kind: "map-lookup", Args: []Val{x, ip.get(act, st, t.Index)}, Instr: t})
		var res Val
		ip.fresh++
		lk := fmt.Sprintf("lookup#%d", ip.fresh)
		named := func(v Val) Val {
			if tp, ok := v.(*Top); ok {
				tp.Key = lk
			}
			return v
		}
		if t.CommaOk {
			tt := t.Type().(*types.Tuple)
			res = &Tuple{E: []Val{named(ip.topOf(tt.At(0).Type(), "lookup")), &Bool{K: TriTop, Key: lk + ".ok"}}}
		} else {
			res = named(ip.topOf(t.Type(), "lookup"))
		}
		ev.Result = res
		act.env[t] = res
	case *ssa.MapUpdate:
		ip.event(Event{Kind: "map-update", Args: []Val{ip.get(act, st, t.Map), ip.get(act, st, t.Key), ip.get(act, st, t.Value)}, Instr: t, GuardL: ip.GuardList(st)})
	case *ssa.Call:
		res, cont := ip.call(act, st, t, t.Common())
		if !cont {
			return false
		}
		act.env[t] = res
	case *ssa.Range:
		ip.fresh++
		act.env[t] = &Top{T: t.Type(), Key: fmt.Sprintf("range#%d(%s)", ip.fresh, ValKey(ip.get(act, st, t.X)))}
	case *ssa.Next:
		it := ip.get(act, st, t.Iter)
		tt := t.Type().(*types.Tuple)
		ip.fresh++
		base := fmt.Sprintf("next#%d<%s>", ip.fresh, ValKey(it))
		tp := &Tuple{E: []Val{&Bool{K: TriTop, Key: base + ".ok"}}}
		for i := 1; i < tt.Len(); i++ {
			et := tt.At(i).Type()
			if b, ok := et.Underlying().(*types.Basic); ok && b.Kind() == types.Invalid {
				tp.E = append(tp.E, &Top{})
				continue
			}
			tp.E = append(tp.E, ip.havocVal(fmt.Sprintf("%s.%d", base, i), et))
		}
		act.env[t] = tp
	case *ssa.SliceToArrayPointer, *ssa.MultiConvert, *ssa.Select, *ssa.Send, *ssa.Go, *ssa.Defer, *ssa.RunDefers, *ssa.MakeChan:
		ip.Imprecise(fmt.Sprintf("unsupported instruction %T", instr))
		if v, ok := instr.(ssa.Value); ok {
			act.env[v] = ip.topOf(v.Type(), "unsupported")
		}
	default:
		ip.Imprecise(fmt.Sprintf("unknown instruction %T", instr))
		if v, ok := instr.(ssa.Value); ok {
			act.env[v] = ip.topOf(v.Type(), "unknown")
		}
	}
	return true
}

func (ip *Interp) convert(v Val, from, to types.Type) Val {
	fw, fs, fok := IntType(from)
	tw, ts, tok := IntType(to)
	if fok && tok {
		iv, ok := v.(*Int)
		if !ok {
			return NewTopInt(ip.In, tw, ts, "convert")
		}
		if ip.TraceArith && tw < fw && iv.Hi > mask(tw) {
			ip.event(Event{Kind: "narrowing", Callee: fmt.Sprintf("%d->%d bits", fw, tw), Args: []Val{iv}})
		}
		return ip.Ops.Convert(iv, tw, fs, ts)
	}
	// string <-> []byte and friends: opaque
	if s, ok := v.(*Str); ok && isStringType(to) {
		return s
	}
	if _, ok := to.Underlying().(*types.Slice); ok {
		return ip.topOf(to, "convert")
	}
	if isStringType(to) {
		return &Str{}
	}
	if _, ok := to.Underlying().(*types.Pointer); ok {
		return v
	}
	return ip.topOf(to, "convert")
}

func tokOp(op token.Token) string {
	switch op {
	case token.EQL:
		return "=="
	case token.NEQ:
		return "!="
	case token.LSS:
		return "<"
	case token.LEQ:
		return "<="
	case token.GTR:
		return ">"
	case token.GEQ:
		return ">="
	}
	return ""
}

func (ip *Interp) binop(act *activation, st *State, t *ssa.BinOp) Val {
	x := ip.get(act, st, t.X)
	y := ip.get(act, st, t.Y)
	if cmp := tokOp(t.Op); cmp != "" {
		return ip.compare(cmp, x, y, t.X, t.Y)
	}
	xi, xok := x.(*Int)
	yi, yok := y.(*Int)
	w, signed, isInt := IntType(t.Type())
	if !isInt {
		if isStringType(t.Type()) {
			xs, ok1 := x.(*Str)
			ys, ok2 := y.(*Str)
			if ok1 && ok2 && xs.Known && ys.Known && t.Op == token.ADD {
				return &Str{Known: true, S: xs.S + ys.S}
			}
			return &Str{}
		}
		if isBoolType(t.Type()) {
			return &Bool{K: TriTop}
		}
		return ip.topOf(t.Type(), "binop")
	}
	if !xok || !yok {
		return NewTopInt(ip.In, w, signed, "binop-nonint")
	}
	o := ip.Ops
	switch t.Op {
	case token.SHL, token.SHR:
		// shift count may have a different width
		if t.Op == token.SHL {
			return o.Shl(xi, yi)
		}
		return o.Shr(xi, yi, signed)
	}
	if xi.W != yi.W {
		return NewTopInt(ip.In, w, signed, "binop-width")
	}
	switch t.Op {
	case token.ADD:
		if ip.TraceArith {
			// (a signed operand that may be negative is outside this unsigned test: -1 + 1,
			// the hidden index of a range loop, is not an overflow)
			neg := signed && (xi.Hi > mask(w)>>1 || yi.Hi > mask(w)>>1)
			if s, c := bits.Add64(xi.Hi, yi.Hi, 0); !neg && (c != 0 || s > mask(w)) {
				ip.event(Event{Kind: "overflow", Callee: "add", Args: []Val{xi, yi}})
			}
		}
		return o.Add(xi, yi)
	case token.SUB:
		return o.Sub(xi, yi)
	case token.MUL:
		if ip.TraceArith {
			if h, p := bits.Mul64(xi.Hi, yi.Hi); h != 0 || p > mask(w) {
				ip.event(Event{Kind: "overflow", Callee: "mul", Args: []Val{xi, yi}})
			}
		}
		return o.Mul(xi, yi)
	case token.QUO:
		return o.Quo(xi, yi, signed)
	case token.REM:
		return o.Rem(xi, yi, signed)
	case token.AND:
		return o.And(xi, yi)
	case token.OR:
		return o.Or(xi, yi)
	case token.XOR:
		return o.Xor(xi, yi)
	case token.AND_NOT:
		return o.AndNot(xi, yi)
	}
	return NewTopInt(ip.In, w, signed, "binop-op")
}

func (ip *Interp) compare(op string, x, y Val, xs, ys ssa.Value) Val {
	switch a := x.(type) {
	case *Int:
		if b, ok := y.(*Int); ok && a.W == b.W {
			_, signed, _ := IntType(xs.Type())
			k := ip.Ops.Cmp(op, a, b, signed)
			return &Bool{K: k, Cmp: &CmpInfo{Op: op, X: a, Y: b, XS: xs, YS: ys, Sgn: signed}}
		}
	case *Bool:
		if b, ok := y.(*Bool); ok && (op == "==" || op == "!=") {
			if a.K != TriTop && b.K != TriTop {
				eq := a.K == b.K
				if op == "!=" {
					eq = !eq
				}
				return triBool(eq)
			}
			if b.K != TriTop {
				// x == true, x != false ...
				neg := (b.K == TriF) != (op == "!=")
				r := *a
				if neg {
					r.Neg = !r.Neg
					r.NilSense = !r.NilSense
					r.K = a.K
				}
				return &r
			}
		}
	case *Str:
		if b, ok := y.(*Str); ok && a.Known && b.Known {
			switch op {
			case "==":
				return triBool(a.S == b.S)
			case "!=":
				return triBool(a.S != b.S)
			}
		}
	}
	// nil comparisons
	if op == "==" || op == "!=" {
		// a value that is nil exactly under a named condition: the test is that condition
		for _, pr := range [][2]interface{}{{x, ys}, {y, xs}} {
			if t, ok := pr[0].(*Top); ok && t.NilIf != nil && isNilConst(pr[1].(ssa.Value)) {
				r := *t.NilIf
				r.K = TriTop
				if op == "!=" {
					r.Neg = !r.Neg
				}
				if pr[1] == interface{}(ys) {
					r.NilOf = xs
				} else {
					r.NilOf = ys
				}
				r.NilSense = op == "=="
				return &r
			}
		}
		nx, ny := ip.nilness(x), ip.nilness(y)
		if isNilConst(ys) && nx != TriTop {
			return triBool((nx == TriT) == (op == "=="))
		}
		if isNilConst(xs) && ny != TriTop {
			return triBool((ny == TriT) == (op == "=="))
		}
		// pointer identity
		if px, ok := x.(*Ptr); ok {
			if py, ok := y.(*Ptr); ok && px.Nil == TriF && py.Nil == TriF && px.Obj != nil && py.Obj != nil && !hasDyn(px.Path) && !hasDyn(py.Path) {
				same := px.Obj == py.Obj && PathKey(px.Path) == PathKey(py.Path)
				if same {
					return triBool(op == "==")
				}
				if px.Obj.Kind == ObjFresh || py.Obj.Kind == ObjFresh {
					return triBool(op != "==")
				}
			}
		}
		// an undecided nil test still tells the edges what the value is
		// (named after the value where it has an identity, so that merges under the test
		// are gated exactly)
		nilKey := func(v Val) string {
			switch t := v.(type) {
			case *Slot:
				return "isnil:" + ValKey(t)
			case *Top:
				if t.Key != "" {
					return "isnil:" + t.Key
				}
			}
			return ""
		}
		if isNilConst(ys) && !isNilConst(xs) {
			return &Bool{K: TriTop, Key: nilKey(x), Neg: nilKey(x) != "" && op == "!=", NilOf: xs, NilSense: op == "=="}
		}
		if isNilConst(xs) && !isNilConst(ys) {
			return &Bool{K: TriTop, Key: nilKey(y), Neg: nilKey(y) != "" && op == "!=", NilOf: ys, NilSense: op == "=="}
		}
	}
	return &Bool{K: TriTop}
}

// strIndex is s[idx] for a constant string and an in-range symbolic index.
func (ip *Interp) strIndex(s string, idx *Int) *Int {
	hi := uint64(0)
	for i := idx.Lo; i <= idx.Hi && i < uint64(len(s)); i++ {
		if uint64(s[i]) > hi {
			hi = uint64(s[i])
		}
	}
	a := ip.In.Derived(fmt.Sprintf("strindex(%q,%s)", s, idx.Lin.Key()), 8, hi, idx.Lin)
	if a.Op == "" {
		a.Op, a.Args = "strindex:"+s, []*Lin{idx.Lin}
	}
	return NewSym(8, a, false)
}

func isNilConst(v ssa.Value) bool {
	c, ok := v.(*ssa.Const)
	return ok && c.Value == nil
}

func triBool(b bool) *Bool {
	if b {
		return &Bool{K: TriT}
	}
	return &Bool{K: TriF}
}

// nilness: TriT = is nil, TriF = non-nil.
func (ip *Interp) nilness(v Val) Tri {
	switch x := v.(type) {
	case *Ptr:
		return x.Nil
	case *Slice:
		return x.Nil
	case *Func:
		return TriF
	case *Iface:
		return TriF
	case *Slot:
		if ip.Hooks.SlotIsNil != nil {
			return ip.Hooks.SlotIsNil(x)
		}
	case *Top:
		if x.Key == "nil" {
			return TriT
		}
		if x.NonNil {
			return TriF
		}
	}
	return TriTop
}

func (ip *Interp) unop(act *activation, st *State, t *ssa.UnOp) Val {
	x := ip.get(act, st, t.X)
	switch t.Op {
	case token.MUL: // load
		p, ok := x.(*Ptr)
		if !ok {
			ip.Imprecise("load through non-pointer " + t.X.Name())
			return ip.topOf(t.Type(), "load")
		}
		v := ip.Load(st, p, t.Type())
		if _, isInt := v.(*Int); isInt && p.Obj != nil && !hasDyn(p.Path) {
			k := locKey(p.Obj, p.Path)
			if cur, ok := st.Heap.get(k); ok && cur == v {
				act.loads[t] = loadOrigin{k, v}
			}
		}
		return v
	case token.NOT:
		if b, ok := x.(*Bool); ok {
			r := *b
			switch b.K {
			case TriT:
				r.K = TriF
			case TriF:
				r.K = TriT
			default:
				r.Neg = !b.Neg
				r.NilSense = !b.NilSense
			}
			return &r
		}
		return &Bool{K: TriTop}
	case token.SUB:
		if i, ok := x.(*Int); ok {
			return ip.Ops.Neg(i)
		}
	case token.XOR:
		if i, ok := x.(*Int); ok {
			return ip.Ops.Not(i)
		}
	}
	return ip.topOf(t.Type(), "unop")
}

func (ip *Interp) indexAddr(act *activation, st *State, t *ssa.IndexAddr) Val {
	x := ip.get(act, st, t.X)
	idxV := ip.get(act, st, t.Index)
	idx, _ := asInt(idxV)
	elemT := t.Type().(*types.Pointer).Elem()
	if idx == nil {
		idx = NewTopInt(ip.In, 64, true, "index")
	}
	idx64 := idx
	if idx.W != 64 {
		_, s, _ := IntType(t.Index.Type())
		idx64 = ip.Ops.Convert(idx, 64, s, true)
	}
	mkSel := func(i *Int) Sel {
		if c, ok := i.IsConst(); ok && c < 1<<31 {
			return Sel{Field: -1, Index: int(c)}
		}
		return Sel{Field: -1, Index: -1, Dyn: i}
	}
	switch b := x.(type) {
	case *Ptr: // pointer to array
		if b.Obj == nil {
			break
		}
		if arr, ok := derefArray(t.X.Type()); ok {
			_, sgn, _ := IntType(t.Index.Type())
			if idx.Hi >= uint64(arr.Len()) || (sgn && idx.Hi > mask(idx.W)>>1) {
				ip.event(Event{Kind: "index-range", Callee: fmt.Sprintf("array length %d", arr.Len()), Args: []Val{idx, &Ptr{Obj: b.Obj, Path: b.Path}}, Instr: t})
			}
		}
		return &Ptr{Nil: TriF, Obj: b.Obj, Path: appendSel(b.Path, mkSel(idx64)), T: elemT}
	case *Slice:
		if b.Base.Obj == nil {
			break
		}
		// an index that is certainly not below a known length panics
		if b.Len != nil {
			if lc, ok := b.Len.IsConst(); ok && idx64.Lo >= lc && idx64.Lo <= mask(63) {
				ip.event(Event{Kind: "index-range", Callee: fmt.Sprintf("slice length %d", lc), Args: []Val{idx, &Ptr{Obj: b.Base.Obj, Path: b.Base.Path}}, Instr: t})
			}
		}
		eff := ip.Ops.Add(b.Off, idx64)
		return &Ptr{Nil: TriF, Obj: b.Base.Obj, Path: appendSel(b.Base.Path, mkSel(eff)), T: elemT}
	}
	ip.Imprecise("index address of unknown base " + t.X.Name())
	return &Ptr{Nil: TriTop, T: elemT}
}

func (ip *Interp) sliceOp(act *activation, st *State, t *ssa.Slice) Val {
	x := ip.get(act, st, t.X)
	getI := func(v ssa.Value) *Int {
		if v == nil {
			return nil
		}
		i, _ := asInt(ip.get(act, st, v))
		if i == nil {
			return NewTopInt(ip.In, 64, true, "slice-bound")
		}
		if i.W != 64 {
			_, s, _ := IntType(v.Type())
			return ip.Ops.Convert(i, 64, s, true)
		}
		return i
	}
	lo, hi := getI(t.Low), getI(t.High)
	zero := NewConst(64, 0, true)
	if lo == nil {
		lo = zero
	}
	switch b := x.(type) {
	case *Ptr: // *[N]T
		arr, ok := b.T.Underlying().(*types.Array)
		if !ok && b.Obj != nil {
			arr, ok = derefArray(t.X.Type())
		}
		if !ok {
			break
		}
		n := NewConst(64, uint64(arr.Len()), true)
		if hi == nil {
			hi = n
		}
		return &Slice{Nil: TriF, Base: *b, Off: lo, Len: ip.sliceLen(lo, hi), Cap: ip.Ops.Sub(n, lo), ElemT: arr.Elem()}
	case *Slice:
		if hi == nil {
			hi = b.Len
		}
		return &Slice{Nil: b.Nil, Base: b.Base, Off: ip.Ops.Add(b.Off, lo), Len: ip.sliceLen(lo, hi), Cap: ip.Ops.Sub(b.Cap, lo), ElemT: b.ElemT}
	case *Str:
		return &Str{}
	}
	return ip.topOf(t.Type(), "slice")
}

func derefArray(t types.Type) (*types.Array, bool) {
	p, ok := t.Underlying().(*types.Pointer)
	if !ok {
		return nil, false
	}
	a, ok := p.Elem().Underlying().(*types.Array)
	return a, ok
}

// ---------------------------------------------------------------------------
// calls

func (ip *Interp) call(act *activation, st *State, site ssa.CallInstruction, c *ssa.CallCommon) (Val, bool) {
	var args []Val
	for _, a := range c.Args {
		args = append(args, ip.get(act, st, a))
	}
	resT := c.Signature().Results()
	var resType types.Type = resT
	if resT.Len() == 1 {
		resType = resT.At(0).Type()
	}
	top := func(why string) Val {
		if resT.Len() == 0 {
			return nil
		}
		v := ip.topOf(resType, why)
		if tp, ok := v.(*Top); ok && tp.Key == "" {
			ip.fresh++
			tp.Key = fmt.Sprintf("%s#%d", why, ip.fresh)
		}
		return v
	}
	if c.IsInvoke() {
		recv := ip.get(act, st, c.Value)
		switch r := recv.(type) {
		case *Slot:
			ev := ip.event(Event{Kind: "slot-call", Method: c.Method.Name(), Args: args, Slot: r, Instr: site})
			var res Val
			if ip.Hooks.SlotCall != nil {
				res = ip.Hooks.SlotCall(ip, st, ev)
			}
			if res == nil {
				res = top("slot-call")
			}
			ev.Result = res
			return res, true
		case *Iface:
			if r.Dyn != nil {
				if fn := ip.lookupMethod(act.fn.Prog, r.Dyn, c.Method); fn != nil {
					return ip.callFunc(st, site, fn, append([]Val{r.V}, args...), nil, top)
				}
			}
		}
		ev := ip.event(Event{Kind: "unknown-call", Method: c.Method.Name(), Callee: "invoke " + c.Value.Type().String() + "." + c.Method.Name(), Args: append([]Val{recv}, args...), Instr: site})
		if ip.Hooks.UnknownCall != nil {
			if res, ok := ip.Hooks.UnknownCall(ip, st, ev); ok {
				ev.Result = res
				return res, true
			}
		}
		ip.Imprecise("invoke on unknown receiver: " + ev.Callee)
		return top("invoke"), true
	}
	switch v := c.Value.(type) {
	case *ssa.Builtin:
		return ip.builtin(act, st, site, v, c, args)
	case *ssa.Function:
		return ip.callFunc(st, site, v, args, nil, top)
	}
	fv := ip.get(act, st, c.Value)
	switch f := fv.(type) {
	case *Func:
		if fn, ok := f.Fn.(*ssa.Function); ok {
			return ip.callFunc(st, site, fn, args, f.Bind, top)
		}
	case *Slot:
		ev := ip.event(Event{Kind: "slot-call", Method: "", Args: args, Slot: f, Instr: site})
		var res Val
		if ip.Hooks.SlotCall != nil {
			res = ip.Hooks.SlotCall(ip, st, ev)
		}
		if res == nil {
			res = top("slot-call")
		}
		ev.Result = res
		return res, true
	}
	ev := ip.event(Event{Kind: "unknown-call", Callee: ValKey(fv), Args: args, Instr: site})
	if ip.Hooks.UnknownCall != nil {
		if res, ok := ip.Hooks.UnknownCall(ip, st, ev); ok {
			ev.Result = res
			return res, true
		}
	}
	ip.Imprecise("call through unknown function value " + ValKey(fv))
	return top("unknown-call"), true
}

func (ip *Interp) lookupMethod(prog *ssa.Program, dyn types.Type, m *types.Func) *ssa.Function {
	ms := prog.MethodSets.MethodSet(dyn)
	sel := ms.Lookup(m.Pkg(), m.Name())
	if sel == nil {
		return nil
	}
	return prog.MethodValue(sel)
}

func inModule(fn *ssa.Function) bool {
	var pkg *types.Package
	if fn.Pkg != nil {
		pkg = fn.Pkg.Pkg
	} else if o := fn.Object(); o != nil {
		pkg = o.Pkg()
	} else if fn.Parent() != nil {
		return inModule(fn.Parent())
	}
	if pkg == nil {
		return false
	}
	return pkg.Path() == ModulePath || strings.HasPrefix(pkg.Path(), ModulePath+"/")
}

// ModulePath is the module under analysis (calls leaving it are external).
var ModulePath = "github.com/alttpo/snes"

func (ip *Interp) callFunc(st *State, site ssa.CallInstruction, fn *ssa.Function, args []Val, bind []Val, top func(string) Val) (Val, bool) {
	if inModule(fn) && len(fn.Blocks) > 0 {
		if ip.Hooks.OverrideCall != nil {
			if res, ok := ip.Hooks.OverrideCall(ip, st, fn, args); ok {
				return res, true
			}
		}
		res, out := ip.Call(fn, args, bind, st)
		if out == nil {
			return nil, false
		}
		st.Heap = out.Heap
		st.facts = out.facts
		return res, true
	}
	name := fn.String()
	ev := ip.event(Event{Kind: "ext-call", Callee: name, Args: args, Instr: site, Guards: ip.Guards(st), GuardL: ip.GuardList(st)})
	if ip.Hooks.ExtCall != nil {
		if res, ok := ip.Hooks.ExtCall(ip, st, ev); ok {
			ev.Result = res
			return res, true
		}
	}
	switch name {
	case "log.Fatalf", "log.Fatal", "log.Fatalln", "os.Exit", "log.Panicf", "log.Panic", "log.Panicln":
		ev.Kind = "fatal"
		return nil, false
	case "fmt.Fprintf", "fmt.Fprint", "fmt.Fprintln", "fmt.Printf", "fmt.Println":
		// writes to an io.Writer outside the module; no effect on module state
		res := top("ext:" + name)
		ev.Result = res
		return res, true
	case "fmt.Errorf", "errors.New":
		// a freshly made error is never nil
		ip.fresh++
		res := Val(&Top{T: fn.Signature.Results().At(0).Type(), Key: fmt.Sprintf("ext:%s#%d", name, ip.fresh), NonNil: true})
		ev.Result = res
		return res, true
	case "fmt.Sprintf", "fmt.Sprint", "fmt.Sprintln",
		"log.Println", "log.Printf", "log.Print", "strconv.Itoa", "strconv.FormatInt", "strconv.FormatUint":
		res := top("ext:" + name)
		ev.Result = res
		return res, true
	case "strconv.AppendInt", "strconv.AppendUint":
		res := top("ext:" + name)
		ev.Result = res
		return res, true
	}
	// encoding/binary byte orders over a slice with a constant offset
	if strings.HasPrefix(name, "(encoding/binary.littleEndian).") || strings.HasPrefix(name, "(encoding/binary.bigEndian).") {
		little := strings.Contains(name, "littleEndian")
		meth := name[strings.LastIndex(name, ".")+1:]
		nbytes := map[string]int{"PutUint16": 2, "PutUint32": 4, "PutUint64": 8, "Uint16": 2, "Uint32": 4, "Uint64": 8}[meth]
		if nbytes > 0 && len(args) >= 2 {
			if sl, ok := args[1].(*Slice); ok && sl.Base.Obj != nil && sl.Off != nil && sl.Len != nil && sl.Len.Lo >= uint64(nbytes) {
				if off, isC := sl.Off.IsConst(); isC {
					elem := func(i int) *Ptr {
						return &Ptr{Obj: sl.Base.Obj, Path: appendSel(sl.Base.Path, Sel{Field: -1, Index: int(off) + i}), T: sl.ElemT}
					}
					pos := func(i int) int { // significance (in bytes) of the byte stored at position i
						if little {
							return i
						}
						return nbytes - 1 - i
					}
					if strings.HasPrefix(meth, "Put") && len(args) == 3 {
						if v, ok := args[2].(*Int); ok {
							for i := 0; i < nbytes; i++ {
								b := ip.Ops.Convert(ip.Ops.Shr(v, NewConst(v.W, uint64(8*pos(i)), false), false), 8, false, false)
								ip.Store(st, elem(i), sl.ElemT, b)
							}
							ev.Result = nil
							return nil, true
						}
					} else if !strings.HasPrefix(meth, "Put") {
						w := 8 * nbytes
						r := NewConst(w, 0, false)
						good := true
						for i := 0; i < nbytes; i++ {
							b, ok := ip.Load(st, elem(i), sl.ElemT).(*Int)
							if !ok {
								good = false
								break
							}
							r = ip.Ops.Or(r, ip.Ops.Shl(ip.Ops.Convert(b, w, false, false), NewConst(w, uint64(8*pos(i)), false)))
						}
						if good {
							ev.Result = r
							return r, true
						}
					}
				}
			}
		}
	}
	ip.Imprecise("call to unmodelled external function " + name)
	res := top("ext:" + name)
	ev.Result = res
	return res, true
}

// sliceLen is high - low of a slice expression that did not panic. When the bounds are
// the widened values x and x+K of a narrower unsigned computation (`offs : offs+2` with
// offs uint32), low <= high rules out a wrap of x+K, so the length is K.
func (ip *Interp) sliceLen(lo, hi *Int) *Int {
	d := ip.Ops.Sub(hi, lo)
	if len(d.Lin.T) == 2 && d.Lin.C == 0 {
		var pos, neg *Atom
		for _, t := range d.Lin.T {
			switch t.K {
			case 1:
				pos = t.A
			case mask(d.W):
				neg = t.A
			}
		}
		if pos != nil && neg != nil && pos.Op == neg.Op && strings.HasPrefix(pos.Op, "zext") && len(pos.Args) == 1 && len(neg.Args) == 1 && pos.Args[0].W == neg.Args[0].W {
			k := linAdd(pos.Args[0], neg.Args[0], true)
			if k.IsConst() && k.C < uint64(1)<<uint(pos.Args[0].W-1) {
				return NewConst(d.W, k.C, d.Signed)
			}
		}
	}
	return d
}

func (ip *Interp) builtin(act *activation, st *State, site ssa.CallInstruction, b *ssa.Builtin, c *ssa.CallCommon, args []Val) (Val, bool) {
	switch b.Name() {
	case "len", "cap":
		switch x := args[0].(type) {
		case *Slice:
			if b.Name() == "len" {
				return x.Len, true
			}
			return x.Cap, true
		case *Str:
			if x.Known {
				return NewConst(64, uint64(len(x.S)), true), true
			}
			k := x.Key
			if k == "" {
				return NewTopInt(ip.In, 64, true, "len"), true
			}
			return NewSym(64, ip.In.Atom("len("+k+")", 64, 1<<40), true), true
		case *Array:
			return NewConst(64, uint64(len(x.E)), true), true
		case *Top:
			if x.Key != "" {
				return NewSym(64, ip.In.Atom(b.Name()+"("+x.Key+")", 64, 1<<40), true), true
			}
		}
		v := NewTopInt(ip.In, 64, true, "len")
		v.Hi = 1 << 40
		return v.reduce(), true
	case "copy":
		dst, _ := args[0].(*Slice)
		ip.storeEpoch++
		ev := ip.event(Event{Kind: "copy", Args: args, Instr: site, Guards: ip.Guards(st), GuardL: ip.GuardList(st)})
		hi := uint64(1 << 40)
		if dst != nil && dst.Len.Hi < hi {
			hi = dst.Len.Hi
		}
		switch s := args[1].(type) {
		case *Slice:
			if s.Len.Hi < hi {
				hi = s.Len.Hi
			}
		case *Str:
			if s.Known && uint64(len(s.S)) < hi {
				hi = uint64(len(s.S))
			}
		}
		// element-wise copy when everything is concrete and small
		if src, ok := args[1].(*Slice); ok && dst != nil {
			dl, ok1 := dst.Len.IsConst()
			sl, ok2 := src.Len.IsConst()
			do, ok3 := dst.Off.IsConst()
			so, ok4 := src.Off.IsConst()
			if ok1 && ok2 && ok3 && ok4 && dst.Base.Obj != nil && src.Base.Obj != nil {
				n := dl
				if sl < n {
					n = sl
				}
				if n <= 64 {
					vals := make([]Val, n)
					for i := uint64(0); i < n; i++ {
						vals[i] = ip.Load(st, &Ptr{Obj: src.Base.Obj, Path: appendSel(src.Base.Path, Sel{Field: -1, Index: int(so + i)})}, src.ElemT)
					}
					for i := uint64(0); i < n; i++ {
						ip.Store(st, &Ptr{Obj: dst.Base.Obj, Path: appendSel(dst.Base.Path, Sel{Field: -1, Index: int(do + i)})}, dst.ElemT, vals[i])
					}
					r := NewConst(64, n, true)
					ev.Result = r
					return r, true
				}
			}
		}
		// otherwise the destination contents become unknown; destinations with
		// symbolic storage are never read back precisely, so only note the event.
		// The count is min(len(dst), len(src)): named when the two lengths are the
		// same term or their order is decided, an unknown otherwise.
		ip.fresh++
		r := NewSym(64, ip.In.Atom(fmt.Sprintf("copy#%d", ip.fresh), 64, hi), true)
		if src, ok := args[1].(*Slice); ok && dst != nil && dst.Len != nil && src.Len != nil && dst.Len.W == src.Len.W {
			switch {
			case dst.Len.Lin.Key() == src.Len.Lin.Key():
				r = ip.Ops.Convert(src.Len, 64, true, true)
			case ip.Ops.Cmp("<=", src.Len, dst.Len, true) == TriT:
				r = ip.Ops.Convert(src.Len, 64, true, true)
			case ip.Ops.Cmp("<=", dst.Len, src.Len, true) == TriT:
				r = ip.Ops.Convert(dst.Len, 64, true, true)
			}
		}
		ev.Result = r
		if dst != nil && dst.Base.Obj != nil && dst.Base.Obj.Kind == ObjFresh {
			ip.havocObj(st, dst.Base.Obj)
		}
		return r, true
	case "append":
		// list the appended elements when they are a small literal group
		evArgs := args
		if len(args) == 2 {
			if sl, ok := args[1].(*Slice); ok && sl.Base.Obj != nil {
				n, ok1 := sl.Len.IsConst()
				off, ok2 := sl.Off.IsConst()
				if ok1 && ok2 && n <= 8 {
					evArgs = []Val{args[0]}
					for i := uint64(0); i < n; i++ {
						evArgs = append(evArgs, ip.Load(st, &Ptr{Obj: sl.Base.Obj, Path: appendSel(sl.Base.Path, Sel{Field: -1, Index: int(off + i)})}, sl.ElemT))
					}
				}
			}
		}
		ev := ip.event(Event{Kind: "append", Args: evArgs, Instr: site, GuardL: ip.GuardList(st)})
		// appending to a slice whose storage was made by this very computation (make,
		// or an earlier such append) yields storage of its own again: whether or not it
		// is reallocated, it aliases nothing that existed before
		if s0, ok := args[0].(*Slice); ok && len(args) == 2 && s0.Base.Obj != nil && s0.Base.Obj.Kind == ObjFresh && s0.Len != nil {
			var add *Int
			switch v := args[1].(type) {
			case *Slice:
				add = v.Len
			case *Str:
				if v.Known {
					add = NewConst(64, uint64(len(v.S)), true)
				}
			}
			if add != nil && add.W == s0.Len.W {
				nl := ip.Ops.Add(s0.Len, add)
				// with a constant length and listed elements the new elements are stored
				// where they go; otherwise the contents become unknown
				l0, okL := s0.Len.IsConst()
				o0, okO := s0.Off.IsConst()
				if okL && okO && len(evArgs) >= 2 && len(evArgs)-1 > 0 && evArgs[0] == args[0] && !(len(evArgs) == 2 && evArgs[1] == args[1]) {
					for i, e := range evArgs[1:] {
						ip.Store(st, &Ptr{Obj: s0.Base.Obj, Path: appendSel(s0.Base.Path, Sel{Field: -1, Index: int(o0+l0) + i}), T: s0.ElemT}, s0.ElemT, e)
					}
				} else {
					ip.havocObj(st, s0.Base.Obj)
				}
				res := &Slice{Nil: TriF, Base: s0.Base, Off: s0.Off, Len: nl, Cap: ip.Ops.Join(s0.Cap, nl), ElemT: s0.ElemT}
				ev.Result = res
				return res, true
			}
		}
		res := ip.topOf(c.Signature().Results().At(0).Type(), "append")
		if s, ok := res.(*Slice); ok {
			s.Nil = TriTop
		}
		ev.Result = res
		return res, true
	case "panic":
		ip.event(Event{Kind: "panic", Args: args, Instr: site})
		return nil, false
	case "print", "println":
		return nil, true
	case "ssa:wrapnilchk":
		// wrapper-method nil check: returns its first argument unless it is nil
		if ip.nilness(args[0]) == TriT {
			ip.event(Event{Kind: "panic", Args: args, Instr: site})
			return nil, false
		}
		return args[0], true
	case "delete":
		ip.event(Event{Kind: "map-update", Callee: "delete", Args: args, Instr: site})
		return nil, true
	case "min", "max":
		// rarely used; stay sound
	}
	ip.Imprecise("unmodelled builtin " + b.Name())
	if c.Signature().Results().Len() == 0 {
		return nil, true
	}
	return ip.topOf(c.Signature().Results().At(0).Type(), "builtin"), true
}
