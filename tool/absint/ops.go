package absint

import (
	"fmt"
	"math/bits"
	"strings"
)

// Ops bundles the transfer functions; it needs the interner to create atoms for
// non-linear results.
type Ops struct{ In *Interner }

func (o Ops) opaque(op string, w int, hi uint64, args ...*Int) *Lin {
	key := op + "("
	for i, a := range args {
		if i > 0 {
			key += ","
		}
		key += a.Lin.Key()
	}
	key += ")"
	var from []*Lin
	for _, a := range args {
		from = append(from, a.Lin)
	}
	a := o.In.Derived(key, w, hi, from...)
	if a.Op == "" {
		a.Op, a.Args = op, from
	}
	return LinAtom(w, a)
}

func itoa(i int) string { return fmt.Sprintf("%d", i) }

func topBits(w int) []Bit {
	b := make([]Bit, w)
	for i := range b {
		b[i] = Bit{K: BTop}
	}
	return b
}

func (o Ops) mk(w int, signed bool, bitsv []Bit, lo, hi uint64, lin *Lin) *Int {
	v := &Int{W: w, Signed: signed, Bits: bitsv, Lo: lo, Hi: hi, Lin: lin}
	return v.reduce()
}

func commKey(a, b *Int) (*Int, *Int) {
	if a.Lin.Key() > b.Lin.Key() {
		return b, a
	}
	return a, b
}

func (o Ops) And(a, b *Int) *Int {
	w := a.W
	bv := make([]Bit, w)
	for i := 0; i < w; i++ {
		bv[i] = bitAnd(a.Bits[i], b.Bits[i])
	}
	hi := a.Hi
	if b.Hi < hi {
		hi = b.Hi
	}
	var lin *Lin
	// x & mask == x when every bit cleared by the mask is already known zero
	if covers(b, a) {
		lin = a.Lin
	} else if covers(a, b) {
		lin = b.Lin
	} else if k, ok := lowMask(b, w); ok && !a.Lin.IsConst() {
		// x & (2^k-1) is x reduced modulo 2^k, read back at the full width: the same
		// quantity whatever the width x was computed in
		lin = o.Convert(o.Convert(a, k, false, false), w, false, false).Lin
	} else if k, ok := lowMask(a, w); ok && !b.Lin.IsConst() {
		lin = o.Convert(o.Convert(b, k, false, false), w, false, false).Lin
	} else {
		x, y := commKey(a, b)
		lin = o.opaque("and", w, hi, x, y)
	}
	return o.mk(w, a.Signed, bv, 0, hi, lin)
}

// lowMask: v is the constant 2^k-1 with 0 < k < w.
func lowMask(v *Int, w int) (int, bool) {
	c, ok := v.IsConst()
	if !ok || c == 0 || (c+1)&c != 0 {
		return 0, false
	}
	k := bits.Len64(c)
	return k, k < w
}

// covers reports whether m is known to be 1 on every bit position where x may be
// non-zero (so x&m == x).
func covers(m, x *Int) bool {
	for i := 0; i < x.W; i++ {
		if x.Bits[i].K != BZero && m.Bits[i].K != BOne {
			return false
		}
	}
	return true
}

func disjoint(a, b *Int) bool {
	for i := 0; i < a.W; i++ {
		if a.Bits[i].K != BZero && b.Bits[i].K != BZero {
			return false
		}
	}
	return true
}

func (o Ops) Or(a, b *Int) *Int {
	w := a.W
	bv := make([]Bit, w)
	for i := 0; i < w; i++ {
		bv[i] = bitOr(a.Bits[i], b.Bits[i])
	}
	hi := mask(bitlen(a.Hi | b.Hi))
	lo := a.Lo
	if b.Lo > lo {
		lo = b.Lo
	}
	var lin *Lin
	if disjoint(a, b) {
		lin = linAdd(a.Lin, b.Lin, false)
	} else {
		x, y := commKey(a, b)
		lin = o.opaque("or", w, hi, x, y)
	}
	return o.mk(w, a.Signed, bv, lo, hi, lin)
}

func (o Ops) Xor(a, b *Int) *Int {
	w := a.W
	bv := make([]Bit, w)
	for i := 0; i < w; i++ {
		bv[i] = bitXor(a.Bits[i], b.Bits[i])
	}
	hi := mask(bitlen(a.Hi | b.Hi))
	var lin *Lin
	if disjoint(a, b) {
		lin = linAdd(a.Lin, b.Lin, false)
	} else if c, ok := b.IsConst(); ok && c == mask(w) {
		// x ^ all-ones = -x-1
		lin = linAdd(LinConst(w, mask(w)), a.Lin, true)
	} else if c, ok := a.IsConst(); ok && c == mask(w) {
		lin = linAdd(LinConst(w, mask(w)), b.Lin, true)
	} else {
		x, y := commKey(a, b)
		lin = o.opaque("xor", w, hi, x, y)
	}
	return o.mk(w, a.Signed, bv, 0, hi, lin)
}

func (o Ops) Not(a *Int) *Int {
	w := a.W
	bv := make([]Bit, w)
	for i := 0; i < w; i++ {
		bv[i] = bitNot(a.Bits[i])
	}
	m := mask(w)
	return o.mk(w, a.Signed, bv, m-a.Hi, m-a.Lo, linAdd(LinConst(w, m), a.Lin, true))
}

func (o Ops) AndNot(a, b *Int) *Int { return o.And(a, o.Not(b)) }

func rippleAdd(a, b []Bit, carry Bit) []Bit {
	w := len(a)
	r := make([]Bit, w)
	for i := 0; i < w; i++ {
		r[i] = bitXor(bitXor(a[i], b[i]), carry)
		carry = bitMaj(a[i], b[i], carry)
		if carry.K == BTop && a[i].K == BTop && b[i].K == BTop {
			// nothing more can be learnt
			for j := i + 1; j < w; j++ {
				r[j] = Bit{K: BTop}
			}
			break
		}
	}
	return r
}

func (o Ops) Add(a, b *Int) *Int {
	w := a.W
	m := mask(w)
	bv := rippleAdd(a.Bits, b.Bits, Bit{K: BZero})
	lo, hi := uint64(0), m
	if s, c := bits.Add64(a.Hi, b.Hi, 0); c == 0 && s <= m {
		lo, hi = a.Lo+b.Lo, s
	} else if s2, c2 := bits.Add64(a.Lo, b.Lo, 0); (c2 != 0 || s2 > m) && w < 64 {
		// always wraps exactly once
		lo, hi = (a.Lo+b.Lo)&m, (a.Hi+b.Hi)&m
		if lo > hi {
			lo, hi = 0, m
		}
	}
	return o.mk(w, a.Signed, bv, lo, hi, linAdd(a.Lin, b.Lin, false))
}

func (o Ops) Sub(a, b *Int) *Int {
	w := a.W
	m := mask(w)
	nb := make([]Bit, w)
	for i := range nb {
		nb[i] = bitNot(b.Bits[i])
	}
	bv := rippleAdd(a.Bits, nb, Bit{K: BOne})
	lo, hi := uint64(0), m
	if a.Lo >= b.Hi {
		lo, hi = a.Lo-b.Hi, a.Hi-b.Lo
	} else if a.Hi < b.Lo {
		// always wraps
		lo, hi = (a.Lo-b.Hi)&m, (a.Hi-b.Lo)&m
		if lo > hi {
			lo, hi = 0, m
		}
	}
	return o.mk(w, a.Signed, bv, lo, hi, linAdd(a.Lin, b.Lin, true))
}

func (o Ops) Neg(a *Int) *Int { return o.Sub(NewConst(a.W, 0, a.Signed), a) }

func (o Ops) Mul(a, b *Int) *Int {
	w := a.W
	m := mask(w)
	lo, hi := uint64(0), m
	if h, p := bits.Mul64(a.Hi, b.Hi); h == 0 && p <= m {
		lo, hi = a.Lo*b.Lo, p
	}
	var lin *Lin
	if c, ok := b.IsConst(); ok {
		lin = linScale(a.Lin, c)
	} else if c, ok := a.IsConst(); ok {
		lin = linScale(b.Lin, c)
	} else {
		x, y := commKey(a, b)
		lin = o.opaque("mul", w, hi, x, y)
	}
	bv := topBits(w)
	if c, ok := b.IsConst(); ok && c != 0 && c&(c-1) == 0 {
		return o.Shl(a, NewConst(w, uint64(bits.TrailingZeros64(c)), false))
	}
	return o.mk(w, a.Signed, bv, lo, hi, lin)
}

// Quo is unsigned division (signed operands are handled only when known non-negative).
func (o Ops) Quo(a, b *Int, signed bool) *Int {
	// unsigned division by a power of two is a shift
	if c, ok := b.IsConst(); ok && c != 0 && c&(c-1) == 0 && (!signed || a.Hi <= mask(a.W)>>1) {
		return o.Shr(a, NewConst(a.W, uint64(bits.TrailingZeros64(c)), false), false)
	}
	w := a.W
	m := mask(w)
	lo, hi := uint64(0), m
	nonneg := !signed || (a.Hi <= m>>1 && b.Hi <= m>>1)
	if nonneg && b.Lo > 0 {
		lo, hi = a.Lo/b.Hi, a.Hi/b.Lo
	} else if nonneg {
		hi = a.Hi // division by >= 1 (division by zero panics)
	}
	op := "quo"
	if signed && !nonneg {
		op = "squo" // (signed division of non-negative operands is the unsigned one)
	}
	return o.mk(w, a.Signed, topBits(w), lo, hi, o.opaque(op, w, hi, a, b))
}

func (o Ops) Rem(a, b *Int, signed bool) *Int {
	// unsigned remainder by a power of two is a mask
	if c, ok := b.IsConst(); ok && c != 0 && c&(c-1) == 0 && (!signed || a.Hi <= mask(a.W)>>1) {
		r := o.And(a, NewConst(a.W, c-1, a.Signed))
		r.Signed = a.Signed
		return r
	}
	w := a.W
	m := mask(w)
	hi := m
	nonneg := !signed || (a.Hi <= m>>1 && b.Hi <= m>>1)
	if nonneg {
		hi = a.Hi
		if b.Hi > 0 && b.Hi-1 < hi {
			hi = b.Hi - 1
		}
	}
	op := "rem"
	if signed {
		op = "srem"
	}
	return o.mk(w, a.Signed, topBits(w), 0, hi, o.opaque(op, w, hi, a, b))
}

func (o Ops) Shl(a, s *Int) *Int {
	w := a.W
	m := mask(w)
	k, ok := s.IsConst()
	if !ok {
		return o.mk(w, a.Signed, topBits(w), 0, m, o.opaque("shl", w, m, a, s))
	}
	if k >= uint64(w) {
		return NewConst(w, 0, a.Signed)
	}
	bv := make([]Bit, w)
	for i := 0; i < w; i++ {
		if i < int(k) {
			bv[i] = Bit{K: BZero}
		} else {
			bv[i] = a.Bits[i-int(k)]
		}
	}
	lo, hi := uint64(0), m
	if bitlen(a.Hi)+int(k) <= w {
		lo, hi = a.Lo<<k, a.Hi<<k
	}
	return o.mk(w, a.Signed, bv, lo, hi, linScale(a.Lin, uint64(1)<<k))
}

func (o Ops) Shr(a, s *Int, signed bool) *Int {
	w := a.W
	m := mask(w)
	k, ok := s.IsConst()
	if !ok {
		return o.mk(w, a.Signed, topBits(w), 0, a.Hi, o.opaque("shr", w, a.Hi, a, s))
	}
	signBit := Bit{K: BZero}
	if signed {
		signBit = a.Bits[w-1]
	}
	if k >= uint64(w) {
		k = uint64(w)
	}
	bv := make([]Bit, w)
	for i := 0; i < w; i++ {
		if i+int(k) < w {
			bv[i] = a.Bits[i+int(k)]
		} else {
			bv[i] = signBit
		}
	}
	lo, hi := uint64(0), m
	if signBit.K == BZero {
		if k >= 64 {
			lo, hi = 0, 0
		} else {
			lo, hi = a.Lo>>k, a.Hi>>k
		}
	}
	var lin *Lin
	if k == 0 {
		lin = a.Lin
	} else {
		op := "shr"
		if signed {
			op = "sar"
		}
		lin = o.opaque(fmt.Sprintf("%s%d", op, k), w, hi, a)
	}
	return o.mk(w, a.Signed, bv, lo, hi, lin)
}

// Convert changes width. fromSigned selects sign extension when widening.
func (o Ops) Convert(a *Int, w int, fromSigned, toSigned bool) *Int {
	if w == a.W {
		c := a.clone()
		c.Signed = toSigned
		return c
	}
	if w < a.W {
		m := mask(w)
		bv := append([]Bit(nil), a.Bits[:w]...)
		lo, hi := uint64(0), m
		if a.Hi <= m {
			lo, hi = a.Lo, a.Hi
		} else if a.Lo>>uint(w) == a.Hi>>uint(w) {
			lo, hi = a.Lo&m, a.Hi&m
		}
		lin := linTrunc(a.Lin, w)
		// (x & m) narrowed to w bits is x narrowed when m keeps all of the low w bits
		if len(a.Lin.T) == 1 && a.Lin.C == 0 && a.Lin.T[0].K == 1 {
			// narrowing a zero-extended N-bit quantity to w <= N bits is narrowing the quantity
			if at := a.Lin.T[0].A; strings.HasPrefix(at.Op, "zext") && len(at.Args) == 1 && at.Args[0].W >= w {
				lin = linTrunc(at.Args[0], w)
			}
			if at := a.Lin.T[0].A; at.Op == "and" && len(at.Args) == 2 {
				for i := 0; i < 2; i++ {
					if c, other := at.Args[i], at.Args[1-i]; c.IsConst() && c.C&m == m && other.W >= w {
						lin = linTrunc(other, w)
					}
				}
			}
		}
		return o.mk(w, toSigned, bv, lo, hi, lin)
	}
	// widen
	bv := make([]Bit, w)
	copy(bv, a.Bits)
	ext := Bit{K: BZero}
	if fromSigned {
		ext = a.Bits[a.W-1]
	}
	for i := a.W; i < w; i++ {
		bv[i] = ext
	}
	m := mask(w)
	lo, hi := uint64(0), m
	var lin *Lin
	if ext.K == BZero {
		lo, hi = a.Lo, a.Hi
		// zero extension preserves the form when it cannot wrap at the source width
		if _, h, ok := a.Lin.rangeNoWrap(); ok && h <= mask(a.W) {
			lin = &Lin{W: w, C: a.Lin.C, T: append([]LinTerm(nil), a.Lin.T...)}
		} else {
			lin = o.opaque(fmt.Sprintf("zext%d", a.W), w, a.Hi, a)
		}
	} else {
		// sign extension: the zero-extended value minus 2^N when bit N-1 is set
		sign := o.Convert(o.Shr(a, NewConst(a.W, uint64(a.W-1), false), false), w, false, false)
		zx := o.Convert(a, w, false, false)
		lin = linAdd(zx.Lin, linScale(sign.Lin, (m-mask(a.W))&m), false)
	}
	return o.mk(w, toSigned, bv, lo, hi, lin)
}

// Cmp decides a comparison where the abstract values allow it.
func (o Ops) Cmp(op string, a, b *Int, signed bool) Tri {
	alo, ahi, blo, bhi := a.Lo, a.Hi, b.Lo, b.Hi
	if signed {
		// only decide when both are known non-negative or via equality of forms
		half := mask(a.W) >> 1
		if ahi > half || bhi > half {
			if a.Lin.Key() == b.Lin.Key() {
				switch op {
				case "==", "<=", ">=":
					return TriT
				default:
					return TriF
				}
			}
			// both known negative: same order as unsigned
			if !(alo > half && blo > half) {
				if alo > half && bhi <= half { // a negative, b non-negative
					switch op {
					case "<", "<=", "!=":
						return TriT
					default:
						return TriF
					}
				}
				if blo > half && ahi <= half {
					switch op {
					case ">", ">=", "!=":
						return TriT
					default:
						return TriF
					}
				}
				return TriTop
			}
		}
	}
	same := a.Lin.Key() == b.Lin.Key()
	tri := func(t, f bool) Tri {
		if t {
			return TriT
		}
		if f {
			return TriF
		}
		return TriTop
	}
	// bitwise disequality
	neq := false
	for i := 0; i < a.W && i < b.W; i++ {
		x, y := a.Bits[i], b.Bits[i]
		if (x.K == BZero && y.K == BOne) || (x.K == BOne && y.K == BZero) {
			neq = true
			break
		}
		if _, opp := sameLit(x, y); opp {
			neq = true
			break
		}
	}
	// forms differing by a non-zero constant are unequal
	if d := linAdd(a.Lin, b.Lin, true); d.IsConst() && d.C != 0 {
		neq = true
	}
	switch op {
	case "==":
		return tri(same || (alo == ahi && blo == bhi && alo == blo), neq || ahi < blo || bhi < alo)
	case "!=":
		return tri(neq || ahi < blo || bhi < alo, same || (alo == ahi && blo == bhi && alo == blo))
	case "<":
		return tri(ahi < blo, same || alo >= bhi)
	case "<=":
		return tri(same || ahi <= blo, alo > bhi)
	case ">":
		return tri(alo > bhi, same || ahi <= blo)
	case ">=":
		return tri(same || alo >= bhi, ahi < blo)
	}
	return TriTop
}

// RefineCmp narrows x given that (x op y) evaluated to outcome.
func (o Ops) RefineCmp(op string, x, y *Int, outcome bool, signed bool) *Int {
	if !outcome {
		switch op {
		case "==":
			op = "!="
		case "!=":
			op = "=="
		case "<":
			op = ">="
		case "<=":
			op = ">"
		case ">":
			op = "<="
		case ">=":
			op = "<"
		}
	}
	if signed {
		half := mask(x.W) >> 1
		if x.Hi > half || y.Hi > half {
			if op == "==" {
				// equality refinement is sign-agnostic
			} else {
				return x
			}
		}
	}
	r := x.clone()
	switch op {
	case "==":
		if y.Lo > r.Lo {
			r.Lo = y.Lo
		}
		if y.Hi < r.Hi {
			r.Hi = y.Hi
		}
		if c, ok := y.IsConst(); ok {
			return NewConst(x.W, c, x.Signed)
		}
	case "!=":
		if c, ok := y.IsConst(); ok {
			if r.Lo == c && r.Lo < r.Hi {
				r.Lo++
			}
			if r.Hi == c && r.Hi > r.Lo {
				r.Hi--
			}
		}
	case "<":
		if y.Hi > 0 && y.Hi-1 < r.Hi {
			r.Hi = y.Hi - 1
		}
	case "<=":
		if y.Hi < r.Hi {
			r.Hi = y.Hi
		}
	case ">":
		if y.Lo < mask(x.W) && y.Lo+1 > r.Lo {
			r.Lo = y.Lo + 1
		}
	case ">=":
		if y.Lo > r.Lo {
			r.Lo = y.Lo
		}
	}
	if r.Lo > r.Hi {
		return x // contradictory edge; leave unrefined (edge is dead anyway)
	}
	return r.reduce()
}

// Join is the least upper bound used at control-flow merges.
func (o Ops) Join(a, b *Int) *Int { return o.JoinGated(a, b, "") }

// Gamma is the gated merge ite(cond, t, f): cond is the key of a branch condition
// over atoms, t / f the values on its true / false side. Being a function of runtime
// values it may be hash-consed.
func (o Ops) Gamma(cond string, t, f *Int) *Int {
	if t.Lin.Key() == f.Lin.Key() && t.W == f.W {
		return o.JoinGated(t, f, cond)
	}
	w := t.W
	bv := make([]Bit, w)
	for i := range bv {
		bv[i] = bitJoin(t.Bits[i], f.Bits[i])
	}
	lo, hi := t.Lo, t.Hi
	if f.Lo < lo {
		lo = f.Lo
	}
	if f.Hi > hi {
		hi = f.Hi
	}
	key := "ite[" + cond + "](" + t.Lin.Key() + "|" + f.Lin.Key() + ")"
	a := o.In.Derived(key, w, hi, t.Lin, f.Lin)
	a.IteCond, a.IteT, a.IteF = cond, t.Lin, f.Lin
	return o.mk(w, t.Signed, bv, lo, hi, LinAtom(w, a))
}

// JoinGated is Join with the key of the controlling branch condition recorded in
// the merge atom. Operands keep their order (a from the earlier predecessor).
func (o Ops) JoinGated(a, b *Int, gate string) *Int {
	if a.Lin.Key() == b.Lin.Key() && a.W == b.W {
		r := a.clone()
		if b.Lo < r.Lo {
			r.Lo = b.Lo
		}
		if b.Hi > r.Hi {
			r.Hi = b.Hi
		}
		for i := range r.Bits {
			r.Bits[i] = bitJoin(a.Bits[i], b.Bits[i])
		}
		return r.reduce()
	}
	w := a.W
	bv := make([]Bit, w)
	for i := range bv {
		bv[i] = bitJoin(a.Bits[i], b.Bits[i])
	}
	lo, hi := a.Lo, a.Hi
	if b.Lo < lo {
		lo = b.Lo
	}
	if b.Hi > hi {
		hi = b.Hi
	}
	// a merge of two different computations is a new unknown: two separate merges of
	// the same pair may pick differently, so the atom must not be hash-consed.
	o.In.fresh++
	key := "join#" + itoa(o.In.fresh) + "[" + gate + "](" + a.Lin.Key() + "|" + b.Lin.Key() + ")"
	lin := LinAtom(w, o.In.Derived(key, w, hi, a.Lin, b.Lin))
	return o.mk(w, a.Signed, bv, lo, hi, lin)
}
