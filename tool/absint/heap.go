package absint

import (
	"fmt"
	"go/types"
	"strconv"
	"strings"
)

// Heap maps location keys to abstract values. base is shared and read-only
// (image of package-level tables), local is owned by one state.
type Heap struct {
	base  map[string]Val
	local map[string]Val
}

func NewHeap(base map[string]Val) *Heap {
	return &Heap{base: base, local: map[string]Val{}}
}

func (h *Heap) Fork() *Heap {
	n := &Heap{base: h.base, local: make(map[string]Val, len(h.local)+4)}
	for k, v := range h.local {
		n.local[k] = v
	}
	return n
}

func (h *Heap) get(k string) (Val, bool) {
	if v, ok := h.local[k]; ok {
		return v, true
	}
	v, ok := h.base[k]
	return v, ok
}

func (h *Heap) set(k string, v Val) { h.local[k] = v }

// Local exposes the cells written (or materialised) since the base image.
func (h *Heap) Local() map[string]Val { return h.local }

// Freeze folds local into a fresh base map (used once to build shared images).
func (h *Heap) Freeze() map[string]Val {
	m := make(map[string]Val, len(h.base)+len(h.local))
	for k, v := range h.base {
		m[k] = v
	}
	for k, v := range h.local {
		m[k] = v
	}
	return m
}

type locInfo struct {
	obj  *Obj
	path []Sel
	t    types.Type
}

func locKey(o *Obj, path []Sel) string { return strconv.Itoa(o.ID) + PathKey(path) }

func hasDyn(path []Sel) bool {
	for _, s := range path {
		if s.Dyn != nil {
			return true
		}
	}
	return false
}

// ---------------------------------------------------------------------------
// type helpers

// IntType reports width and signedness of an integer-like type.
func IntType(t types.Type) (w int, signed, ok bool) {
	b, isB := t.Underlying().(*types.Basic)
	if !isB {
		return 0, false, false
	}
	switch b.Kind() {
	case types.Int8:
		return 8, true, true
	case types.Int16:
		return 16, true, true
	case types.Int32, types.UntypedRune:
		return 32, true, true
	case types.Int64, types.Int, types.UntypedInt:
		return 64, true, true
	case types.Uint8:
		return 8, false, true
	case types.Uint16:
		return 16, false, true
	case types.Uint32:
		return 32, false, true
	case types.Uint64, types.Uint, types.Uintptr:
		return 64, false, true
	}
	return 0, false, false
}

func isBoolType(t types.Type) bool {
	b, ok := t.Underlying().(*types.Basic)
	return ok && b.Info()&types.IsBoolean != 0
}

func isStringType(t types.Type) bool {
	b, ok := t.Underlying().(*types.Basic)
	return ok && b.Info()&types.IsString != 0
}

// ---------------------------------------------------------------------------
// objects, defaults, load/store

func (ip *Interp) newObj(kind ObjKind, name string, t types.Type) *Obj {
	o := &Obj{ID: len(ip.objs), Kind: kind, Name: name, T: t}
	ip.objs = append(ip.objs, o)
	return o
}

// SymObj returns the memoized symbolic object called name.
func (ip *Interp) SymObj(name string, t types.Type) *Obj {
	if o, ok := ip.symObjs[name]; ok {
		return o
	}
	o := ip.newObj(ObjSym, name, t)
	ip.symObjs[name] = o
	return o
}

func (ip *Interp) GlobalObj(name string, t types.Type) *Obj {
	if o, ok := ip.symObjs["global:"+name]; ok {
		return o
	}
	o := ip.newObj(ObjGlobal, name, t)
	ip.symObjs["global:"+name] = o
	return o
}

func (ip *Interp) zero(t types.Type) Val {
	if w, s, ok := IntType(t); ok {
		return NewConst(w, 0, s)
	}
	switch u := t.Underlying().(type) {
	case *types.Basic:
		if isBoolType(t) {
			return &Bool{K: TriF}
		}
		if isStringType(t) {
			return &Str{Known: true}
		}
		return &Top{T: t, Key: "zero"}
	case *types.Pointer:
		return &Ptr{Nil: TriT, T: u.Elem()}
	case *types.Slice:
		return &Slice{Nil: TriT, ElemT: u.Elem(), Off: NewConst(64, 0, true), Len: NewConst(64, 0, true), Cap: NewConst(64, 0, true)}
	case *types.Struct:
		s := &Struct{T: u}
		for i := 0; i < u.NumFields(); i++ {
			s.F = append(s.F, ip.zero(u.Field(i).Type()))
		}
		return s
	case *types.Array:
		if u.Len() > maxAggLeaves {
			return &Top{T: t, Key: "zero"}
		}
		a := &Array{T: u}
		for i := int64(0); i < u.Len(); i++ {
			a.E = append(a.E, ip.zero(u.Elem()))
		}
		return a
	}
	return &Top{T: t, Key: "nil"} // func, interface, map, chan: nil
}

const maxAggLeaves = 4096

// entry synthesises the unknown initial contents of a leaf cell of a symbolic object.
func (ip *Interp) entry(name string, t types.Type) Val {
	if w, s, ok := IntType(t); ok {
		hi := mask(w)
		if ip.EntryBound != nil {
			if b, ok := ip.EntryBound(name, t); ok {
				hi = b
			}
		}
		return NewSym(w, ip.In.Atom(name, w, hi), s)
	}
	switch u := t.Underlying().(type) {
	case *types.Basic:
		if isBoolType(t) {
			return &Bool{K: TriTop, Key: name}
		}
		if isStringType(t) {
			return &Str{Key: name}
		}
	case *types.Pointer:
		return &Ptr{Nil: TriF, Obj: ip.SymObj("*"+name, u.Elem()), T: u.Elem()}
	case *types.Slice:
		l := NewSym(64, ip.In.Atom("len("+name+")", 64, 1<<40), true)
		c := NewSym(64, ip.In.Atom("cap("+name+")", 64, 1<<40), true)
		arr := types.NewArray(u.Elem(), 1<<40)
		return &Slice{Nil: TriTop, Base: Ptr{Nil: TriF, Obj: ip.SymObj("["+name+"]", arr), T: arr}, Off: NewConst(64, 0, true), Len: l, Cap: c, ElemT: u.Elem()}
	}
	return &Top{T: t, Key: name}
}

func (ip *Interp) defaultAt(o *Obj, path []Sel, t types.Type) Val {
	if o.Kind == ObjFresh {
		return ip.zero(t)
	}
	// a package-level variable of a package whose initialiser has been interpreted: what the initialiser did not
	// store is the zero value (composite literals are built in place, elements not listed are never stored)
	if o.Kind == ObjGlobal && len(ip.ZeroGlobalPkgs) > 0 {
		if i := strings.LastIndex(o.Name, "."); i > 0 && ip.ZeroGlobalPkgs[o.Name[:i]] {
			return ip.zero(t)
		}
	}
	return ip.entry(o.Name+PrettyPath(o.T, path), t)
}

// typeAtPath follows an access path through a type.
func typeAtPath(t types.Type, path []Sel) types.Type {
	for _, s := range path {
		if t == nil {
			return nil
		}
		switch u := t.Underlying().(type) {
		case *types.Struct:
			if s.Field < 0 || s.Field >= u.NumFields() {
				return nil
			}
			t = u.Field(s.Field).Type()
		case *types.Array:
			t = u.Elem()
		case *types.Slice:
			t = u.Elem()
		default:
			return nil
		}
	}
	return t
}

// PrettyPath renders an access path with field names where the object's type is known.
func PrettyPath(t types.Type, path []Sel) string {
	var sb []byte
	for _, s := range path {
		switch {
		case s.Field >= 0:
			name := "f" + strconv.Itoa(s.Field)
			if t != nil {
				if st, ok := t.Underlying().(*types.Struct); ok && s.Field < st.NumFields() {
					name = st.Field(s.Field).Name()
					t = st.Field(s.Field).Type()
				} else {
					t = nil
				}
			}
			sb = append(sb, '.')
			sb = append(sb, name...)
		default:
			if s.Index >= 0 {
				sb = append(sb, '[')
				sb = append(sb, strconv.Itoa(s.Index)...)
				sb = append(sb, ']')
			} else {
				sb = append(sb, '[')
				sb = append(sb, s.Dyn.Lin.Key()...)
				sb = append(sb, ']')
			}
			if t != nil {
				switch u := t.Underlying().(type) {
				case *types.Array:
					t = u.Elem()
				case *types.Slice:
					t = u.Elem()
				default:
					t = nil
				}
			}
		}
	}
	return string(sb)
}

func isAggregate(t types.Type) bool {
	switch t.Underlying().(type) {
	case *types.Struct, *types.Array:
		return true
	}
	return false
}

func appendSel(p []Sel, s Sel) []Sel {
	n := make([]Sel, len(p)+1)
	copy(n, p)
	n[len(p)] = s
	return n
}

// Load reads the value of type t at p.
func (ip *Interp) Load(st *State, p *Ptr, t types.Type) Val {
	if p.Nil == TriT || p.Obj == nil {
		ip.Imprecise("load through nil/unknown pointer")
		return ip.topOf(t, "load-unknown")
	}
	switch u := t.Underlying().(type) {
	case *types.Struct:
		s := &Struct{T: u}
		for i := 0; i < u.NumFields(); i++ {
			s.F = append(s.F, ip.Load(st, &Ptr{Obj: p.Obj, Path: appendSel(p.Path, Sel{Field: i, Index: -1}), T: u.Field(i).Type()}, u.Field(i).Type()))
		}
		return s
	case *types.Array:
		if u.Len() > maxAggLeaves {
			return &Top{T: t, Key: "bigarray:" + p.Obj.Name + PathKey(p.Path)}
		}
		a := &Array{T: u}
		for i := 0; i < int(u.Len()); i++ {
			a.E = append(a.E, ip.Load(st, &Ptr{Obj: p.Obj, Path: appendSel(p.Path, Sel{Field: -1, Index: i}), T: u.Elem()}, u.Elem()))
		}
		return a
	}
	if hasDyn(p.Path) {
		return ip.loadDyn(st, p, t)
	}
	k := locKey(p.Obj, p.Path)
	if v, ok := st.Heap.get(k); ok {
		return v
	}
	// an element of a dispatch table (array of functions / interfaces) of a
	// pre-existing object is a slot, whether the index is constant or not
	if n := len(p.Path); n > 0 && p.Path[n-1].Field < 0 && p.Path[n-1].Index >= 0 && p.Obj.Kind == ObjSym {
		switch t.Underlying().(type) {
		case *types.Signature, *types.Interface:
			return &Slot{Table: Ptr{Obj: p.Obj, Path: p.Path[:n-1]}, Index: NewConst(64, uint64(p.Path[n-1].Index), true), T: t}
		}
	}
	v := ip.defaultAt(p.Obj, p.Path, t)
	if _, seen := ip.locs[k]; !seen {
		ip.locs[k] = locInfo{p.Obj, p.Path, t}
	}
	return v
}

// loadDyn reads through a path with a non-constant index.
func (ip *Interp) loadDyn(st *State, p *Ptr, t types.Type) Val {
	// locate the (single) dynamic selector
	di := -1
	for i, s := range p.Path {
		if s.Dyn != nil {
			if di >= 0 {
				return ip.topOf(t, "load-2dyn")
			}
			di = i
		}
	}
	idx := p.Path[di].Dyn
	if ip.TraceDyn {
		ip.event(Event{Kind: "dyn-load", Args: []Val{idx, &Ptr{Obj: p.Obj, Path: p.Path[:di]}}})
	}
	switch t.Underlying().(type) {
	case *types.Signature, *types.Interface:
		tab := &Ptr{Obj: p.Obj, Path: p.Path[:di], T: nil}
		if di == len(p.Path)-1 {
			return &Slot{Table: *tab, Index: idx, T: t}
		}
	}
	// small known range: join the candidates
	if idx.Hi-idx.Lo < 256 {
		var acc Val
		all := true
		for i := idx.Lo; i <= idx.Hi; i++ {
			path := append([]Sel(nil), p.Path...)
			path[di] = Sel{Field: -1, Index: int(i)}
			k := locKey(p.Obj, path)
			v, ok := st.Heap.get(k)
			if !ok {
				if p.Obj.Kind == ObjFresh {
					v = ip.zero(t)
				} else {
					all = false
					break
				}
			}
			if acc == nil {
				acc = v
			} else {
				acc = ip.JoinVal(acc, v)
			}
		}
		if all && acc != nil {
			return acc
		}
	}
	// an unknown cell: identified by object, index term and the store epoch, so that
	// two reads of the same cell without an intervening store are the same value
	if w, sg, ok := IntType(t); ok {
		// element type of the indexed array/slice, to name the fields below it
		var et types.Type
		if p.Obj.T != nil {
			et = typeAtPath(p.Obj.T, p.Path[:di+1])
		}
		key := fmt.Sprintf("mem%d(%s%s)[%s]%s", ip.storeEpoch, p.Obj.Name, PrettyPath(p.Obj.T, p.Path[:di]), idx.Lin.Key(), PrettyPath(et, p.Path[di+1:]))
		return NewSym(w, ip.In.Atom(key, w, mask(w)), sg) // memory content: a base unknown of its own
	}
	if isStringType(t) {
		// a string cell keeps the identity of where it was read from (what is rendered can be traced to it)
		var et types.Type
		if p.Obj.T != nil {
			et = typeAtPath(p.Obj.T, p.Path[:di+1])
		}
		return &Str{Key: fmt.Sprintf("mem%d(%s%s)[%s]%s", ip.storeEpoch, p.Obj.Name, PrettyPath(p.Obj.T, p.Path[:di]), idx.Lin.Key(), PrettyPath(et, p.Path[di+1:]))}
	}
	return ip.topOf(t, "load["+idx.Lin.Key()+"]"+p.Obj.Name+PathKey(p.Path[:di]))
}

// Store writes v of type t at p.
func (ip *Interp) Store(st *State, p *Ptr, t types.Type, v Val) {
	ip.storeEpoch++
	if p.Nil == TriT || p.Obj == nil {
		ip.Imprecise("store through nil/unknown pointer")
		return
	}
	switch u := t.Underlying().(type) {
	case *types.Struct:
		sv, ok := v.(*Struct)
		for i := 0; i < u.NumFields(); i++ {
			var fv Val
			if ok && i < len(sv.F) {
				fv = sv.F[i]
			} else {
				fv = ip.topOf(u.Field(i).Type(), "store-agg")
			}
			ip.Store(st, &Ptr{Obj: p.Obj, Path: appendSel(p.Path, Sel{Field: i, Index: -1})}, u.Field(i).Type(), fv)
		}
		return
	case *types.Array:
		av, ok := v.(*Array)
		if !ok || u.Len() > maxAggLeaves {
			ip.Imprecise(fmt.Sprintf("store of unknown/big array to %s%s", p.Obj.Name, PathKey(p.Path)))
			return
		}
		for i := 0; i < int(u.Len()); i++ {
			ip.Store(st, &Ptr{Obj: p.Obj, Path: appendSel(p.Path, Sel{Field: -1, Index: i})}, u.Elem(), av.E[i])
		}
		return
	}
	if hasDyn(p.Path) {
		if ip.TraceDyn {
			for di, sl := range p.Path {
				if sl.Dyn != nil {
					ip.event(Event{Kind: "dyn-store", Args: []Val{sl.Dyn, &Ptr{Obj: p.Obj, Path: p.Path[:di]}, v}, GuardL: ip.GuardList(st), Guards: ip.Guards(st)})
				}
			}
			return
		}
		if ip.Hooks.DynStore != nil && ip.Hooks.DynStore(ip, st, p, t, v) {
			return
		}
		ip.Imprecise(fmt.Sprintf("store through dynamic index into %s%s", p.Obj.Name, PathKey(p.Path)))
		return
	}
	k := locKey(p.Obj, p.Path)
	if _, seen := ip.locs[k]; !seen {
		ip.locs[k] = locInfo{p.Obj, p.Path, t}
	}
	st.Heap.set(k, v)
	for _, h := range ip.curLoops {
		if n, ok := ip.headerObjs[h]; ok && p.Obj.ID >= n {
			continue // allocated inside this loop: new in every iteration, carries nothing across
		}
		w := ip.loopWritten[h]
		if w == nil {
			w = map[string]bool{}
			ip.loopWritten[h] = w
		}
		if !w[k] {
			w[k] = true
			ip.loopChanged = true
		}
	}
	if ip.TraceStores {
		ip.seq++
		ip.Stores = append(ip.Stores, StoreEvent{Seq: ip.seq, Key: k, Obj: p.Obj, Path: p.Path, V: v, Fn: ip.curFn(), Pos: ip.curPos, GuardL: ip.PathGuardList(st)})
	}
}

func (ip *Interp) topOf(t types.Type, why string) Val {
	if w, s, ok := IntType(t); ok {
		return NewTopInt(ip.In, w, s, why)
	}
	if isBoolType(t) {
		return &Bool{K: TriTop}
	}
	switch u := t.Underlying().(type) {
	case *types.Struct:
		s := &Struct{T: u}
		for i := 0; i < u.NumFields(); i++ {
			s.F = append(s.F, ip.topOf(u.Field(i).Type(), why))
		}
		return s
	case *types.Tuple:
		tp := &Tuple{}
		for i := 0; i < u.Len(); i++ {
			tp.E = append(tp.E, ip.topOf(u.At(i).Type(), why))
		}
		return tp
	case *types.Slice:
		ip.fresh++
		name := fmt.Sprintf("topslice:%s#%d", why, ip.fresh)
		return ip.entry(name, t)
	}
	return &Top{T: t, Key: ""}
}

// JoinVal is the least upper bound of two values of the same type.
func (ip *Interp) JoinVal(a, b Val) Val {
	if a == b {
		return a
	}
	switch x := a.(type) {
	case *Int:
		if y, ok := b.(*Int); ok && x.W == y.W {
			if ip.gateExact {
				if ip.gateSwap {
					return ip.Ops.Gamma(ip.gate, y, x)
				}
				return ip.Ops.Gamma(ip.gate, x, y)
			}
			return ip.Ops.JoinGated(x, y, ip.gate)
		}
	case *Bool:
		if y, ok := b.(*Bool); ok {
			if x.K == y.K && x.K != TriTop {
				return x
			}
			if x.K == TriTop && y.K == TriTop && x.Key != "" && x.Key == y.Key && x.Neg == y.Neg {
				return x
			}
			// a constant on one side and a condition on the other of a named branch:
			// `a && b` (false where a fails, b where it holds), `a || b` likewise
			if ip.gateExact && (x.K == TriTop) != (y.K == TriTop) {
				if g := ip.In.Conds[ip.gate]; g != nil {
					cst, other, cstOnTrue := x, y, !ip.gateSwap
					if y.K != TriTop {
						cst, other, cstOnTrue = y, x, ip.gateSwap
					}
					if other.Cmp != nil || other.Key != "" || len(other.Conj) > 0 {
						gg := *g
						gg.K = TriTop
						if cstOnTrue {
							gg.Neg = !gg.Neg // the condition under which `other` is the value
						}
						// value = gg ? other : cst
						flat := func(b *Bool) []*Bool {
							if len(b.Conj) > 0 && !b.Neg {
								return b.Conj
							}
							return []*Bool{b}
						}
						neg := func(b *Bool) *Bool { c := *b; c.Neg = !c.Neg; return &c }
						if cst.K == TriF {
							// gg && other
							return &Bool{K: TriTop, Conj: append(append([]*Bool{}, flat(&gg)...), flat(other)...)}
						}
						// !gg || other  =  !(gg && !other)
						return &Bool{K: TriTop, Neg: true, Conj: append(append([]*Bool{}, flat(&gg)...), flat(neg(other))...)}
					}
				}
			}
			// true on one side and false on the other of a named branch: the result
			// is that branch's condition itself (or its negation)
			if ip.gateExact && x.K != TriTop && y.K != TriTop && x.K != y.K {
				if g := ip.In.Conds[ip.gate]; g != nil {
					r := *g
					r.K = TriTop
					r.Neg = (x.K == TriF) != ip.gateSwap
					return &r
				}
			}
			return &Bool{K: TriTop}
		}
	case *Ptr:
		if y, ok := b.(*Ptr); ok {
			if x.Nil == y.Nil && x.Obj == y.Obj && PathKey(x.Path) == PathKey(y.Path) {
				return x
			}
			return &Ptr{Nil: TriTop, T: x.T}
		}
	case *Struct:
		if y, ok := b.(*Struct); ok && len(x.F) == len(y.F) {
			s := &Struct{T: x.T}
			for i := range x.F {
				s.F = append(s.F, ip.JoinVal(x.F[i], y.F[i]))
			}
			return s
		}
	case *Array:
		if y, ok := b.(*Array); ok && len(x.E) == len(y.E) {
			s := &Array{T: x.T}
			for i := range x.E {
				s.E = append(s.E, ip.JoinVal(x.E[i], y.E[i]))
			}
			return s
		}
	case *Tuple:
		if y, ok := b.(*Tuple); ok && len(x.E) == len(y.E) {
			s := &Tuple{}
			for i := range x.E {
				s.E = append(s.E, ip.JoinVal(x.E[i], y.E[i]))
			}
			return s
		}
	case *Slice:
		if y, ok := b.(*Slice); ok {
			if ValKey(x) == ValKey(y) && x.Nil == y.Nil {
				return x
			}
			nilness := x.Nil
			if y.Nil != nilness {
				nilness = TriTop
			}
			if ValKey(&x.Base) == ValKey(&y.Base) {
				return &Slice{Nil: nilness, Base: x.Base, Off: ip.Ops.Join(x.Off, y.Off), Len: ip.Ops.Join(x.Len, y.Len), Cap: ip.Ops.Join(x.Cap, y.Cap), ElemT: x.ElemT}
			}
			return ip.topOf(types.NewSlice(x.ElemT), "join")
		}
	case *Str:
		if y, ok := b.(*Str); ok {
			if x.Known && y.Known && x.S == y.S {
				return x
			}
			if !x.Known && !y.Known && x.Key != "" && x.Key == y.Key {
				return x
			}
			return &Str{}
		}
	case *Func:
		if y, ok := b.(*Func); ok && x.Fn == y.Fn && len(x.Bind) == 0 && len(y.Bind) == 0 {
			return x
		}
	case *Iface:
		if y, ok := b.(*Iface); ok && ValKey(x) == ValKey(y) && types.Identical(x.Dyn, y.Dyn) {
			return x
		}
	case *Top:
		if y, ok := b.(*Top); ok && x.Key != "" && x.Key == y.Key && x.NilIf == nil && y.NilIf == nil {
			return x
		}
		// nil on one side and non-nil on the other of a named branch
		if y, ok := b.(*Top); ok && ip.gateExact {
			nx, ny := ip.nilness(x), ip.nilness(y)
			if g := ip.In.Conds[ip.gate]; g != nil && nx != TriTop && ny != TriTop && nx != ny {
				c := *g
				c.K = TriTop
				// x comes from the true side unless swapped; the value is nil on x's side iff nx
				c.Neg = (nx == TriF) != ip.gateSwap
				t := x.T
				if t == nil {
					t = y.T
				}
				return &Top{T: t, Key: "ite[" + ip.gate + "](" + x.Key + "|" + y.Key + ")", NilIf: &c}
			}
		}
		return &Top{T: x.T}
	case *Slot:
		if y, ok := b.(*Slot); ok && ValKey(x) == ValKey(y) {
			return x
		}
	}
	var t types.Type
	switch x := a.(type) {
	case *Top:
		t = x.T
	case *Iface:
		return &Top{}
	case *Func:
		return &Top{}
	}
	return &Top{T: t}
}

// joinHeaps merges b into a copy of a.
func (ip *Interp) joinHeaps(a, b *Heap) *Heap {
	r := a.Fork()
	lookup := func(h *Heap, k string) Val {
		if v, ok := h.get(k); ok {
			return v
		}
		li, ok := ip.locs[k]
		if !ok {
			return &Top{}
		}
		return ip.defaultAt(li.obj, li.path, li.t)
	}
	for k, bv := range b.local {
		av := lookup(a, k)
		if av == bv {
			continue
		}
		r.local[k] = ip.JoinVal(av, bv)
	}
	for k, av := range a.local {
		if _, ok := b.local[k]; ok {
			continue
		}
		bv := lookup(b, k)
		if av == bv {
			continue
		}
		r.local[k] = ip.JoinVal(av, bv)
	}
	return r
}
