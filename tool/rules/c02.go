package rules

import (
	"fmt"
	"go/constant"
	"go/types"
	"sort"
	"strings"

	"verif/tool/absint"
)

func init() { register("C02", "other", C02) }

// fields of one package that have no counterpart by design (debug latches, callbacks)
var c02IgnoreFields = map[string]string{
	"Bus.M": "cpualt's last-data latch: not part of registers/flags/memory/cycles",
	"Bus":   "bus handle (pointer vs value)",
	"OnPC":  "callback table; cpualt never consults it",
	"OnWDM": "callback",
}

func C02(ctx *Ctx) {
	R := ctx.R
	R.Explanation = "Sufficient condition for lock-step equivalence: (1) tables: the two opcode tables (read out of the interpreted initialisers) agree entry by entry on opcode, name, mode value, size, cycles and on a consistent bijection of routines; the four cycle-adjustment tables agree element by element; the addressing-mode constants have equal values. (2) congruent: Step of both packages is abstractly interpreted in the same 12288 cells (opcode x M,X,E x interrupt) over identically named entry symbols; merges are exact gated terms ite(cond,a,b); the two abstract transformers must agree: return value, every same-named CPU field at return and at the dispatch call, the ordered bus-access trace (kind, address, datum, branch outcomes in force over the call stack) and the calls leaving the module. Two values agree when their terms are identical or, failing that, when both re-evaluate to the same merge-free term on every path through their gating conditions (0/1 values: the same boolean function of canonical propositions bit/zero/eq/lt), so an `if` replaced by a shift or a flag test written the other way round is not a difference. No compared value may contain a merge whose condition the interpreter could not name. Declared asymmetries: the OnPC prologue of cpu65c816.Step (lookup + user callback, writes no CPU state) and the debug latches Bus.EA/Bus.Write/Bus.M."
	R.Trusted = []string{"go/packages + go/ssa", "absint: values are hash-consed terms over entry symbols, bus reads rd<epoch>[addr] and exact gated merges, so equal keys denote equal runtime values", "whole bus mapped (nil-backend arms pruned)", "user callbacks do not modify the CPU"}
	R.Rule("tables", "opcode tables, cycle tables and mode constants of the two packages agree")
	R.Rule("congruent", "for every cell the two Step functions have the same abstract result: return value, CPU fields, dispatch-time fields, the trace of bus accesses (kind, address, datum, branch outcomes in force) and the calls leaving the module; values are the same when their terms are, or when they are the same function of the entry symbols after normalisation (gated merges resolved path by path, flags as boolean functions of canonical propositions); every merge in a compared value is exact")
	R.Rule("api", "the other exported methods the two CPU types share (Reset, TriggerIRQ, SetFlags, Flags, ...) have the same abstract effect for every width setting: result, CPU fields, bus accesses")
	sw := cpuSweep(ctx)
	A, B := sw.Models[cpuRels[0]], sw.Models[cpuRels[1]]
	if A.Err != "" || B.Err != "" {
		R.Fail("tables", "models", "", A.Err+" "+B.Err)
		return
	}
	checkCPUAPI(ctx, A, B)
	// ---- tables
	tOK := true
	routineMap := map[string]string{}
	routineInv := map[string]string{}
	for k := 0; k < 256; k++ {
		a, b := A.Table.E[k], B.Table.E[k]
		key := fmt.Sprintf("opcode-table:%02X", k)
		R.Count("table-entries", 1)
		if !a.Known || !b.Known {
			R.Fail("tables", key, "", "entry not constant in one package")
			tOK = false
			continue
		}
		if a.Opcode != b.Opcode || a.Name != b.Name || a.Mode != b.Mode || a.Size != b.Size || a.Cycles != b.Cycles {
			R.Fail("tables", key, "", fmt.Sprintf("cpu65c816 {%02x %s mode %d size %d cycles %d} vs cpualt {%02x %s mode %d size %d cycles %d}", a.Opcode, a.Name, a.Mode, a.Size, a.Cycles, b.Opcode, b.Name, b.Mode, b.Size, b.Cycles))
			tOK = false
		}
		if a.Proc == nil || b.Proc == nil {
			R.Fail("tables", key+":routine", "", "unresolved routine")
			tOK = false
			continue
		}
		an, bn := a.Proc.Name(), b.Proc.Name()
		if x, ok := routineMap[an]; ok && x != bn {
			R.Fail("tables", key+":routine", "", fmt.Sprintf("%s is paired with %s here and with %s elsewhere", an, bn, x))
			tOK = false
		}
		if x, ok := routineInv[bn]; ok && x != an {
			R.Fail("tables", key+":routine", "", fmt.Sprintf("%s is paired with %s here and with %s elsewhere", bn, an, x))
			tOK = false
		}
		routineMap[an], routineInv[bn] = bn, an
	}
	wA, wB := NewWorld(ctx, cpuRels[0]), NewWorld(ctx, cpuRels[1])
	nTabs := 0
	for _, m := range ctx.Prog.Pkg(cpuRels[0]).Members {
		name := m.Name()
		if g, ok := m.(interface{ Type() types.Type }); ok {
			if p, ok := g.Type().(*types.Pointer); ok {
				if arr, ok := p.Elem().Underlying().(*types.Array); ok && arr.Len() == 256 {
					if _, isInt := arr.Elem().Underlying().(*types.Basic); !isInt {
						continue
					}
					if ctx.Prog.Pkg(cpuRels[1]).Members[name] == nil {
						continue // a table only one interpreter has: its effect is compared by `congruent`, cell by cell
					}
					ta, ea := byteTable(ctx, wA, cpuRels[0], name)
					tb, eb := byteTable(ctx, wB, cpuRels[1], name)
					nTabs++
					if ea != nil || eb != nil {
						R.Fail("tables", "cycle-table:"+name, "", fmt.Sprintf("not readable in both packages: %v %v", ea, eb))
						tOK = false
						continue
					}
					for k := 0; k < 256; k++ {
						if ta[k] != tb[k] {
							R.Fail("tables", fmt.Sprintf("cycle-table:%s[%02X]", name, k), "", fmt.Sprintf("cpu65c816 %d vs cpualt %d", ta[k], tb[k]))
							tOK = false
						}
					}
				}
			}
		}
	}
	R.Count("cycle-tables", nTabs)
	// (no floor: a package may keep these adjustments in another form; their effect on every cell is compared by `congruent`)
	// mode constants by name
	nConst := 0
	sa, sb := ctx.Prog.Pkg(cpuRels[0]).Pkg.Scope(), ctx.Prog.Pkg(cpuRels[1]).Pkg.Scope()
	for _, n := range sa.Names() {
		ca, ok := sa.Lookup(n).(*types.Const)
		if !ok || !strings.HasPrefix(n, "m_") && !strings.HasPrefix(n, "interrupt") {
			continue
		}
		cb, ok := sb.Lookup(n).(*types.Const)
		nConst++
		if !ok {
			R.Fail("tables", "constant:"+n, "", "missing in cpualt")
			tOK = false
			continue
		}
		if !constant.Compare(ca.Val(), 0 /* token.EQL */ +39, cb.Val()) {
			R.Fail("tables", "constant:"+n, "", fmt.Sprintf("cpu65c816 %s vs cpualt %s", ca.Val(), cb.Val()))
			tOK = false
		}
	}
	R.Count("mode-constants", nConst)
	if tOK {
		R.Pass("tables", "all", "", fmt.Sprintf("256 opcode entries, %d routine pairs (bijection), %d cycle tables, %d named constants agree", len(routineMap), nTabs, nConst))
	}
	// ---- congruent
	ra, rb := sw.Results[cpuRels[0]], sw.Results[cpuRels[1]]
	if len(ra) != len(rb) {
		R.Fail("congruent", "cells", "", fmt.Sprintf("%d vs %d cells", len(ra), len(rb)))
		return
	}
	R.Floor("cpu-cells", 2*6144)
	bad := aggMap{}
	nCmp, nSemTotal := 0, 0
	for i := range ra {
		x, y := ra[i], rb[i]
		c := x.Cell
		via := "Step"
		if x.Dispatched != nil {
			via = x.Dispatched.Name()
		}
		diff := func(what, xa, ya string) {
			bad.add(fmt.Sprintf("%s:%s", via, what), c.Opcode, "", fmt.Sprintf("cell %s: cpu65c816 %s | cpualt %s", c, trunc(xa), trunc(ya)))
		}
		nCmp++
		if len(x.Imprec) > 0 || len(y.Imprec) > 0 {
			diff("imprecise", fmt.Sprint(x.Imprec), fmt.Sprint(y.Imprec))
			continue
		}
		if x.Returned != y.Returned {
			diff("returns", fmt.Sprint(x.Returned), fmt.Sprint(y.Returned))
			continue
		}
		// values are equal when their keys are, or when they are the same function of
		// the entry symbols after normalisation (sameTerm)
		nSem := 0
		eqVal := func(vx, vy absint.Val) (bool, string) {
			if absint.ValKey(vx) == absint.ValKey(vy) {
				return true, ""
			}
			ix, okx := vx.(*absint.Int)
			iy, oky := vy.(*absint.Int)
			if okx && oky && ix.Lin != nil && iy.Lin != nil {
				nSem++
				return sameTerm(ix, x.Conds, iy, y.Conds)
			}
			tx, okx2 := vx.(*absint.Tuple)
			ty, oky2 := vy.(*absint.Tuple)
			if okx2 && oky2 && len(tx.E) == len(ty.E) {
				for k := range tx.E {
					if ok, why := eqValRec(tx.E[k], ty.E[k], x.Conds, y.Conds); !ok {
						return false, why
					}
				}
				return true, ""
			}
			return false, ""
		}
		if ok, why := eqVal(x.Ret, y.Ret); !ok {
			diff("result", why+" :: "+absint.ValKey(x.Ret), absint.ValKey(y.Ret))
		}
		inexact := hasInexactMerge(x.Ret) || hasInexactMerge(y.Ret)
		cmpFields := func(tag string, fx, fy map[string]absint.Val) {
			var names []string
			for n := range fx {
				names = append(names, n)
			}
			sort.Strings(names)
			for _, n := range names {
				if _, ign := c02IgnoreFields[n]; ign {
					continue
				}
				vy, ok := fy[n]
				if !ok {
					diff(tag+":"+n, "present", "missing field")
					continue
				}
				if hasInexactMerge(fx[n]) || hasInexactMerge(vy) {
					inexact = true
				}
				if ok, why := eqVal(fx[n], vy); !ok {
					diff(tag+":"+n, why+" :: "+absint.ValKey(fx[n]), absint.ValKey(vy))
				}
			}
			for n := range fy {
				if _, ign := c02IgnoreFields[n]; ign {
					continue
				}
				if _, ok := fx[n]; !ok {
					diff(tag+":"+n, "missing field", "present")
				}
			}
		}
		cmpFields("field", x.Final, y.Final)
		cmpFields("dispatch", x.AtDispatch, y.AtDispatch)
		if len(x.Accesses) != len(y.Accesses) {
			diff("bus-trace:length", fmt.Sprint(len(x.Accesses)), fmt.Sprint(len(y.Accesses)))
		} else {
			for j := range x.Accesses {
				p, q := x.Accesses[j], y.Accesses[j]
				same := p.Write == q.Write
				why := ""
				if same && (p.Addr == nil) != (q.Addr == nil) {
					same = false
				}
				if same && p.Addr != nil {
					same, why = eqVal(p.Addr, q.Addr)
				}
				if same && (p.Data == nil) != (q.Data == nil) {
					same = false
				}
				if same && p.Data != nil {
					same, why = eqVal(p.Data, q.Data)
					if hasInexactMerge(p.Data) || hasInexactMerge(q.Data) {
						inexact = true
					}
				}
				if !same {
					diff(fmt.Sprintf("bus-trace:#%d", j), why+" :: "+accStr(p), accStr(q))
					break
				}
				// the access happens under the same branch outcomes
				if gp, gq := pathCanon(p.Path, x.Conds), pathCanon(q.Path, y.Conds); gp != gq {
					diff(fmt.Sprintf("bus-trace:#%d:condition", j), accStr(p)+" under "+gp, accStr(q)+" under "+gq)
					break
				}
			}
		}
		// calls leaving the module, panics and fatal exits: same kinds in the same order
		ex, ey := effectEvents(x), effectEvents(y)
		if strings.Join(ex, ";") != strings.Join(ey, ";") {
			diff("events", strings.Join(ex, ";"), strings.Join(ey, ";"))
		}
		if inexact {
			diff("inexact-merge", "a compared value merges two computations under a condition the interpreter could not name", "undecided")
		}
		nSemTotal += nSem
	}
	R.Count("semantic-comparisons", nSemTotal)
	R.Count("cells-compared", nCmp)
	for _, k := range bad.keys() {
		g := bad[k]
		R.Fail("congruent", k, g.pos, fmt.Sprintf("opcodes %s (%d cells); e.g. %s", opSet(g.ops), g.n, g.ex))
	}
	// one obligation per routine pair (and one for Step's own paths: interrupts, stop)
	perVia := map[string]int{}
	for i := range ra {
		via := "Step"
		if ra[i].Dispatched != nil {
			via = ra[i].Dispatched.Name()
		}
		perVia[via]++
	}
	badVia := map[string]bool{}
	for k := range bad {
		badVia[strings.SplitN(k, ":", 2)[0]] = true
	}
	var vias []string
	for v := range perVia {
		vias = append(vias, v)
	}
	sort.Strings(vias)
	for _, v := range vias {
		if !badVia[v] {
			R.Pass("congruent", v, "", fmt.Sprintf("%d cells: same abstract transformer in both packages", perVia[v]))
		}
	}
	R.Count("routine-pairs", len(vias))
	R.Floor("routine-pairs", 60)
	R.Analysed["cells"] = "256 opcodes x M,X,E x 3 interrupt states, both packages, compared pairwise"
	R.Analysed["declared_asymmetries"] = c02IgnoreFields
}

func trunc(s string) string {
	if len(s) > 220 {
		return s[:220] + "…"
	}
	return s
}

func accStr(a Access) string {
	k := "R"
	if a.Write {
		k = "W"
	}
	return k + " " + absint.ValKey(a.Addr) + " = " + absint.ValKey(a.Data)
}

// branchKeys lists the undecided branch conditions, without the OnPC prologue.
func branchKeys(r *CellResult) []string {
	var out []string
	for _, b := range r.Branches {
		k := absint.ValKey(b)
		if strings.HasPrefix(k, "lookup#") || strings.HasPrefix(k, "!lookup#") {
			continue // declared asymmetry: `if cb, ok := cpu.OnPC[...]; ok`
		}
		out = append(out, k)
	}
	return out
}

func eqValRec(vx, vy absint.Val, cx, cy map[string]*absint.Bool) (bool, string) {
	if absint.ValKey(vx) == absint.ValKey(vy) {
		return true, ""
	}
	ix, okx := vx.(*absint.Int)
	iy, oky := vy.(*absint.Int)
	if okx && oky && ix.Lin != nil && iy.Lin != nil {
		return sameTerm(ix, cx, iy, cy)
	}
	return false, ""
}

// pathCanon renders a set of branch outcomes as canonical propositions.
func pathCanon(path map[string]bool, conds map[string]*absint.Bool) string {
	bc := &absint.BoolCtx{Conds: conds}
	var out []string
	for k, v := range path {
		if strings.HasPrefix(k, "lookup#") || strings.HasPrefix(k, "!lookup#") {
			continue // declared asymmetry: `if cb, ok := cpu.OnPC[...]; ok`
		}
		e := bc.CondExpr(k)
		if !v {
			e = absint.BNot(e)
		}
		c, _ := e.Canon()
		out = append(out, c)
	}
	sort.Strings(out)
	return strings.Join(out, " & ")
}

// effectEvents lists the events of a cell that have an effect outside the CPU state.
func effectEvents(r *CellResult) []string {
	var out []string
	for _, e := range r.Events {
		switch e.Kind {
		case "panic", "fatal", "ext-call", "unknown-call", "callback":
			if e.Kind == "callback" && strings.HasPrefix(e.Callee, "top:lookup#") {
				continue // declared asymmetry: the OnPC callback of cpu65c816.Step
			}
			out = append(out, e.Kind+":"+e.Callee)
		}
	}
	return out
}

// checkCPUAPI compares, cell by cell (M,X,E fixed, everything else symbolic), the exported methods both CPU types have
// under the same name and with the same parameter types - what a user calls between steps must not tell the two
// interpreters apart either.
func checkCPUAPI(ctx *Ctx, A, B *CPUModel) {
	R := ctx.R
	msA := ctx.Prog.SSA.MethodSets.MethodSet(types.NewPointer(A.Named))
	n := 0
	for i := 0; i < msA.Len(); i++ {
		sel := msA.At(i)
		name := sel.Obj().Name()
		if !sel.Obj().Exported() || name == "Step" || strings.HasPrefix(name, "Disassemble") || strings.HasPrefix(name, "Init") {
			continue
		}
		fa := ctx.Prog.SSA.MethodValue(sel)
		fb := ctx.Prog.Method(B.Rel, "CPU", name)
		if fa == nil || fb == nil || fa.Blocks == nil || fb.Blocks == nil || len(fa.Params) != len(fb.Params) {
			continue
		}
		same := true
		for k := 1; k < len(fa.Params); k++ {
			if !types.Identical(fa.Params[k].Type(), fb.Params[k].Type()) {
				same = false
			}
			if _, _, isInt := absint.IntType(fa.Params[k].Type()); !isInt {
				same = false
			}
		}
		if !same {
			continue
		}
		n++
		pos := ctx.Prog.Pos(fa.Pos())
		msg := ""
		for f := 0; f < 8 && msg == ""; f++ {
			cell := CPUCell{Opcode: 0xEA, M: f & 1, X: f >> 1 & 1, E: f >> 2 & 1, Intr: A.IntrNone, Stopped: -1, Op1: -1, DLZero: -1}
			cb := cell
			cb.Intr = B.IntrNone
			ra, rb := A.RunFn(cell, fa, nil), B.RunFn(cb, fb, nil)
			switch {
			case len(ra.Imprec) > 0 || len(rb.Imprec) > 0:
				msg = fmt.Sprintf("cell %s: not interpretable: %v %v", cell, ra.Imprec, rb.Imprec)
			case ra.Returned != rb.Returned:
				msg = fmt.Sprintf("cell %s: one returns, the other does not", cell)
			}
			if msg != "" {
				break
			}
			cmp := func(what string, x, y absint.Val) {
				if msg != "" || x == nil || y == nil {
					return
				}
				if absint.ValKey(x) == absint.ValKey(y) {
					return
				}
				xi, ok1 := x.(*absint.Int)
				yi, ok2 := y.(*absint.Int)
				if ok1 && ok2 {
					if ok, _ := sameTerm(xi, ra.Conds, yi, rb.Conds); ok {
						return
					}
				}
				msg = fmt.Sprintf("cell %s: %s is %s in %s and %s in %s", cell, what, trunc(fmtVal(x)), relShort(A.Rel), trunc(fmtVal(y)), relShort(B.Rel))
			}
			cmp("the result", ra.Ret, rb.Ret)
			for fname, va := range ra.Final {
				if vb, ok := rb.Final[fname]; ok {
					cmp("field "+fname, va, vb)
				}
			}
			if msg == "" && len(ra.Accesses) != len(rb.Accesses) {
				msg = fmt.Sprintf("cell %s: %d bus accesses in %s, %d in %s", cell, len(ra.Accesses), relShort(A.Rel), len(rb.Accesses), relShort(B.Rel))
			}
			for k := 0; msg == "" && k < len(ra.Accesses); k++ {
				xa, xb := ra.Accesses[k], rb.Accesses[k]
				if xa.Write != xb.Write {
					msg = fmt.Sprintf("cell %s: bus access #%d is a write in one interpreter and a read in the other", cell, k)
				}
				if xa.Addr != nil && xb.Addr != nil {
					cmp(fmt.Sprintf("the address of bus access #%d", k), xa.Addr, xb.Addr)
				}
				if xa.Write && xa.Data != nil && xb.Data != nil {
					cmp(fmt.Sprintf("the datum of bus write #%d", k), xa.Data, xb.Data)
				}
			}
		}
		if msg != "" {
			R.Fail("api", name, pos, msg)
		} else {
			R.Pass("api", name, pos, "same result, fields and bus accesses in both interpreters for every width setting")
		}
	}
	R.Count("shared-api-methods", n)
}
