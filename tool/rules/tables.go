package rules

import (
	"encoding/json"
	"fmt"
	"go/types"
	"os"
	"path/filepath"

	"golang.org/x/tools/go/ssa"

	"verif/tool/absint"
)

// ---------------------------------------------------------------------------
// ISA reference

type isaOp struct {
	Op   string `json:"op"`
	Mn   string `json:"mn"`
	Mode string `json:"mode"`
	Len  int    `json:"len"`
	Dep  string `json:"dep"`
}

type ISA struct {
	Ops [256]isaOp
}

func loadISA(ctx *Ctx) (*ISA, error) {
	b, err := os.ReadFile(filepath.Join(ctx.VerifDir, "ref", "isa65816.json"))
	if err != nil {
		return nil, err
	}
	var doc struct {
		Opcodes []isaOp `json:"opcodes"`
	}
	if err := json.Unmarshal(b, &doc); err != nil {
		return nil, err
	}
	if len(doc.Opcodes) != 256 {
		return nil, fmt.Errorf("isa65816.json has %d opcodes", len(doc.Opcodes))
	}
	isa := &ISA{}
	for i, o := range doc.Opcodes {
		if o.Op != fmt.Sprintf("%02X", i) {
			return nil, fmt.Errorf("isa65816.json entry %d is %s", i, o.Op)
		}
		isa.Ops[i] = o
	}
	return isa, nil
}

// foldedMode maps a canonical mode onto the class the repository's mode constants
// distinguish (documented foldings, DESIGN.md A.1).
func foldedMode(m string) string {
	switch m {
	case "imm16": // PEA is "Immediate, size 3" in the repository
		return "imm8"
	case "(dp)s": // PEI is DP
		return "dp"
	}
	return m
}

func sameMnemonic(repo, ref string) bool {
	return repo == ref || (ref == "jml" && repo == "jmp")
}

// ---------------------------------------------------------------------------
// opcode tables of the two CPU packages, extracted by interpreting the code that
// builds them

type OpEntry struct {
	Opcode, Mode, Size, Cycles uint64
	Known                      bool // the four numeric fields are constants
	Name                       string
	Proc                       *ssa.Function // the routine (method or function), unwrapped from bound-method closures
	ProcVal                    absint.Val
}

type CPUTable struct {
	Rel     string
	E       [256]OpEntry
	Err     string
	Where   string // description of the table's home
	TablePt *absint.Ptr
	ElemT   *types.Struct
	CPUPtr  *absint.Ptr // cpualt: the symbolic CPU the table was built for
	BuildFn *ssa.Function
}

var cpuRels = []string{"emulator/cpu65c816", "emulator/cpualt"}

func isOpTableType(t types.Type) (*types.Struct, bool) {
	a, ok := t.Underlying().(*types.Array)
	if !ok || a.Len() != 256 {
		return nil, false
	}
	st, ok := a.Elem().Underlying().(*types.Struct)
	if !ok {
		return nil, false
	}
	for i := 0; i < st.NumFields(); i++ {
		if _, ok := st.Field(i).Type().Underlying().(*types.Signature); ok {
			return st, true
		}
	}
	return nil, false
}

// cpuStruct finds the CPU type of a package: the named struct with a Step method.
func cpuStruct(ctx *Ctx, rel string) (*types.Named, *ssa.Function) {
	step := ctx.Prog.Method(rel, "CPU", "Step")
	pk := ctx.Prog.Pkg(rel)
	if step == nil || pk == nil {
		return nil, nil
	}
	return pk.Type("CPU").Type().(*types.Named), step
}

// extractTable locates the 256-entry opcode table of package rel by role (a global
// or CPU field of type [256]struct{...func...}) and reads it out of the world.
func extractTable(ctx *Ctx, w *World, rel string) *CPUTable {
	t := &CPUTable{Rel: rel}
	pk := ctx.Prog.Pkg(rel)
	if pk == nil {
		t.Err = "package not found"
		return t
	}
	st := w.NewState()
	// 1. a package-level table
	for _, m := range pk.Members {
		g, ok := m.(*ssa.Global)
		if !ok {
			continue
		}
		if es, ok := isOpTableType(g.Type().(*types.Pointer).Elem()); ok {
			t.TablePt, t.ElemT = w.IP.GlobalPtr(g), es
			t.Where = "global " + g.String()
		}
	}
	// 2. a per-instance table built by a method
	if t.TablePt == nil {
		named, _ := cpuStruct(ctx, rel)
		if named == nil {
			t.Err = "no CPU type"
			return t
		}
		cs := named.Underlying().(*types.Struct)
		fi := -1
		for i := 0; i < cs.NumFields(); i++ {
			if es, ok := isOpTableType(cs.Field(i).Type()); ok {
				fi, t.ElemT = i, es
			}
		}
		if fi < 0 {
			t.Err = "no opcode table found (neither global nor CPU field)"
			return t
		}
		// the builder: the function of the package that stores a whole table value into that field
		var builder *ssa.Function
		for _, fn := range ctx.Prog.AllFuncs() {
			if fn.Pkg != pk {
				continue
			}
			for _, b := range fn.Blocks {
				for _, in := range b.Instrs {
					s, ok := in.(*ssa.Store)
					if !ok {
						continue
					}
					fa, ok := s.Addr.(*ssa.FieldAddr)
					if ok && fa.Field == fi && types.Identical(fa.X.Type(), types.NewPointer(named)) {
						if _, isTab := isOpTableType(s.Val.Type()); isTab {
							builder = fn
						}
					}
				}
			}
		}
		if builder == nil || len(builder.Params) != 1 {
			t.Err = "no builder function storing the opcode table field"
			return t
		}
		t.BuildFn = builder
		cpuObj := w.IP.SymObj("cpu", named)
		t.CPUPtr = &absint.Ptr{Nil: absint.TriF, Obj: cpuObj, T: named}
		w.IP.Reset()
		_, out := w.IP.Call(builder, []absint.Val{t.CPUPtr}, nil, st)
		if out == nil || len(w.IP.Imprec) > 0 {
			t.Err = fmt.Sprintf("table builder %s not interpretable: %v", builder, w.IP.Imprec)
			return t
		}
		st = &absint.State{Heap: out.Heap}
		// fold the built table into the base image so CPU cells can share it
		w.Base = st.Heap.Freeze()
		st = w.NewState()
		t.TablePt = fieldPtr(t.CPUPtr, cs.Field(fi).Type(), fi)
		t.Where = "field " + named.Obj().Name() + "." + cs.Field(fi).Name() + " built by " + builder.String()
	}
	es := t.ElemT
	fOp, fName, fMode, fSize, fCyc, fProc := fieldIndex(es, "opcode"), fieldIndex(es, "name"), fieldIndex(es, "mode"), fieldIndex(es, "size"), fieldIndex(es, "cycles"), fieldIndex(es, "proc")
	if fOp < 0 || fName < 0 || fMode < 0 || fSize < 0 || fCyc < 0 || fProc < 0 {
		t.Err = "opcode table element lacks one of the fields opcode,name,mode,size,cycles,proc"
		return t
	}
	for k := 0; k < 256; k++ {
		ep := elemPtr(t.TablePt, es, k)
		rd := func(f int) absint.Val {
			return w.IP.Load(st, fieldPtr(ep, es.Field(f).Type(), f), es.Field(f).Type())
		}
		e := &t.E[k]
		e.Known = true
		num := func(f int) uint64 {
			if iv, ok := rd(f).(*absint.Int); ok {
				if c, ok := iv.IsConst(); ok {
					return c
				}
			}
			e.Known = false
			return 0
		}
		e.Opcode, e.Mode, e.Size, e.Cycles = num(fOp), num(fMode), num(fSize), num(fCyc)
		if s, ok := rd(fName).(*absint.Str); ok && s.Known {
			e.Name = s.S
		} else {
			e.Known = false
		}
		e.ProcVal = rd(fProc)
		if f, ok := e.ProcVal.(*absint.Func); ok {
			if fn, ok := f.Fn.(*ssa.Function); ok {
				e.Proc = unwrapBound(ctx, fn)
			}
		}
	}
	return t
}

// unwrapBound returns the method behind a bound-method closure wrapper.
func unwrapBound(ctx *Ctx, fn *ssa.Function) *ssa.Function {
	if fn.Synthetic != "" && fn.Object() != nil {
		if f, ok := fn.Object().(*types.Func); ok {
			if m := ctx.Prog.SSA.FuncValue(f); m != nil {
				return m
			}
		}
	}
	return fn
}

// byteTable reads a [256]byte global.
func byteTable(ctx *Ctx, w *World, rel, name string) ([256]uint64, error) {
	var out [256]uint64
	p, g, err := w.GlobalPtr(ctx, rel, name)
	if err != nil {
		return out, err
	}
	arr, ok := g.Type().(*types.Pointer).Elem().Underlying().(*types.Array)
	if !ok || arr.Len() != 256 {
		return out, fmt.Errorf("%s.%s is not a [256] table", rel, name)
	}
	st := w.NewState()
	for k := 0; k < 256; k++ {
		v, ok := w.IP.Load(st, elemPtr(p, arr.Elem(), k), arr.Elem()).(*absint.Int)
		if !ok {
			return out, fmt.Errorf("%s.%s[%d] is not an integer", rel, name, k)
		}
		c, ok := v.IsConst()
		if !ok {
			return out, fmt.Errorf("%s.%s[%d] is not a constant (%s)", rel, name, k, v)
		}
		out[k] = c
	}
	return out, nil
}
