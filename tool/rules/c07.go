package rules

import (
	"fmt"
	"go/types"

	"golang.org/x/tools/go/ssa"

	"verif/tool/absint"
)

func init() { register("C07", "other", C07) }

// evalBit evaluates an abstract bit whose only literals are bits of atom `a`, at a = c.
func evalBit(b absint.Bit, a *absint.Atom, c uint64) (int, bool) {
	switch b.K {
	case absint.BZero:
		return 0, true
	case absint.BOne:
		return 1, true
	case absint.BLit:
		if b.A != a {
			return 0, false
		}
		v := int(c >> b.Idx & 1)
		if b.Neg {
			v ^= 1
		}
		return v, true
	}
	return 0, false
}

func C07(ctx *Ctx) {
	R := ctx.R
	R.Explanation = "Inductive invariant 'emitter address = CPU PC and tracked widths = CPU M/X' over straight-line programs; each instruction contributes static step obligations. length: for every emitting method and every tracked-width cell in which it is accepted, the number of bytes it emits equals the length both CPU packages decode for that opcode under M,X equal to the tracked widths (value of stepPC at the dispatch call of the Step cell, E=0). guard-exact: a method is refused exactly in the cells where its operand size disagrees with the tracked width. tracker: for REP/SEP and every operand byte 0..255 and every (M,X), the CPU's resulting M,X (Step cell with the operand byte fixed) equal the tracked bits computed by the Emitter (abstract bits of the tracker after the method, evaluated at that operand), and AssumeREP/AssumeSEP compute the same function. no-other-writer: no other emitting method changes the tracker, and no other emittable opcode except PLP/RTI changes M or X in the CPU."
	R.Trusted = []string{"go/packages + go/ssa", "absint", "ref/isa65816.json", "P-register layout: bit 5 = M, bit 4 = X", "base case and absence of taken control transfers / flag restores are hypotheses of the property"}
	R.Rule("length", "bytes emitted by a method in an accepted cell = length decoded by Step of both CPU packages for that opcode with M,X = tracked widths (E=0)")
	R.Rule("guard-exact", "a method is refused exactly when the operand size it emits differs from what the CPU decodes under the tracked widths")
	R.Rule("tracker", "REP/SEP: for all operand bytes and widths the Emitter's tracked M,X bits after the method equal the CPU's M,X after executing it; AssumeREP/AssumeSEP agree with REP/SEP")
	R.Rule("no-other-writer", "only REP/SEP/AssumeREP/AssumeSEP change the tracker; no emittable opcode other than REP, SEP, PLP, RTI changes the CPU's M or X")
	isa, err := loadISA(ctx)
	if err != nil {
		R.Fail("length", "reference", "", err.Error())
		return
	}
	ems, roles := emitAll(ctx)
	if len(roles.Err) > 0 {
		for _, e := range roles.Err {
			R.Fail("length", "roles:"+e, "", e)
		}
		return
	}
	sw := cpuSweep(ctx)
	R.Floor("emitting-methods", 80)
	// index CPU results: (rel, opcode, M, X) with E=0 and no interrupt
	type ck struct {
		rel        string
		op, mm, xx int
	}
	idx := map[ck]*CellResult{}
	for _, rel := range cpuRels {
		if sw.Models[rel].Err != "" {
			R.Fail("length", relShort(rel)+":model", "", sw.Models[rel].Err)
			return
		}
		for _, r := range sw.Results[rel] {
			if r.Cell.E == 0 && r.Cell.IntrIdx == 0 {
				idx[ck{rel, r.Cell.Opcode, r.Cell.M, r.Cell.X}] = r
			}
		}
	}
	b2i := func(b bool) int {
		if b {
			return 1
		}
		return 0
	}
	var repM, sepM *emitting
	emittable := map[int]string{}
	for _, e := range ems {
		name := e.Fn.Name()
		pos := ctx.Prog.Pos(e.Fn.Pos())
		if e.K == 0 || e.Opcode < 0 {
			continue
		}
		R.Count("emitting-methods", 1)
		emittable[e.Opcode] = name
		ref := isa.Ops[e.Opcode]
		switch ref.Mn {
		case "rep":
			repM = e
		case "sep":
			sepM = e
		}
		lenErr, guardErr, trkErr := "", "", ""
		for _, r := range e.Runs {
			m, x := b2i(r.Cell.M8), b2i(r.Cell.X8)
			refused := len(r.refusals()) > 0
			var dec [2]int
			for i, rel := range cpuRels {
				cr := idx[ck{rel, e.Opcode, m, x}]
				dec[i] = -1
				if cr != nil {
					if v, ok := cr.AtDispatch["stepPC"].(*absint.Int); ok {
						if c, ok := v.IsConst(); ok {
							dec[i] = int(c)
						}
					}
				}
			}
			for i, rel := range cpuRels {
				if dec[i] < 0 {
					lenErr = fmt.Sprintf("cell %s: %s does not decode a constant length for $%02X", r.Cell, relShort(rel), e.Opcode)
				} else if !refused && dec[i] != e.K {
					lenErr = fmt.Sprintf("cell %s: emits %d bytes but %s.Step decodes $%02X as %d bytes with M=%d X=%d", r.Cell, e.K, relShort(rel), e.Opcode, dec[i], m, x)
				}
				if dec[i] >= 0 && refused != (dec[i] != e.K) {
					if refused {
						guardErr = fmt.Sprintf("cell %s: refused although %s decodes exactly the %d bytes the method would emit", r.Cell, relShort(rel), e.K)
					} else {
						guardErr = fmt.Sprintf("cell %s: accepted although %s decodes %d bytes, not %d", r.Cell, relShort(rel), dec[i], e.K)
					}
				}
			}
			if r.Returned && ref.Mn != "rep" && ref.Mn != "sep" {
				if absint.ValKey(r.Final[roles.Tracker]) != absint.ValKey(r.Entry[roles.Tracker]) {
					trkErr = fmt.Sprintf("cell %s: tracker changes from %s to %s", r.Cell, absint.ValKey(r.Entry[roles.Tracker]), absint.ValKey(r.Final[roles.Tracker]))
				}
			}
		}
		rep := func(rule, msg, okmsg string) {
			if msg != "" {
				R.Fail(rule, name, pos, msg)
			} else {
				R.Pass(rule, name, pos, okmsg)
			}
		}
		rep("length", lenErr, fmt.Sprintf("K=%d equals the decoded length of $%02X in every accepted cell, both packages", e.K, e.Opcode))
		rep("guard-exact", guardErr, "refused exactly on width mismatch")
		if ref.Mn != "rep" && ref.Mn != "sep" {
			rep("no-other-writer", trkErr, "tracker untouched")
		}
	}
	// every other (non-emitting) method of the Emitter: the tracker is not in its modification set
	{
		ms := newModSets(ctx)
		emitNames := map[string]bool{}
		for _, e := range ems {
			if e.K > 0 && e.Opcode >= 0 {
				emitNames[e.Fn.Name()] = true
			}
		}
		for _, m := range roles.Methods {
			n := m.Name()
			if emitNames[n] || n == "AssumeREP" || n == "AssumeSEP" {
				continue
			}
			if n == "Append" {
				// Append adopts the widths of the appended emitter, which carried on from this one's (C16)
				continue
			}
			R.Count("non-emitting-methods", 1)
			fields, _ := ms.FieldsOfParam(m, 0, roles.Named)
			if es := fields[roles.Tracker]; len(es) > 0 {
				R.Fail("no-other-writer", "method:"+n, ctx.Prog.Pos(m.Pos()), "changes the tracked widths: "+effectList(ctx, es))
			} else {
				R.Pass("no-other-writer", "method:"+n, ctx.Prog.Pos(m.Pos()), "tracker not in the modification set")
			}
		}
		R.Floor("non-emitting-methods", 10)
	}
	// CPU side of no-other-writer
	for _, rel := range cpuRels {
		bad := aggMap{}
		for op, name := range emittable {
			mn := isa.Ops[op].Mn
			if mn == "rep" || mn == "sep" || mn == "plp" || mn == "rti" {
				continue
			}
			for mm := 0; mm < 2; mm++ {
				for xx := 0; xx < 2; xx++ {
					r := idx[ck{rel, op, mm, xx}]
					if r == nil {
						continue
					}
					for f, want := range map[string]int{"M": mm, "X": xx} {
						v, _ := r.Final[f].(*absint.Int)
						c, ok := uint64(0), false
						if v != nil {
							c, ok = v.IsConst()
						}
						if !ok || int(c) != want {
							bad.add(fmt.Sprintf("%s:%s(%s):%s", relShort(rel), mn, name, f), op, "", fmt.Sprintf("cell %s: %s becomes %s", r.Cell, f, fmtVal(r.Final[f])))
						}
					}
				}
			}
		}
		emitAgg(R, "no-other-writer", bad, relShort(rel)+":cpu", fmt.Sprintf("%d emittable opcodes leave M and X unchanged", len(emittable)))
	}
	// tracker vs CPU for REP/SEP
	trackerFns := map[string]*ssa.Function{}
	ms := ctx.Prog.SSA.MethodSets.MethodSet(types.NewPointer(roles.Named))
	for i := 0; i < ms.Len(); i++ {
		n := ms.At(i).Obj().Name()
		if n == "AssumeREP" || n == "AssumeSEP" {
			trackerFns[n] = ctx.Prog.SSA.MethodValue(ms.At(i))
		}
	}
	for _, pair := range []struct {
		mn     string
		em     *emitting
		assume string
	}{{"rep", repM, "AssumeREP"}, {"sep", sepM, "AssumeSEP"}} {
		if pair.em == nil {
			R.Fail("tracker", pair.mn+":method", "", "no Emitter method emits "+pair.mn)
			continue
		}
		e := pair.em
		pos := ctx.Prog.Pos(e.Fn.Pos())
		// CPU cells with the operand fixed
		for _, rel := range cpuRels {
			m := sw.Models[rel]
			var cells []CPUCell
			for c := 0; c < 256; c++ {
				for f := 0; f < 4; f++ {
					cells = append(cells, CPUCell{Opcode: e.Opcode, M: f & 1, X: f >> 1, E: 0, Intr: m.IntrNone, Stopped: -1, Op1: c, DLZero: -1})
				}
			}
			res := m.RunAll(cells)
			R.Count("tracker-cells", len(res))
			msg := ""
			for _, cr := range res {
				c := cr.Cell
				// matching emitter run (any target/listing variant: take dry,notext and verify all agree)
				for _, r := range e.Runs {
					if b2i(r.Cell.M8) != c.M || b2i(r.Cell.X8) != c.X || !r.Returned {
						continue
					}
					tv, _ := r.Final[roles.Tracker].(*absint.Int)
					if tv == nil || len(r.ParamAtoms) == 0 || r.ParamAtoms[0] == nil {
						msg = "tracker value not an integer / no operand parameter"
						continue
					}
					tm, ok1 := evalBit(tv.Bits[5], r.ParamAtoms[0], uint64(c.Op1))
					tx, ok2 := evalBit(tv.Bits[4], r.ParamAtoms[0], uint64(c.Op1))
					cm, _ := cr.Final["M"].(*absint.Int)
					cx, _ := cr.Final["X"].(*absint.Int)
					var cmv, cxv uint64
					ok3, ok4 := false, false
					if cm != nil {
						cmv, ok3 = cm.IsConst()
					}
					if cx != nil {
						cxv, ok4 = cx.IsConst()
					}
					if !ok1 || !ok2 || !ok3 || !ok4 {
						msg = fmt.Sprintf("%s cell %s: tracked bits %s/%s or CPU flags %s/%s not determined", relShort(rel), c, tv.Bits[5], tv.Bits[4], fmtVal(cr.Final["M"]), fmtVal(cr.Final["X"]))
						continue
					}
					if tm != int(cmv) || tx != int(cxv) {
						msg = fmt.Sprintf("%s cell %s: Emitter tracks M=%d X=%d after %s #$%02X, the CPU has M=%d X=%d", relShort(rel), c, tm, tx, pair.mn, c.Op1, cmv, cxv)
					}
				}
			}
			if msg != "" {
				R.Fail("tracker", fmt.Sprintf("%s:%s", e.Fn.Name(), relShort(rel)), pos, msg)
			} else {
				R.Pass("tracker", fmt.Sprintf("%s:%s", e.Fn.Name(), relShort(rel)), pos, "tracked widths equal CPU widths for all 256 operands x 4 width states")
			}
		}
		// AssumeXXX computes the same tracker function as the emitting method
		af := trackerFns[pair.assume]
		if af == nil {
			R.Fail("tracker", pair.assume, "", "method not found")
			continue
		}
		msg := ""
		for _, cell := range allEmitCells() {
			ra := runEmitter(ctx, roles, af, cell)
			var re *EmitRun
			for _, r := range e.Runs {
				if r.Cell == cell {
					re = r
				}
			}
			if !ra.Returned || re == nil || !re.Returned {
				continue
			}
			ta, _ := ra.Final[roles.Tracker].(*absint.Int)
			te, _ := re.Final[roles.Tracker].(*absint.Int)
			if ta == nil || te == nil || len(ra.Imprec) > 0 {
				msg = fmt.Sprintf("cell %s: not analysable %v", cell, ra.Imprec)
				continue
			}
			for _, bit := range []int{4, 5} {
				for c := uint64(0); c < 256; c++ {
					va, oka := evalBit(ta.Bits[bit], ra.ParamAtoms[0], c)
					ve, oke := evalBit(te.Bits[bit], re.ParamAtoms[0], c)
					if !oka || !oke || va != ve {
						msg = fmt.Sprintf("cell %s: bit %d after %s(#$%02X) differs from %s", cell, bit, pair.assume, c, e.Fn.Name())
					}
				}
			}
		}
		if msg != "" {
			R.Fail("tracker", pair.assume, ctx.Prog.Pos(af.Pos()), msg)
		} else {
			R.Pass("tracker", pair.assume, ctx.Prog.Pos(af.Pos()), "same tracked-width function as "+e.Fn.Name())
		}
	}
	R.Floor("tracker-cells", 4096)
	R.Analysed["emittable_opcodes"] = len(emittable)
}
