package rules

import (
	"fmt"
	"go/token"
	"go/types"
	"regexp"
	"sort"
	"strings"

	"golang.org/x/tools/go/ssa"

	"verif/tool/absint"
)

func init() { register("C14", "other", C14) }

// operand bytes a rendering of each canonical mode must show, most significant first
// ("T" = the branch target term). DESIGN.md appendix A.4.
var operandOrder = map[string][]string{
	"imp": {}, "acc": {},
	"imm8": {"ib1"}, "imm8s": {}, "imm16": {"ib2", "ib1"},
	"dp": {"ib1"}, "dp,x": {"ib1"}, "dp,y": {"ib1"}, "(dp,x)": {"ib1"}, "(dp)": {"ib1"}, "(dp)s": {"ib1"}, "[dp]": {"ib1"}, "(dp),y": {"ib1"}, "[dp],y": {"ib1"},
	"sr,s": {"ib1"}, "(sr,s),y": {"ib1"},
	"abs": {"ib2", "ib1"}, "abs,x": {"ib2", "ib1"}, "abs,y": {"ib2", "ib1"}, "(abs)": {"ib2", "ib1"}, "[abs]": {"ib2", "ib1"}, "(abs,x)": {"ib2", "ib1"},
	"long": {"ib3", "ib2", "ib1"}, "long,x": {"ib3", "ib2", "ib1"},
	"blk":  {"ib2", "ib1"},
	"rel8": {"ib1", "T"}, "rel16": {"T"},
}

var columnLabelRe = regexp.MustCompile(`(?:^|[^A-Za-z])([A-Za-z]{1,2})=-*$`)
var formatVerbRe = regexp.MustCompile(`%[-+ #0-9.]*[a-zA-Z]`)

func C14(ctx *Ctx) {
	R := ctx.R
	R.Explanation = "The trace renderers (cpu65c816.DisassembleCurrentPC used by System.RunUntil; cpualt.Disassemble and DisassembleCurrentPC) are abstractly interpreted per opcode x M,X,E cell with the buffer/formatter calls recorded as render events. pure: no CPU field changes and no bus write in any cell, and in RunUntil the logging region contains only the renderer call and Logger.Write and nothing else consumes Logger. length: the instruction bytes read are exactly bytes 0..L-1 where L is the length Step decodes for the same cell. operand-order: after the mnemonic, the operand bytes rendered are those of the addressing mode, most significant first. branch-target: the rel8/rel16 destination term rendered equals the target Step computes (StepInfo.Addr at dispatch, same symbols). registers: no rendered value depends on a non-authoritative register copy; each flag letter is paired with its own flag field. before: within an iteration of RunUntil the log write precedes Step."
	R.Trusted = []string{"go/packages + go/ssa", "absint", "ref/isa65816.json", "fmt and strconv format as documented", "Logger.Write does not modify the CPU"}
	R.Rule("pure", "rendering a trace line changes no CPU field and writes no memory; RunUntil's logging region holds only the renderer and Logger.Write, and Logger is consumed nowhere else in a way that affects execution")
	R.Rule("length", "the renderer reads exactly the instruction bytes 0..L-1, L = length decoded by Step for the same opcode and widths")
	R.Rule("operand-order", "after the mnemonic the operand bytes of the addressing mode are rendered most significant first (block move: source, destination)")
	R.Rule("branch-target", "the destination rendered for rel8 / rel16 is the address Step computes for the same instruction")
	R.Rule("registers", "rendered register values are the authoritative copies for the current widths; flag letters are paired with their own flag fields")
	R.Rule("before", "in every iteration of RunUntil the trace line is written before Step executes")
	checkXbuf(ctx)
	isa, err := loadISA(ctx)
	if err != nil {
		R.Fail("length", "reference", "", err.Error())
		return
	}
	sw := cpuSweep(ctx)
	type target struct {
		rel string
		fn  *ssa.Function
	}
	var targets []target
	for _, rel := range cpuRels {
		for _, name := range []string{"DisassembleCurrentPC", "Disassemble"} {
			if fn := ctx.Prog.Method(rel, "CPU", name); fn != nil {
				targets = append(targets, target{rel, fn})
			}
		}
	}
	R.Count("renderers", len(targets))
	R.Floor("renderers", 3)
	for _, tg := range targets {
		m := sw.Models[tg.rel]
		rs := relShort(tg.rel) + "." + tg.fn.Name()
		pos := ctx.Prog.Pos(tg.fn.Pos())
		if m.Err != "" {
			R.Fail("length", rs+":model", pos, m.Err)
			continue
		}
		// Step's decoded length and branch target per (op,M,X,E), no interrupt
		type ck struct{ op, mm, xx, ee int }
		stepRes := map[ck]*CellResult{}
		for _, r := range sw.Results[tg.rel] {
			if r.Cell.IntrIdx == 0 {
				stepRes[ck{r.Cell.Opcode, r.Cell.M, r.Cell.X, r.Cell.E}] = r
			}
		}
		var cells []CPUCell
		for op := 0; op < 256; op++ {
			for f := 0; f < 8; f++ {
				cells = append(cells, CPUCell{Opcode: op, M: f & 1, X: f >> 1 & 1, E: f >> 2 & 1, Intr: m.IntrNone, Stopped: -1, Op1: -1, DLZero: -1})
			}
		}
		type out struct {
			r  *CellResult
			ev []RenderEvent
		}
		outs := make([]out, len(cells))
		done := make(chan int)
		sem := make(chan struct{}, 16)
		for i := range cells {
			go func(i int) {
				sem <- struct{}{}
				defer func() { <-sem; done <- i }()
				var evs []RenderEvent
				outs[i].r = m.RunFn(cells[i], tg.fn, func(e RenderEvent) { evs = append(evs, e) })
				outs[i].ev = evs
			}(i)
		}
		for range cells {
			<-done
		}
		R.Count("render-cells", len(cells))
		pure, length, order, branch, regs := aggMap{}, aggMap{}, aggMap{}, aggMap{}, aggMap{}
		nFlagRender, nColumn := 0, 0
		var colsByCell []map[string]bool
		var cellOf []CPUCell
		for _, o := range outs {
			r := o.r
			c := r.Cell
			ref := isa.Ops[c.Opcode]
			if len(r.Imprec) > 0 || !r.Returned {
				pure.add(rs+":not-analysable", c.Opcode, pos, fmt.Sprintf("cell %s: %v returned=%v", c, r.Imprec, r.Returned))
				continue
			}
			// pure
			for n, fv := range r.Final {
				if _, ign := c02IgnoreFields[n]; ign {
					continue
				}
				if absint.ValKey(fv) != absint.ValKey(r.Entry[n]) {
					pure.add(rs+":changes-"+n, c.Opcode, pos, fmt.Sprintf("cell %s: %s: %s -> %s", c, n, absint.ValKey(r.Entry[n]), absint.ValKey(fv)))
				}
			}
			for _, a := range r.Accesses {
				if a.Write {
					pure.add(rs+":writes-memory", c.Opcode, ctx.Prog.Pos(a.Pos), fmt.Sprintf("cell %s: writes %s", c, a.Addr))
				}
			}
			// length
			sr := stepRes[ck{c.Opcode, c.M, c.X, c.E}]
			want := -1
			if sr != nil {
				if v, ok := sr.AtDispatch["stepPC"].(*absint.Int); ok {
					if k, ok := v.IsConst(); ok {
						want = int(k)
					}
				}
			}
			got := map[int]bool{}
			other := 0
			for _, a := range r.Accesses {
				if a.IByte >= 0 {
					got[a.IByte] = true
				} else {
					other++
				}
			}
			okLen := want >= 1 && len(got) == want && other == 0
			for i := 0; i < want; i++ {
				if !got[i] {
					okLen = false
				}
			}
			if ref.Mode == "imm8s" {
				okLen = len(got) >= 1 && len(got) <= 2 && other == 0
			}
			if !okLen {
				var l []int
				for i := range got {
					l = append(l, i)
				}
				sort.Ints(l)
				length.add(fmt.Sprintf("%s:%s", rs, ref.Mode), c.Opcode, pos, fmt.Sprintf("cell %s: reads instruction bytes %v and %d other addresses; Step decodes length %d", c, l, other, want))
			}
			// operand order: values rendered after the mnemonic
			_ = m.Table.E[c.Opcode].Name
			type opEv struct {
				tag    string // ib1.. or T
				val    *absint.Int
				guards map[string]bool
			}
			var opEvs []opEv
			stale := map[string]bool{}
			if c.M == 1 {
				stale["cpu.RA"] = true
			} else {
				stale["cpu.RAl"], stale["cpu.RAh"] = true, true
			}
			if c.X == 1 {
				stale["cpu.RX"], stale["cpu.RY"] = true, true
			} else {
				stale["cpu.RXl"], stale["cpu.RYl"] = true, true
			}
			// register columns: a value rendered right after a label "<L>=" (xbuf.S / a format string) where
			// the CPU has a register field R<L> must be that register (its copies R<L>, R<L>l, R<L>h)
			pendingLabel := ""
			cellCols := map[string]bool{}
			colsByCell = append(colsByCell, cellCols)
			cellOf = append(cellOf, c)
			checkColumn := func(label string, v absint.Val, e RenderEvent) {
				iv, ok := v.(*absint.Int)
				if !ok || label == "" {
					return
				}
				cellCols["column "+label+"="] = true
				var deps []string
				for _, d := range absint.LinDeps(iv.Lin) {
					if strings.HasPrefix(d.Key, "cpu.") {
						deps = append(deps, d.Key)
					}
				}
				nColumn++
				okc := len(deps) > 0
				for _, d := range deps {
					if d != "cpu.R"+label && d != "cpu.R"+label+"l" && d != "cpu.R"+label+"h" {
						okc = false
					}
				}
				if !okc {
					regs.add(fmt.Sprintf("%s:column-%s", rs, label), c.Opcode, ctx.Prog.Pos(e.Pos), fmt.Sprintf("cell %s: the column labelled %q shows %s", c, label+"=", trunc(iv.Lin.Key())))
				}
			}
			labelOf := func(s string) string {
				mm := columnLabelRe.FindStringSubmatch(s)
				if mm == nil || !m.HasField("R"+mm[1]) {
					return ""
				}
				return mm[1]
			}
			for _, e := range o.ev {
				if strings.HasPrefix(e.Sink, "fmt.") {
					// format string: the text in front of each verb labels the corresponding argument
					pendingLabel = ""
					fi := -1
					for i, v := range e.Vals {
						if sv, ok := v.(*absint.Str); ok && sv.Known && strings.Contains(sv.S, "%") {
							fi = i
							break
						}
					}
					if fi >= 0 {
						parts := formatVerbRe.Split(e.Vals[fi].(*absint.Str).S, -1)
						for j := 0; j+1 < len(parts) && fi+1+j < len(e.Vals); j++ {
							checkColumn(labelOf(parts[j]), e.Vals[fi+1+j], e)
						}
					}
				} else if len(e.Vals) >= 1 {
					if sv, ok := e.Vals[0].(*absint.Str); ok {
						pendingLabel = ""
						if sv.Known {
							pendingLabel = labelOf(sv.S)
						}
					} else {
						if iv, ok := e.Vals[0].(*absint.Int); ok {
							if _, isC := iv.IsConst(); !isC || pendingLabel != "" {
								checkColumn(pendingLabel, iv, e)
							}
						}
						pendingLabel = ""
					}
				}
			}
			for _, e := range o.ev {
				// a letter rendered under a test of exactly one flag field must be that flag's
				// letter (however the test and the letter reach the renderer: helper, table, loop)
				if len(e.Vals) == 1 {
					if lv, ok := e.Vals[0].(*absint.Int); ok {
						if ch, isC := lv.IsConst(); isC && ch >= 'A' && ch <= 'Z' {
							flag := ""
							for k, v := range e.Guards {
								b := r.Conds[k]
								if !v || b == nil || b.Cmp == nil {
									continue
								}
								if x, ok := b.Cmp.X.(*absint.Int); ok && len(x.Lin.T) == 1 && x.Lin.C == 0 && strings.HasPrefix(x.Lin.T[0].A.Key, "cpu.") && len(x.Lin.T[0].A.Key) == 5 {
									if flag != "" {
										flag = "?"
									} else {
										flag = x.Lin.T[0].A.Key[4:]
									}
								}
							}
							// the width flags are fixed in a cell: their letter is rendered without a test when set
							if flag == "" && !isModeRenderer(e.Caller) {
								if ch == 'M' && c.M == 1 {
									cellCols["width flag M"] = true
								}
								if ch == 'X' && c.X == 1 {
									cellCols["width flag X"] = true
								}
							}
							if len(flag) == 1 && strings.Contains("NVMXDIZCEB", flag) {
								nFlagRender++
								cellCols["flag "+flag] = true
								if flag != string(rune(ch)) {
									regs.add(fmt.Sprintf("%s:flag-letter-%s", rs, flag), c.Opcode, ctx.Prog.Pos(e.Pos), fmt.Sprintf("cell %s: under a test of flag %s the letter %q is rendered", c, flag, rune(ch)))
								}
							}
						}
					}
				}
				// operand rendering = events issued by the mode renderer, the function
				// receiving (mode, w0, w1, w2, w3)
				inRenderer := isModeRenderer(e.Caller)
				for _, f := range e.Stack {
					if isModeRenderer(f) {
						inRenderer = true // rendered by a helper or closure the mode renderer calls
					}
				}
				for _, v := range e.Vals {
					iv, ok := v.(*absint.Int)
					if !ok {
						continue
					}
					deps := absint.LinDeps(iv.Lin)
					for _, d := range deps {
						if stale[d.Key] {
							regs.add(fmt.Sprintf("%s:renders-stale-%s", rs, strings.TrimPrefix(d.Key, "cpu.")), c.Opcode, ctx.Prog.Pos(e.Pos), fmt.Sprintf("cell %s: %s(%s)", c, e.Sink, iv))
						}
					}
					if !inRenderer {
						continue
					}
					usesIB := false
					for _, d := range deps {
						if strings.HasPrefix(d.Key, "ib") {
							usesIB = true
						}
					}
					if !usesIB {
						continue
					}
					k := iv.Lin.Key()
					tag := "T"
					switch k {
					case "0+ib1", "0+ib2", "0+ib3":
						tag = k[2:]
					}
					opEvs = append(opEvs, opEv{tag, iv, e.Guards})
				}
			}
			// the byte column: outside the operand renderer the instruction's bytes are shown in order, each once -
			// the opcode first (a constant in this cell), then ib1 .. ib(L-1); a renderer that shows none is not judged
			if want >= 1 && ref.Mode != "imm8s" {
				var col []string
				for _, e := range o.ev {
					inR := isModeRenderer(e.Caller)
					for _, f := range e.Stack {
						if isModeRenderer(f) {
							inR = true
						}
					}
					if inR {
						continue
					}
					for _, v := range e.Vals {
						if iv, ok := v.(*absint.Int); ok && iv.W == 8 {
							switch k := iv.Lin.Key(); k {
							case "0+ib1", "0+ib2", "0+ib3":
								col = append(col, k[2:])
							}
						}
					}
				}
				if len(col) > 0 {
					var wantCol []string
					for i := 1; i < want; i++ {
						wantCol = append(wantCol, fmt.Sprintf("ib%d", i))
					}
					if strings.Join(col, ",") != strings.Join(wantCol, ",") {
						order.add(fmt.Sprintf("%s:byte-column", rs), c.Opcode, pos, fmt.Sprintf("cell %s: the byte column shows [%s] after the opcode, want [%s]", c, strings.Join(col, ","), strings.Join(wantCol, ",")))
					}
				}
			}
			// one rendering per consistent path through the renderer: the distinct
			// guard sets seen are the paths; an event belongs to a path unless one of
			// its guards contradicts it
			sigs := map[string]map[string]bool{}
			for _, e := range opEvs {
				var ks []string
				for k, v := range e.guards {
					ks = append(ks, fmt.Sprintf("%s=%v", k, v))
				}
				sort.Strings(ks)
				sigs[strings.Join(ks, "&")] = e.guards
			}
			if len(sigs) == 0 {
				sigs[""] = map[string]bool{}
			}
			var seq []string
			seqBad, tgtBad := "", ""
			wantSeq, known := operandOrder[ref.Mode]
			if ref.Dep == "m" || ref.Dep == "x" {
				f := c.M
				if ref.Dep == "x" {
					f = c.X
				}
				if f == 1 {
					wantSeq = []string{"ib1"}
				} else {
					wantSeq = []string{"ib2", "ib1"}
				}
				known = true
			}
			var stepAddr *absint.Int
			if sr != nil {
				stepAddr, _ = sr.AtDispatch["StepInfo.Addr"].(*absint.Int)
			}
			for sig, g := range sigs {
				seq = nil
				for _, e := range opEvs {
					compatible := true
					for k, v := range e.guards {
						if gv, ok := g[k]; ok && gv != v {
							compatible = false
						}
					}
					if !compatible {
						continue
					}
					seq = append(seq, e.tag)
					if e.tag == "T" && (ref.Mode == "rel8" || ref.Mode == "rel16") && stepAddr != nil {
						want := absint.Restrict(stepAddr.Lin, g).Key()
						if e.val.Lin.Key() != want {
							// not the same term: the same function on this path?
							if same, why := sameTermUnder(e.val, r.Conds, stepAddr, sr.Conds, g); !same {
								tgtBad = fmt.Sprintf("cell %s (path %s): rendered destination %s, Step branches to %s (%s)", c, sig, trunc(e.val.Lin.Key()), trunc(want), why)
							}
						}
					}
				}
				if known && strings.Join(seq, ",") != strings.Join(wantSeq, ",") {
					seqBad = fmt.Sprintf("cell %s (path %s): operand bytes rendered [%s], want [%s]", c, sig, strings.Join(seq, ","), strings.Join(wantSeq, ","))
				}
			}
			if !known {
				order.add(rs+":no-reference:"+ref.Mode, c.Opcode, pos, "no operand-order reference for mode")
			} else if seqBad != "" {
				order.add(fmt.Sprintf("%s:%s", rs, ref.Mode), c.Opcode, pos, seqBad)
			}
			if tgtBad != "" {
				branch.add(fmt.Sprintf("%s:%s", rs, ref.Mode), c.Opcode, pos, tgtBad)
			}
		}
		// completeness: a register column or flag shown for some width setting is shown for every one
		allCols := map[string]bool{}
		for _, cc := range colsByCell {
			for k := range cc {
				allCols[k] = true
			}
		}
		// a renderer that shows flags shows the eight bits of the status register, one that shows registers
		// shows at least the accumulator and the two index registers (what every instruction may read)
		anyFlag, anyCol := false, false
		for k := range allCols {
			anyFlag = anyFlag || strings.HasPrefix(k, "flag ")
			anyCol = anyCol || strings.HasPrefix(k, "column ")
		}
		if anyFlag {
			for _, f := range "NVDIZC" {
				allCols["flag "+string(f)] = true
			}
		}
		if anyCol {
			for _, l := range []string{"A", "X", "Y"} {
				allCols["column "+l+"="] = true
			}
		}
		for i, cc := range colsByCell {
			// the width flags are constants of the cell: when set, their letter must appear among the flags
			if anyFlag {
				if cellOf[i].M == 1 && !cc["width flag M"] {
					regs.add(rs+":missing:flag M", cellOf[i].Opcode, pos, fmt.Sprintf("cell %s: M is set but no letter M is rendered", cellOf[i]))
				}
				if cellOf[i].X == 1 && !cc["width flag X"] {
					regs.add(rs+":missing:flag X", cellOf[i].Opcode, pos, fmt.Sprintf("cell %s: X is set but no letter X is rendered", cellOf[i]))
				}
			}
			for k := range allCols {
				if strings.HasPrefix(k, "width flag ") {
					continue
				}
				if !cc[k] {
					regs.add(fmt.Sprintf("%s:missing:%s", rs, k), cellOf[i].Opcode, pos, fmt.Sprintf("cell %s: the %s is not rendered (it is in other cells): the line does not show that value", cellOf[i], k))
				}
			}
		}
		emitAgg(R, "pure", pure, rs+":cells", "2048 cells: no CPU field changes, no bus write")
		emitAgg(R, "length", length, rs, "instruction bytes read = decoded length in every cell")
		emitAgg(R, "operand-order", order, rs, "operand bytes rendered most significant first for every addressing mode")
		emitAgg(R, "branch-target", branch, rs, "rel8/rel16 destinations equal Step's target")
		emitAgg(R, "registers", regs, rs+":copies", "only authoritative register copies are rendered")
		R.Count("register-columns", nColumn/2048)    // per-cell renderings, scaled to source sites
		R.Count("flag-letter-sites", nFlagRender/64) // per-cell renderings, scaled to the order of source sites
	}
	checkFlagLetters(ctx)
	checkLoggerRegion(ctx)
	R.Floor("render-cells", 3*2048)
	R.Floor("register-columns", 1)
}

// checkFlagLetters: every call that renders a flag pairs field F with letter F.
func checkFlagLetters(ctx *Ctx) {
	R := ctx.R
	n := 0
	for _, rel := range cpuRels {
		named, _ := cpuStruct(ctx, rel)
		if named == nil {
			continue
		}
		st := named.Underlying().(*types.Struct)
		for _, fn := range ctx.Prog.AllFuncs() {
			if fn.Pkg != ctx.Prog.Pkg(rel) {
				continue
			}
			for _, b := range fn.Blocks {
				for _, in := range b.Instrs {
					call, ok := in.(*ssa.Call)
					if !ok || call.Call.StaticCallee() == nil || !strings.Contains(strings.ToLower(call.Call.StaticCallee().Name()), "flag") {
						continue
					}
					// find a flag-field load and a constant letter among the arguments
					field, letter := "", ""
					for _, a := range call.Call.Args {
						if u, ok := a.(*ssa.UnOp); ok && u.Op == token.MUL {
							if fa, ok := u.X.(*ssa.FieldAddr); ok && types.Identical(fa.X.Type(), types.NewPointer(named)) {
								field = st.Field(fa.Field).Name()
							}
						}
						if c, ok := a.(*ssa.Const); ok && c.Value != nil {
							if isStr(c.Type()) {
								letter = strings.Trim(c.Value.ExactString(), "\"")
							} else if _, _, isInt := absint.IntType(c.Type()); isInt {
								letter = string(rune(c.Int64()))
							}
						}
					}
					if field == "" || letter == "" {
						continue
					}
					n++
					key := fmt.Sprintf("%s:%s:%s", relShort(rel), fn.Name(), field)
					if strings.ToUpper(letter) != field {
						R.Fail("registers", key, ctx.Prog.Pos(call.Pos()), fmt.Sprintf("flag field %s is rendered with letter %q", field, letter))
					} else {
						R.Pass("registers", key, ctx.Prog.Pos(call.Pos()), "flag "+field+" rendered as "+letter)
					}
				}
			}
		}
	}
	R.Count("flag-letter-sites", n)
	R.Floor("flag-letter-sites", 8)
}

// checkLoggerRegion: structural rules on RunUntil's use of Logger.
func checkLoggerRegion(ctx *Ctx) {
	R := ctx.R
	mainFn := ctx.Prog.Method("emulator", "System", "RunUntil")
	sysT := ctx.Prog.Pkg("emulator").Type("System")
	fn := mainFn // the function being scanned: RunUntil, then each logging helper
	if fn == nil || sysT == nil {
		R.Fail("before", "RunUntil", "", "emulator.(*System).RunUntil not found")
		return
	}
	pos := ctx.Prog.Pos(fn.Pos())
	named := sysT.Type().(*types.Named)
	st := named.Underlying().(*types.Struct)
	li := fieldIndex(st, "Logger")
	if li < 0 {
		R.Fail("pure", "RunUntil:Logger-field", pos, "System has no Logger field")
		return
	}
	loops := loopsOf(fn)
	steps := callsIn(fn, func(f *ssa.Function) bool { return f.Name() == "Step" && f.Signature.Recv() != nil })
	if len(loops) != 1 || len(steps) != 1 {
		R.Fail("before", "RunUntil:shape", pos, "expected one loop and one Step call (see C12/rununtil)")
		return
	}
	L, step := loops[0], steps[0]
	okPure, okBefore := true, true
	nWrites, nAssert := 0, 0
	// logging helpers: other module functions that read the Logger field. They are scanned like RunUntil itself and,
	// in addition, must be nothing but logging: no result, no store outside their own locals, no call other than
	// the renderer, Logger.Write, capability methods and other helpers.
	helpers := map[*ssa.Function]bool{}
	var helperList []*ssa.Function
	for _, f := range ctx.Prog.AllFuncs() {
		if f == mainFn || f.Blocks == nil {
			continue
		}
		for _, b := range f.Blocks {
			for _, in := range b.Instrs {
				if u, ok := in.(*ssa.UnOp); ok && isFieldLoad(u, named, li) && !helpers[f] {
					helpers[f] = true
					helperList = append(helperList, f)
				}
			}
		}
	}
	writesIn := map[*ssa.Function]bool{} // helpers that (transitively) write a trace line
	isHelperCall := func(y *ssa.Call) bool {
		c := y.Call.StaticCallee()
		return c != nil && helpers[c]
	}
	// checkRegion: the blocks dominated by edge iff->Succs[rk] hold only allowed calls,
	// no stores, and no value defined there (or chosen by having been there) flows out.
	checkRegion := func(iff *ssa.If, rk int, name string, allowed func(*ssa.Call) bool, allowedDesc string) {
		region := iff.Block().Succs[rk]
		if !edgeDominates(iff.Block(), rk, region) {
			okPure = false
			R.Fail("pure", "RunUntil:"+name+":entry", ctx.Prog.Pos(iff.Pos()), "the region can be entered without passing its guard")
		}
		// control leaves the region at one place only: where execution continues does not depend on what
		// happened inside (a failed write, a rendered value)
		exits := map[*ssa.BasicBlock]bool{}
		for _, rb := range fn.Blocks {
			if !region.Dominates(rb) {
				continue
			}
			for _, succ := range rb.Succs {
				if !region.Dominates(succ) {
					exits[succ] = true
				}
			}
		}
		if len(exits) > 1 {
			okPure = false
			R.Fail("pure", "RunUntil:"+name+":exits", pos, fmt.Sprintf("the region is left towards %d different places: what happens inside it decides how the run continues", len(exits)))
		}
		for _, rb := range fn.Blocks {
			if !region.Dominates(rb) {
				continue
			}
			for _, ri := range rb.Instrs {
				switch y := ri.(type) {
				case *ssa.Call:
					if !allowed(y) && !isHelperCall(y) {
						okPure = false
						R.Fail("pure", "RunUntil:"+name+":"+y.String(), ctx.Prog.Pos(y.Pos()), "the region calls something other than "+allowedDesc)
					}
				case *ssa.Store, *ssa.MapUpdate, *ssa.Send, *ssa.Go, *ssa.Panic:
					okPure = false
					R.Fail("pure", "RunUntil:"+name+":store", ctx.Prog.Pos(ri.Pos()), "the region has an effect other than its allowed calls: "+ri.String())
				case *ssa.Return:
					if fn != mainFn {
						break // a helper without results: leaving it early decides nothing
					}
					okPure = false
					R.Fail("pure", "RunUntil:"+name+":return", ctx.Prog.Pos(ri.Pos()), "RunUntil returns from inside the region")
				}
				// a value defined in the region and used outside it
				if v, ok := ri.(ssa.Value); ok {
					if refs := v.Referrers(); refs != nil {
						for _, u := range *refs {
							if u.Block() != nil && !region.Dominates(u.Block()) {
								if _, isDbg := u.(*ssa.DebugRef); !isDbg {
									okPure = false
									R.Fail("pure", "RunUntil:"+name+":flow-out", ctx.Prog.Pos(u.Pos()), "a value computed in the region is used outside it: "+u.String())
								}
							}
						}
					}
				}
			}
			// leaving the region: no phi may distinguish the region's edge
			for _, succ := range rb.Succs {
				if region.Dominates(succ) {
					continue
				}
				for _, si := range succ.Instrs {
					ph, ok := si.(*ssa.Phi)
					if !ok {
						continue
					}
					// the value arriving over the region's edge must be the one arriving
					// over every edge that bypasses the region (back edges aside)
					var inside ssa.Value
					same := true
					for pi, pb := range succ.Preds {
						if pb == rb {
							inside = ph.Edges[pi]
						}
					}
					for pi, pb := range succ.Preds {
						if region.Dominates(pb) || succ.Dominates(pb) {
							continue
						}
						if ph.Edges[pi] != inside {
							same = false
						}
					}
					if !same {
						okPure = false
						R.Fail("pure", "RunUntil:"+name+":phi", ctx.Prog.Pos(ph.Pos()), "a value chosen in the region is merged back into execution: "+ph.Comment+" = "+ph.String())
					}
				}
			}
		}
	}
	scan := func() {
		for _, b := range fn.Blocks {
			for _, in := range b.Instrs {
				u, ok := in.(*ssa.UnOp)
				if !ok || !isFieldLoad(u, named, li) {
					continue
				}
				for _, ref := range *u.Referrers() {
					switch x := ref.(type) {
					case *ssa.DebugRef:
					case *ssa.BinOp:
						// nil test guarding the logging region
						c, isC := x.Y.(*ssa.Const)
						if !(isC && c.Value == nil && (x.Op == token.NEQ || x.Op == token.EQL)) {
							okPure = false
							R.Fail("pure", "RunUntil:Logger-use:"+x.String(), ctx.Prog.Pos(x.Pos()), "Logger is compared with something other than nil")
							break
						}
						// the guarded region: blocks dominated by the logging edge
						for _, r2 := range *x.Referrers() {
							iff, ok := r2.(*ssa.If)
							if !ok {
								continue
							}
							rk := 0
							if x.Op == token.EQL {
								rk = 1
							}
							checkRegion(iff, rk, "logging-region", func(y *ssa.Call) bool {
								callee := y.Call.StaticCallee()
								isWrite := y.Call.IsInvoke() && y.Call.Method.Name() == "Write"
								isRender := callee != nil && strings.HasPrefix(callee.Name(), "Disassemble")
								return isWrite || isRender
							}, "the renderer and Logger.Write")
						}
					case *ssa.TypeAssert:
						// Reserver / Committer capability: the asserted value is used only as the
						// receiver of interface calls, inside the region guarded by the ok result,
						// and nothing computed there flows back into execution.
						nAssert++
						if !x.CommaOk {
							okPure = false
							R.Fail("pure", "RunUntil:Logger-capability:"+x.AssertedType.String(), ctx.Prog.Pos(x.Pos()), "capability assertion without ok result: a Logger lacking the capability panics, no Logger does not")
							break
						}
						var val, okv ssa.Value
						for _, r2 := range *x.Referrers() {
							if e, ok := r2.(*ssa.Extract); ok {
								if e.Index == 0 {
									val = e
								} else {
									okv = e
								}
							}
						}
						if okv != nil {
							for _, r2 := range *okv.Referrers() {
								switch iff := r2.(type) {
								case *ssa.If:
									checkRegion(iff, 0, "capability-region:"+x.AssertedType.String(), func(y *ssa.Call) bool {
										return y.Call.IsInvoke() && y.Call.Value == val
									}, "a method of the asserted capability")
								case *ssa.DebugRef:
								default:
									okPure = false
									R.Fail("pure", "RunUntil:Logger-capability:ok-use", ctx.Prog.Pos(r2.Pos()), "the ok result of the capability assertion is used for something other than guarding a region: "+r2.String())
								}
							}
						}
						if val != nil {
							for _, r2 := range *val.Referrers() {
								switch y := r2.(type) {
								case *ssa.DebugRef:
								case *ssa.Call:
									if !(y.Call.IsInvoke() && y.Call.Value == val) {
										okPure = false
										R.Fail("pure", "RunUntil:Logger-capability:use", ctx.Prog.Pos(y.Pos()), "the asserted capability is passed on: "+y.String())
									} else if y.Type() != nil {
										if tup, isT := y.Type().(*types.Tuple); !(isT && tup.Len() == 0) {
											if refs := y.Referrers(); refs != nil && len(*refs) > 0 {
												okPure = false
												R.Fail("pure", "RunUntil:Logger-capability:result", ctx.Prog.Pos(y.Pos()), "a result of a capability call is consumed: "+y.String())
											}
										}
									}
								case *ssa.Defer:
									if !(y.Call.IsInvoke() && y.Call.Value == val) {
										okPure = false
										R.Fail("pure", "RunUntil:Logger-capability:use", ctx.Prog.Pos(y.Pos()), "the asserted capability is passed on: "+y.String())
									}
								default:
									okPure = false
									R.Fail("pure", "RunUntil:Logger-capability:use", ctx.Prog.Pos(r2.Pos()), "unexpected use of the asserted capability: "+r2.String())
								}
							}
						}
					case *ssa.Call:
						if x.Call.IsInvoke() && x.Call.Method.Name() == "Write" {
							if fn != mainFn {
								writesIn[fn] = true
							} else {
								nWrites++
								if !L.Body[x.Block()] {
									break
								}
								if !reaches(x.Block(), step.Block(), L.Header) || reaches(step.Block(), x.Block(), L.Header) {
									okBefore = false
									R.Fail("before", "RunUntil:write-before-step", ctx.Prog.Pos(x.Pos()), "within an iteration the trace write does not precede Step")
								}
							}
							// what is written is the renderer's result
							if len(x.Call.Args) == 1 {
								if c, ok := x.Call.Args[0].(*ssa.Call); !ok || c.Call.StaticCallee() == nil || !strings.HasPrefix(c.Call.StaticCallee().Name(), "Disassemble") {
									okBefore = false
									R.Fail("before", "RunUntil:write-argument", ctx.Prog.Pos(x.Pos()), "the bytes written are not the renderer's result")
								}
							}
						} else {
							okPure = false
							R.Fail("pure", "RunUntil:Logger-use:"+x.String(), ctx.Prog.Pos(x.Pos()), "Logger is used for something other than Write / nil test / capability assertion")
						}
					default:
						okPure = false
						R.Fail("pure", fmt.Sprintf("RunUntil:Logger-use:%T", ref), ctx.Prog.Pos(ref.Pos()), "unexpected use of Logger: "+ref.String())
					}
				}
			}
		}
	}
	scan()
	for _, h := range helperList {
		fn = h
		hname := fnShort(h)
		if h.Signature.Results().Len() > 0 {
			okPure = false
			R.Fail("pure", "RunUntil:helper-result:"+hname, ctx.Prog.Pos(h.Pos()), "a function that reads Logger returns a value: what the logger does could flow back into execution")
		}
		for _, b := range h.Blocks {
			for _, in := range b.Instrs {
				switch y := in.(type) {
				case *ssa.Call:
					callee := y.Call.StaticCallee()
					_, isBuiltin := y.Call.Value.(*ssa.Builtin)
					isRender := callee != nil && strings.HasPrefix(callee.Name(), "Disassemble")
					isIface := y.Call.IsInvoke() // Logger.Write / capability methods: their receivers are checked by the scan
					if !(isBuiltin || isRender || isIface || isHelperCall(y)) {
						okPure = false
						R.Fail("pure", "RunUntil:helper-call:"+hname, ctx.Prog.Pos(y.Pos()), "a logging helper calls something other than the renderer, the logger or another logging helper: "+y.String())
					}
					if callee != nil && callee.Name() == "Step" {
						okPure = false
					}
				case *ssa.Store:
					if a := rootAlloc(y.Addr); a == nil || !allocIsLocalOnly(a) {
						okPure = false
						R.Fail("pure", "RunUntil:helper-store:"+hname, ctx.Prog.Pos(y.Pos()), "a logging helper stores outside its own locals: "+y.String())
					}
				case *ssa.MapUpdate, *ssa.Send, *ssa.Go, *ssa.Defer, *ssa.Panic:
					okPure = false
					R.Fail("pure", "RunUntil:helper-effect:"+hname, ctx.Prog.Pos(in.Pos()), "a logging helper has an effect other than logging: "+in.String())
				}
			}
		}
		scan()
	}
	fn = mainFn
	// helpers that write through other helpers
	for changed := true; changed; {
		changed = false
		for _, h := range helperList {
			if writesIn[h] {
				continue
			}
			for _, c := range callsIn(h, func(f *ssa.Function) bool { return writesIn[f] }) {
				_ = c
				writesIn[h] = true
				changed = true
			}
		}
	}
	// a call of a writing helper inside the loop is a trace write
	for _, c := range callsIn(mainFn, func(f *ssa.Function) bool { return writesIn[f] }) {
		nWrites++
		if !L.Body[c.Block()] {
			continue
		}
		before := reaches(c.Block(), step.Block(), L.Header) && !reaches(step.Block(), c.Block(), L.Header)
		if c.Block() == step.Block() {
			before = instrIndex(c) < instrIndex(step)
		}
		if !before {
			okBefore = false
			R.Fail("before", "RunUntil:write-before-step", ctx.Prog.Pos(c.Pos()), "within an iteration the trace write does not precede Step")
		}
	}
	if nWrites == 0 {
		okBefore = false
		R.Fail("before", "RunUntil:no-write", pos, "RunUntil never writes to Logger")
	}
	if okPure {
		R.Pass("pure", "RunUntil:capability-regions", pos, fmt.Sprintf("%d capability assertions on Logger: comma-ok, used only as call receivers inside their guarded regions; no value or phi leaves those regions", nAssert))
		R.Pass("pure", "RunUntil:logging-region", pos, "logging region = renderer + Logger.Write; Logger consumed nowhere else")
	}
	if okBefore {
		R.Pass("before", "RunUntil", pos, "the trace line (renderer result) is written before Step in every iteration")
	}
}

// isModeRenderer recognises the function that renders an operand from (mode, w0..w3):
// at least five byte-typed parameters.
func isModeRenderer(fn *ssa.Function) bool {
	if fn == nil {
		return false
	}
	n := 0
	for _, p := range fn.Params {
		if b, ok := p.Type().Underlying().(*types.Basic); ok && b.Kind() == types.Uint8 {
			n++
		}
	}
	return n >= 5
}
