package rules

import (
	"fmt"
	"sort"
	"strings"

	"golang.org/x/tools/go/ssa"

	"verif/tool/absint"
)

func init() { register("C08", "proof", C08) }

// siteOrdinal numbers the call sites of one function in source order, so that
// obligations are keyed by construct and not by line.
func siteOrdinal(fn *ssa.Function, instr ssa.Instruction) int {
	n := 0
	for _, b := range fn.Blocks {
		for _, in := range b.Instrs {
			if _, ok := in.(ssa.CallInstruction); ok {
				n++
				if in == instr {
					return n
				}
			}
		}
	}
	return 0
}

func fnShort(fn *ssa.Function) string {
	if fn == nil {
		return "?"
	}
	s := fn.String()
	s = strings.ReplaceAll(s, "github.com/alttpo/snes/", "")
	return s
}

func C08(ctx *Ctx) {
	R := ctx.R
	R.Explanation = "Step of both interpreters is abstractly interpreted in 256 opcodes x M,X,E x {no interrupt, each pending interrupt} cells with every other register, flag and memory byte symbolic. Each bus access event carries the interval of its address and of the dispatch-table index that selects the backend: the index must stay below 2^20 (address <= $FFFFFF) by interval arithmetic over type widths, shifts, masks and adds. No panic / fatal / possibly-out-of-range array index / imprecise step may be live in any cell (the nil-backend arms are excluded by the hypothesis 'whole bus mapped')."
	R.Trusted = []string{"go/packages + go/ssa (x/tools v0.29.0)", "absint interval transfer functions", "flag bytes N V M X D I Z C E hold 0 or 1 (obligation flags01 of C01)", "memory back ends behind the bus are outside the hypothesis' boundary", "user callbacks (OnPC/OnWDM) do not panic"}
	R.Rule("index", "every bus access of every Step cell uses the dispatch-table slot (address>>4) of the very address it passes, and that index is below 2^20, i.e. the address below 2^24")
	R.Rule("no-panic", "no panic, log.Fatal, possibly-out-of-range index, call through a possibly-nil callback or uninterpretable step is live in any Step cell; every cell returns")
	R.Exhaustive = true
	sw := cpuSweep(ctx)
	R.Floor("cpu-cells", 2*6144)
	R.Floor("bus-access-sites", 4)
	type agg struct {
		ops   map[int]bool
		pos   string
		worst uint64
		ex    string
		n     int
	}
	sites := map[string]bool{}
	for _, rel := range cpuRels {
		m := sw.Models[rel]
		if m.Err != "" {
			R.Fail("no-panic", relShort(rel)+":model", "", m.Err)
			continue
		}
		isa, _ := loadISA(ctx)
		bad := map[string]*agg{}
		okSites := map[string]*agg{}
		misrouted := map[string]*agg{}
		panics := map[string]*agg{}
		nCallbacks := 0
		for _, r := range sw.Results[rel] {
			for _, a := range r.Accesses {
				ord := 0
				if len(r.Events) > 0 {
					// find the instruction of this access: events are in order; match by position and function
				}
				_ = ord
				mode := "?"
				if isa != nil {
					mode = isa.Ops[r.Cell.Opcode].Mode
				}
				site := fmt.Sprintf("%s:%s", relShort(rel), fnShort(a.Fn))
				sites[site] = true
				key := site + ":mode=" + mode
				if v := viaOf(a.Stack); v == "nmi" || v == "irq" {
					key = site + ":via=" + v
				}
				viol := a.Index == nil || a.Index.Hi >= 1<<20 || a.Addr == nil || a.Addr.Hi > 0xFFFFFF
				// routing: the table slot used is the one of the address handed to it (address>>4); a neighbouring
				// slot is inside the table, too, but belongs to other memory
				if !viol {
					ro := absint.Ops{In: absint.NewInterner()}
					ad := ro.Rebuild(a.Addr.Lin, nil)
					want := ro.Convert(ro.Shr(ad, absint.NewConst(ad.W, 4, false), false), a.Index.W, false, a.Index.Signed)
					ix := ro.Rebuild(a.Index.Lin, nil)
					if ix.Lin.Key() != want.Lin.Key() && !absint.SameBits(ix, want) {
						g := misrouted[key]
						if g == nil {
							g = &agg{ops: map[int]bool{}, pos: ctx.Prog.Pos(a.Pos)}
							misrouted[key] = g
						}
						g.ops[r.Cell.Opcode] = true
						g.n++
						g.ex = fmt.Sprintf("cell %s: slot %s for address %s", r.Cell, trunc(a.Index.Lin.Key()), trunc(a.Addr.Lin.Key()))
					}
				}
				tgt := okSites
				if viol {
					tgt = bad
				}
				g := tgt[key]
				if g == nil {
					g = &agg{ops: map[int]bool{}, pos: ctx.Prog.Pos(a.Pos)}
					tgt[key] = g
				}
				g.ops[r.Cell.Opcode] = true
				g.n++
				if viol && a.Addr != nil && a.Addr.Hi >= g.worst {
					g.worst = a.Addr.Hi
					g.ex = fmt.Sprintf("cell %s: address %s", r.Cell, a.Addr)
				}
			}
			note := func(kind, what, pos string) {
				g := panics[kind+":"+what]
				if g == nil {
					g = &agg{ops: map[int]bool{}, pos: pos}
					panics[kind+":"+what] = g
				}
				g.ops[r.Cell.Opcode] = true
				g.ex = r.Cell.String()
			}
			for _, e := range r.Events {
				switch e.Kind {
				case "panic", "fatal":
					note(e.Kind, relShort(rel)+":"+fnShort(e.Fn), ctx.Prog.Pos(e.Pos))
				case "index-range":
					note("index-range", relShort(rel)+":"+fnShort(e.Fn)+":"+e.Callee, ctx.Prog.Pos(e.Pos))
				case "callback":
					// a call through a function value the user may have left unset: the path must have
					// found it non-nil (or found it in a map of callbacks)
					if e.Method != "" {
						break // interface method call: not a func value
					}
					nCallbacks++
					ck := strings.TrimPrefix(e.Callee, "top:")
					tested := false
					for _, g := range e.PathL {
						if g.Key == "isnil:"+ck && !g.Outcome {
							tested = true
						}
						if strings.HasSuffix(g.Key, ".ok") && g.Outcome && strings.Contains(ck, strings.TrimSuffix(g.Key, ".ok")) {
							tested = true
						}
					}
					if !tested {
						note("nil-call", relShort(rel)+":"+fnShort(e.Fn)+":"+ck, ctx.Prog.Pos(e.Pos))
					}
				}
			}
			for _, im := range r.Imprec {
				note("imprecise", relShort(rel)+":"+im, "")
			}
			if !r.Returned {
				note("no-return", relShort(rel)+":"+fmt.Sprintf("opcode %02X", r.Cell.Opcode), "")
			}
		}
		keys := func(m map[string]*agg) []string {
			var ks []string
			for k := range m {
				ks = append(ks, k)
			}
			sort.Strings(ks)
			return ks
		}
		for _, k := range keys(bad) {
			g := bad[k]
			R.Add("index", k, g.pos, false, fmt.Sprintf("address may reach $%X (>= 2^24) for opcodes %s; e.g. %s", g.worst, opSet(g.ops), g.ex), nil)
		}
		for _, k := range keys(misrouted) {
			g := misrouted[k]
			R.Add("index", k+":route", g.pos, false, fmt.Sprintf("the dispatch slot is not (address>>4) of the address passed, for opcodes %s; e.g. %s", opSet(g.ops), g.ex), nil)
		}
		for _, k := range keys(okSites) {
			if _, isBad := bad[k]; isBad {
				continue
			}
			if _, isBad := misrouted[k]; isBad {
				continue
			}
			g := okSites[k]
			R.Add("index", k, g.pos, true, fmt.Sprintf("%d access events over opcodes %s: index < 2^20", g.n, opSet(g.ops)), nil)
		}
		R.Count("callback-calls:"+relShort(rel), nCallbacks)
		for _, k := range keys(panics) {
			g := panics[k]
			R.Fail("no-panic", k, g.pos, fmt.Sprintf("live in cells of opcodes %s (e.g. %s)", opSet(g.ops), g.ex))
		}
		if len(panics) == 0 {
			R.Pass("no-panic", relShort(rel), "", fmt.Sprintf("%d cells: all return, no panic/fatal/index/imprecision", len(sw.Results[rel])))
		}
	}
	R.Count("bus-access-sites", len(sites))
	R.Analysed["bus_access_sites"] = sortedKeys(sites)
	R.Analysed["cells"] = "2 packages x 256 opcodes x M,X,E x 3 interrupt states"
	_ = absint.TriT
}

func sortedKeys(m map[string]bool) []string {
	var ks []string
	for k := range m {
		ks = append(ks, k)
	}
	sort.Strings(ks)
	return ks
}

// viaOf names the Step-level context of an access: the outermost function below Step.
func viaOf(stack []string) string {
	// stack[0] is Step; the next frame tells whether the access belongs to decoding (a bus helper called from Step) or to a routine
	if len(stack) < 2 {
		return "Step"
	}
	s := stack[1]
	if i := strings.LastIndex(s, "."); i >= 0 {
		s = s[i+1:]
	}
	s = strings.TrimSuffix(s, "$bound")
	if strings.HasPrefix(s, "op_") || s == "nmi" || s == "irq" {
		return s
	}
	return "Step"
}
