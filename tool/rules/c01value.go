package rules

import (
	"fmt"
	"os"
	"sort"
	"strings"
	"sync"

	"verif/tool/absint"
)

// C01/value: for every opcode x M,X cell (E=0, no pending interrupt) the abstract
// post-state that Step produces is compared with the post-state the WDC programming
// model prescribes, computed here from the same entry symbols with the same abstract
// operators: the authoritative register copies for the exit widths, SP, D, DBR, K, PC,
// every status flag, every byte written (operand and stack) and the stack bytes pulled.
//
// Values are compared as terms (after re-evaluation of both sides in a common
// interner, under every assignment of the branch conditions they are gated by);
// flags are compared as boolean functions over canonical propositions (bit k of a
// term, zero test, unsigned order), so the usual alternative spellings of a carry or
// overflow computation agree. Term equality is sufficient for equality of behaviour,
// not necessary: an implementation that computes the same function by a term the
// normaliser cannot identify is reported as undecided, which fails.
//
// Decimal-mode arithmetic (D=1) is compared separately from binary (D=0).

type refVal struct {
	c    *absint.BExpr
	t, f *refVal
	v    *absint.Int
}

func rvLeaf(v *absint.Int) *refVal { return &refVal{v: v} }
func rvIte(c *absint.BExpr, t, f *refVal) *refVal {
	return &refVal{c: c, t: t, f: f}
}

func (r *refVal) eval(env map[string]bool) *absint.Int {
	for r.v == nil {
		if r.c.Eval(env) {
			r = r.t
		} else {
			r = r.f
		}
	}
	return r.v
}

func (r *refVal) vars(set map[string]bool) {
	if r.v != nil {
		return
	}
	r.c.CollectVars(set)
	r.t.vars(set)
	r.f.vars(set)
}

type refWrite struct {
	addr *absint.Int
	data *refVal
}

type valExpect struct {
	fields map[string]*refVal
	flags  map[string]*absint.BExpr
	flagV  map[string]*absint.Int // flags prescribed as 0/1 terms (decimal arithmetic)
	writes []refWrite
	pulls  []*absint.Int
	skip   map[string]bool
	alt    map[string]*refVal       // an equivalent spelling of fields[name], accepted as well
	when   map[string]*absint.BExpr // fields[name] is prescribed only on paths where this holds
	forced map[string]bool          // propositions fixed for this comparison
	bools  map[string]bool          // boolean fields (Stopped)
}

var valueFlagNames = []string{"N", "V", "M", "X", "D", "I", "Z", "C", "E"}
var valueRegNames = []string{"PC", "SP", "RD", "RDBR", "RK", "RA", "RAl", "RAh", "RX", "RXl", "RY", "RYl"}

// instruction length for the cell
func refLen(ref isaOp, c CPUCell) int {
	n := ref.Len
	if ref.Dep == "m" && c.M == 1 {
		n--
	}
	if ref.Dep == "x" && c.X == 1 {
		n--
	}
	return n
}

// refSemantics builds the prescribed post-state of one cell. decimal selects the D=1
// semantics of ADC/SBC.
func refSemantics(rc *refCell, bc *absint.BoolCtx, decimal bool) (*valExpect, string) {
	o := rc.o
	c := rc.c
	mn := rc.ref.Mn
	ex := &valExpect{fields: map[string]*refVal{}, flags: map[string]*absint.BExpr{}, flagV: map[string]*absint.Int{}, skip: map[string]bool{}, alt: map[string]*refVal{}, when: map[string]*absint.BExpr{}, forced: map[string]bool{}, bools: map[string]bool{}}
	reg := rc.reg
	k8 := func(v uint64) *absint.Int { return rc.k(8, v) }
	k16 := func(v uint64) *absint.Int { return rc.k(16, v) }
	lo8 := func(v *absint.Int) *absint.Int { return o.Convert(v, 8, false, false) }
	hi8 := func(v *absint.Int) *absint.Int { return o.Convert(o.Shr(v, rc.k(v.W, 8), false), 8, false, false) }
	for _, n := range append(append([]string{}, valueRegNames...), valueFlagNames...) {
		if reg(n) == nil {
			return nil, "CPU field " + n + " not found"
		}
	}
	set := func(name string, v *absint.Int) { ex.fields[name] = rvLeaf(v) }
	flagIn := func(name string) *absint.BExpr { return bc.BitOf(reg(name).Lin, 0) }
	bit := func(v *absint.Int, k int) *absint.BExpr { return bc.BitOf(v.Lin, k) }
	cmp := func(op string, x, y *absint.Int) *absint.BExpr {
		return bc.CmpExpr(&absint.CmpInfo{Op: op, X: x, Y: y})
	}
	nz := func(v *absint.Int) {
		ex.flags["N"] = bit(v, v.W-1)
		ex.flags["Z"] = bc.ZeroExpr(v)
	}
	// registers at the entry widths
	var A, C16 *absint.Int
	if c.M == 1 {
		A = reg("RAl")
		C16 = rc.join16(reg("RAl"), reg("RAh"))
	} else {
		A = reg("RA")
		C16 = reg("RA")
	}
	wA := A.W
	setA := func(v *absint.Int) {
		if c.M == 1 {
			set("RAl", v)
		} else {
			set("RA", v)
		}
	}
	setC16 := func(v *absint.Int) {
		if c.M == 1 {
			set("RAl", lo8(v))
			set("RAh", hi8(v))
		} else {
			set("RA", v)
		}
	}
	idx := func(n string) *absint.Int {
		if c.X == 1 {
			return reg("R" + n + "l")
		}
		return reg("R" + n)
	}
	setIdx := func(n string, v *absint.Int) {
		if c.X == 1 {
			set("R"+n+"l", v)
		} else {
			set("R"+n, v)
		}
	}
	wX := idx("X").W
	// stale copies are not compared
	if c.M == 1 {
		ex.skip["RA"] = true
	} else {
		ex.skip["RAl"], ex.skip["RAh"] = true, true
	}
	if c.X == 1 {
		ex.skip["RX"], ex.skip["RY"] = true, true
	} else {
		ex.skip["RXl"], ex.skip["RYl"] = true, true
	}
	// width switches (REP/SEP/PLP/RTI/XCE): the exit widths depend on data, so each
	// register copy is prescribed only where it is the authoritative one at exit. The
	// 16-bit accumulator survives a switch unchanged (its halves are re-split or
	// re-joined); an index register entering 8-bit mode loses its high byte and one
	// leaving it is zero-extended.
	widthSwitch := func() {
		for _, n := range []string{"RA", "RAl", "RAh", "RX", "RXl", "RY", "RYl"} {
			delete(ex.skip, n)
		}
		m8, x8 := ex.flags["M"], ex.flags["X"]
		if m8 == nil {
			m8 = flagIn("M")
		}
		if x8 == nil {
			x8 = flagIn("X")
		}
		set("RA", C16)
		ex.when["RA"] = absint.BNot(m8)
		set("RAl", lo8(C16))
		ex.when["RAl"] = m8
		set("RAh", hi8(C16))
		ex.when["RAh"] = m8
		for _, n := range []string{"X", "Y"} {
			full := rc.X16
			if n == "Y" {
				full = rc.Y16
			}
			set("R"+n, full)
			ex.when["R"+n] = absint.BNot(x8)
			set("R"+n+"l", lo8(full))
			ex.when["R"+n+"l"] = x8
		}
	}
	PC, SP := reg("PC"), reg("SP")
	set("PC", o.Add(PC, k16(uint64(refLen(rc.ref, c)))))
	// stack
	nPush, nPull := 0, 0
	push := func(v *absint.Int) {
		a := rc.bank0(o.Sub(SP, k16(uint64(nPush))))
		ex.writes = append(ex.writes, refWrite{a, rvLeaf(v)})
		nPush++
		rc.epoch++
		set("SP", o.Sub(SP, k16(uint64(nPush))))
	}
	push16 := func(v *absint.Int) { push(hi8(v)); push(lo8(v)) }
	pull := func() *absint.Int {
		nPull++
		a := rc.bank0(o.Add(SP, k16(uint64(nPull))))
		ex.pulls = append(ex.pulls, a)
		set("SP", o.Add(SP, k16(uint64(nPull))))
		return rc.rd(a)
	}
	pull16 := func() *absint.Int { lo := pull(); hi := pull(); return rc.join16(lo, hi) }
	// operand writes
	store := func(v *absint.Int) {
		if len(rc.dataAddr) < rc.width {
			return
		}
		ex.writes = append(ex.writes, refWrite{rc.dataAddr[0], rvLeaf(lo8(v))})
		if rc.width == 2 {
			ex.writes = append(ex.writes, refWrite{rc.dataAddr[1], rvLeaf(hi8(v))})
		}
	}
	data := rc.data
	needData := func() bool { return data != nil }
	// packed status byte (native mode)
	flagsByte := func() *absint.Int {
		p := k8(0)
		for i, n := range []string{"C", "Z", "I", "D", "X", "M", "V", "N"} {
			p = o.Or(p, o.Shl(reg(n), k8(uint64(i))))
		}
		return p
	}
	setFlagsFrom := func(p *absint.Int) {
		for i, n := range []string{"C", "Z", "I", "D", "X", "M", "V", "N"} {
			ex.flags[n] = bit(p, i)
		}
	}
	accMode := rc.ref.Mode == "acc"
	rmw := func(f func(v *absint.Int) *absint.Int) bool {
		if accMode {
			r := f(A)
			setA(r)
			nz(r)
			return true
		}
		if !needData() {
			return false
		}
		r := f(data)
		store(r)
		nz(r)
		return true
	}
	cIn := reg("C")
	switch mn {
	case "lda":
		if !needData() {
			return nil, "no operand"
		}
		setA(data)
		nz(data)
	case "ldx", "ldy":
		if !needData() {
			return nil, "no operand"
		}
		setIdx(strings.ToUpper(mn[2:]), data)
		nz(data)
	case "sta":
		store(A)
	case "stx":
		store(idx("X"))
	case "sty":
		store(idx("Y"))
	case "stz":
		store(rc.k(8*rc.width, 0))
	case "adc", "sbc":
		if !needData() {
			return nil, "no operand"
		}
		w := wA
		d := data
		if mn == "sbc" {
			d = o.Xor(data, rc.k(w, (1<<uint(w))-1))
		}
		if !decimal {
			wide := o.Add(o.Add(rc.z(A, 2*w), rc.z(d, 2*w)), rc.z(cIn, 2*w))
			r := o.Convert(wide, w, false, false)
			setA(r)
			nz(r)
			ex.flags["C"] = bit(wide, w)
			// signed overflow: operands agree in sign, result differs
			ex.flags["V"] = absint.BAnd(absint.BNot(absint.BXor(bit(A, w-1), bit(d, w-1))), absint.BXor(bit(A, w-1), bit(r, w-1)))
		} else {
			// decimal mode: digit-wise addition with correction and carry between the
			// digits (the algorithm documented for the 65C816 by hardware-verified
			// emulators); SBC adds the complemented operand and corrects downwards
			W := 2 * w
			gamma := func(op string, x, y, t, f *absint.Int) *absint.Int {
				b := &absint.Bool{K: absint.TriTop, Cmp: &absint.CmpInfo{Op: op, X: x, Y: y}}
				key, _ := absint.GateOf(b)
				if _, ok := bc.Conds[key]; !ok {
					bc.Conds[key] = b
				}
				return o.Gamma(key, t, f)
			}
			kW := func(v uint64) *absint.Int { return rc.k(W, v) }
			aW, dW := rc.z(A, W), rc.z(d, W)
			sum := o.Add(o.Add(o.And(aW, kW(0xF)), o.And(dW, kW(0xF))), rc.z(cIn, W))
			var ovf *absint.Int
			n := w / 4
			for i := 0; i < n; i++ {
				sh := uint(4 * i)
				below := (uint64(1) << sh) - 1      // digits under digit i
				upto := (uint64(1) << (sh + 4)) - 1 // digits 0..i
				if i == n-1 {
					ovf = sum
				}
				if mn == "adc" {
					sum = gamma(">", sum, kW(0x9<<sh|below), o.Add(sum, kW(0x6<<sh)), sum)
					if i < n-1 {
						sum = gamma(">", sum, kW(upto), o.Add(o.And(sum, kW(upto)), kW(upto+1)), sum)
					}
				} else {
					sum = gamma("<=", sum, kW(upto), o.And(o.Sub(sum, kW(0x6<<sh)), kW(upto)), sum)
				}
				if i < n-1 {
					m := kW(0xF << (sh + 4))
					sum = o.Add(sum, o.Add(o.And(aW, m), o.And(dW, m)))
				}
			}
			r := o.Convert(sum, w, false, false)
			setA(r)
			top := kW(uint64(1)<<uint(w) - 1)
			ex.flagV["C"] = gamma(">", sum, top, k8(1), k8(0))
			ex.flagV["Z"] = gamma("==", r, rc.k(w, 0), k8(1), k8(0))
			ex.flagV["N"] = o.Convert(o.Shr(r, rc.k(w, uint64(w-1)), false), 8, false, false)
			sign := kW(uint64(1) << uint(w-1))
			vv := o.And(o.And(o.Xor(o.Xor(aW, dW), kW(^uint64(0))), o.Xor(aW, ovf)), sign)
			ex.flagV["V"] = o.Convert(o.Shr(vv, kW(uint64(w-1)), false), 8, false, false)
		}
	case "and", "ora", "eor":
		if !needData() {
			return nil, "no operand"
		}
		var r *absint.Int
		switch mn {
		case "and":
			r = o.And(A, data)
		case "ora":
			r = o.Or(A, data)
		default:
			r = o.Xor(A, data)
		}
		setA(r)
		nz(r)
	case "cmp", "cpx", "cpy":
		if !needData() {
			return nil, "no operand"
		}
		r := A
		if mn != "cmp" {
			r = idx(strings.ToUpper(mn[2:]))
		}
		t := o.Sub(r, data)
		nz(t)
		ex.flags["C"] = cmp(">=", r, data)
	case "bit":
		if !needData() {
			return nil, "no operand"
		}
		ex.flags["Z"] = bc.ZeroExpr(o.And(A, data))
		if !strings.HasPrefix(rc.ref.Mode, "imm") {
			ex.flags["N"] = bit(data, wA-1)
			ex.flags["V"] = bit(data, wA-2)
		}
	case "inc", "dec":
		ok := rmw(func(v *absint.Int) *absint.Int {
			if mn == "inc" {
				return o.Add(v, rc.k(v.W, 1))
			}
			return o.Sub(v, rc.k(v.W, 1))
		})
		if !ok {
			return nil, "no operand"
		}
	case "inx", "iny", "dex", "dey":
		n := strings.ToUpper(mn[2:])
		v := idx(n)
		var r *absint.Int
		if mn[0] == 'i' {
			r = o.Add(v, rc.k(wX, 1))
		} else {
			r = o.Sub(v, rc.k(wX, 1))
		}
		setIdx(n, r)
		nz(r)
	case "asl", "lsr", "rol", "ror":
		var src *absint.Int
		if accMode {
			src = A
		} else {
			src = data
		}
		if src == nil {
			return nil, "no operand"
		}
		w := src.W
		rmw(func(v *absint.Int) *absint.Int {
			switch mn {
			case "asl":
				return o.Shl(v, rc.k(w, 1))
			case "lsr":
				return o.Shr(v, rc.k(w, 1), false)
			case "rol":
				return o.Or(o.Shl(v, rc.k(w, 1)), rc.z(cIn, w))
			default:
				return o.Or(o.Shr(v, rc.k(w, 1), false), o.Shl(rc.z(cIn, w), rc.k(w, uint64(w-1))))
			}
		})
		if mn == "asl" || mn == "rol" {
			ex.flags["C"] = bit(src, w-1)
		} else {
			ex.flags["C"] = bit(src, 0)
		}
	case "trb", "tsb":
		if !needData() {
			return nil, "no operand"
		}
		ex.flags["Z"] = bc.ZeroExpr(o.And(A, data))
		if mn == "trb" {
			store(o.And(data, o.Not(A)))
		} else {
			store(o.Or(data, A))
		}
	case "tax", "tay":
		n := strings.ToUpper(mn[2:])
		var v *absint.Int
		if c.X == 1 {
			v = lo8(C16)
		} else {
			v = C16
		}
		setIdx(n, v)
		nz(v)
	case "txa", "tya":
		src := rc.X16
		if mn == "tya" {
			src = rc.Y16
		}
		var v *absint.Int
		if c.M == 1 {
			v = lo8(src)
		} else {
			v = src
		}
		setA(v)
		nz(v)
	case "txy":
		setIdx("Y", idx("X"))
		nz(idx("X"))
	case "tyx":
		setIdx("X", idx("Y"))
		nz(idx("Y"))
	case "tsx":
		var v *absint.Int
		if c.X == 1 {
			v = lo8(SP)
		} else {
			v = SP
		}
		setIdx("X", v)
		nz(v)
	case "txs":
		set("SP", rc.X16)
	case "tcd":
		set("RD", C16)
		nz(C16)
	case "tdc":
		setC16(reg("RD"))
		nz(reg("RD"))
	case "tcs":
		set("SP", C16)
	case "tsc":
		setC16(SP)
		nz(SP)
	case "xba":
		if c.M == 1 {
			set("RAl", reg("RAh"))
			set("RAh", reg("RAl"))
			nz(reg("RAh"))
		} else {
			ra := reg("RA")
			set("RA", o.Or(o.Shl(ra, k16(8)), o.Shr(ra, k16(8), false)))
			nz(hi8(ra))
		}
	case "pha":
		if c.M == 1 {
			push(A)
		} else {
			push16(A)
		}
	case "phx", "phy":
		v := idx(strings.ToUpper(mn[2:]))
		if c.X == 1 {
			push(v)
		} else {
			push16(v)
		}
	case "php":
		push(flagsByte())
	case "phb":
		push(reg("RDBR"))
	case "phk":
		push(reg("RK"))
	case "phd":
		push16(reg("RD"))
	case "pea":
		push16(rc.op16)
	case "pei":
		if !needData() {
			return nil, "no operand"
		}
		push16(data)
	case "per":
		push16(o.Add(o.Add(PC, k16(3)), rc.op16))
	case "pla":
		var v *absint.Int
		if c.M == 1 {
			v = pull()
		} else {
			v = pull16()
		}
		setA(v)
		nz(v)
	case "plx", "ply":
		var v *absint.Int
		if c.X == 1 {
			v = pull()
		} else {
			v = pull16()
		}
		setIdx(strings.ToUpper(mn[2:]), v)
		nz(v)
	case "plb":
		v := pull()
		set("RDBR", v)
		nz(v)
	case "pld":
		v := pull16()
		set("RD", v)
		nz(v)
	case "plp":
		setFlagsFrom(pull())
		widthSwitch()
	case "rep", "sep":
		m := rc.ib(1)
		for i, n := range []string{"C", "Z", "I", "D", "X", "M", "V", "N"} {
			if mn == "rep" {
				ex.flags[n] = absint.BAnd(flagIn(n), absint.BNot(bit(m, i)))
			} else {
				ex.flags[n] = absint.BOr(flagIn(n), bit(m, i))
			}
		}
		widthSwitch()
	case "xce":
		ex.flags["C"] = flagIn("E")
		ex.flags["E"] = flagIn("C")
		// entering emulation forces 8-bit registers and the stack into page 1
		ex.flags["M"] = absint.BOr(flagIn("M"), flagIn("C"))
		ex.flags["X"] = absint.BOr(flagIn("X"), flagIn("C"))
		ex.fields["SP"] = rvIte(flagIn("C"), rvLeaf(o.Or(o.And(SP, k16(0x00FF)), k16(0x0100))), rvLeaf(SP))
		widthSwitch()
	case "clc":
		ex.flags["C"] = absint.BConst(false)
	case "sec":
		ex.flags["C"] = absint.BConst(true)
	case "cld":
		ex.flags["D"] = absint.BConst(false)
	case "sed":
		ex.flags["D"] = absint.BConst(true)
	case "cli":
		ex.flags["I"] = absint.BConst(false)
	case "sei":
		ex.flags["I"] = absint.BConst(true)
	case "clv":
		ex.flags["V"] = absint.BConst(false)
	case "bcc", "bcs", "beq", "bne", "bmi", "bpl", "bvc", "bvs", "bra":
		// PC + 2 + sign-extended displacement
		next := o.Add(PC, k16(2))
		target := rvLeaf(o.Add(next, o.Convert(rc.ib(1), 16, true, false)))
		var cond *absint.BExpr
		switch mn {
		case "bcc":
			cond = absint.BNot(flagIn("C"))
		case "bcs":
			cond = flagIn("C")
		case "beq":
			cond = flagIn("Z")
		case "bne":
			cond = absint.BNot(flagIn("Z"))
		case "bmi":
			cond = flagIn("N")
		case "bpl":
			cond = absint.BNot(flagIn("N"))
		case "bvc":
			cond = absint.BNot(flagIn("V"))
		case "bvs":
			cond = flagIn("V")
		default:
			cond = absint.BConst(true)
		}
		ex.fields["PC"] = rvIte(cond, target, rvLeaf(next))
	case "brl":
		set("PC", o.Add(o.Add(PC, k16(3)), rc.op16))
	case "jmp", "jml":
		switch rc.ref.Mode {
		case "abs":
			set("PC", rc.op16)
		case "long":
			set("PC", rc.op16)
			set("RK", rc.ib(3))
		case "(abs)", "(abs,x)":
			set("PC", o.Convert(rc.ptr, 16, false, false))
		case "[abs]":
			set("PC", o.Convert(rc.ptr, 16, false, false))
			set("RK", o.Convert(o.Shr(rc.ptr, rc.k(32, 16), false), 8, false, false))
		default:
			return nil, "jump mode " + rc.ref.Mode
		}
	case "jsr":
		push16(o.Add(PC, k16(2)))
		switch rc.ref.Mode {
		case "abs":
			set("PC", rc.op16)
		case "(abs,x)":
			set("PC", o.Convert(rc.ptr, 16, false, false))
		default:
			return nil, "jsr mode " + rc.ref.Mode
		}
	case "jsl":
		push(reg("RK"))
		push16(o.Add(PC, k16(3)))
		set("PC", rc.op16)
		set("RK", rc.ib(3))
	case "rts":
		set("PC", o.Add(pull16(), k16(1)))
	case "rtl":
		set("PC", o.Add(pull16(), k16(1)))
		set("RK", pull())
	case "rti":
		setFlagsFrom(pull())
		set("PC", pull16())
		set("RK", pull())
		widthSwitch()
	case "brk", "cop":
		push(reg("RK"))
		push16(o.Add(PC, k16(2)))
		push(flagsByte())
		ex.flags["I"] = absint.BConst(true)
		ex.flags["D"] = absint.BConst(false)
		set("RK", k8(0))
		vec := uint64(0xFFE6)
		if mn == "cop" {
			vec = 0xFFE4
		}
		set("PC", rc.join16(rc.rd(rc.k(32, vec)), rc.rd(rc.k(32, vec+1))))
	case "mvn", "mvp":
		if len(rc.dataAddr) != 2 {
			return nil, "no block operands"
		}
		ex.writes = append(ex.writes, refWrite{rc.dataAddr[1], rvLeaf(rc.rd(rc.dataAddr[0]))})
		one := rc.k(wX, 1)
		if mn == "mvn" {
			setIdx("X", o.Add(idx("X"), one))
			setIdx("Y", o.Add(idx("Y"), one))
		} else {
			setIdx("X", o.Sub(idx("X"), one))
			setIdx("Y", o.Sub(idx("Y"), one))
		}
		// the 16-bit counter decrements; 0 wraps to $FFFF and ends the move
		done := bc.ZeroExpr(C16)
		nc := o.Sub(C16, k16(1))
		// (two spellings of the same value: C-1, or $FFFF written out in the wrapping case)
		setC16(nc)
		if c.M == 1 {
			ex.alt["RAl"] = rvIte(done, rvLeaf(k8(0xFF)), rvLeaf(lo8(nc)))
			ex.alt["RAh"] = rvIte(done, rvLeaf(k8(0xFF)), rvLeaf(hi8(nc)))
		} else {
			ex.alt["RA"] = rvIte(done, rvLeaf(k16(0xFFFF)), rvLeaf(nc))
		}
		set("RDBR", rc.ib(1))
		// the instruction repeats until the counter wraps to $FFFF
		ex.fields["PC"] = rvIte(done, rvLeaf(o.Add(PC, k16(3))), rvLeaf(PC))
	case "nop", "wai":
	case "wdm":
	case "stp":
		ex.bools["Stopped"] = true
	default:
		return nil, "no reference semantics for " + mn
	}
	return ex, ""
}

// observedWrites lists every non-instruction bus write of a cell.
func observedWrites(r *CellResult) []Access {
	var out []Access
	for _, a := range r.Accesses {
		if a.Write && a.Addr != nil {
			out = append(out, a)
		}
	}
	return out
}

func observedStackReads(r *CellResult) []string {
	var out []string
	for _, a := range r.Accesses {
		if a.Write || a.IByte >= 0 || a.Addr == nil {
			continue
		}
		if strings.Contains(shortStack(a.Stack), ">pull") {
			out = append(out, a.Addr.Lin.Key())
		}
	}
	sort.Strings(out)
	return dedupSorted(out)
}

const maxValuePaths = 4096

// pathExplorer walks the decision structure of gated terms: a gated merge is resolved
// once the operands of its condition are free of undecided merges; the condition then
// becomes a boolean expression over canonical propositions on merge-free terms, and
// the walk branches on each proposition not yet fixed on the current path.
type pathExplorer struct {
	o     absint.Ops
	bc    *absint.BoolCtx
	env   map[string]bool   // propositions fixed on this path
	asg   map[string]bool   // gate key -> outcome on this path
	sub   map[string]uint64 // 0/1-valued extraction atoms fixed on this path
	hi    map[string]uint64 // upper bounds of terms, from propositions "c < T" fixed false on this path
	paths int
	over  bool
	note  string
}

func newExplorer(o absint.Ops, bc *absint.BoolCtx, forced map[string]bool) *pathExplorer {
	if bc.O == nil {
		oo := o
		bc.O = &oo
	}
	pe := &pathExplorer{o: o, bc: bc, env: map[string]bool{}, asg: map[string]bool{}, sub: map[string]uint64{}, hi: map[string]uint64{}}
	for k, v := range forced {
		pe.env[k] = v
	}
	return pe
}

func (pe *pathExplorer) describe() string {
	if len(pe.env) == 0 {
		return ""
	}
	var p []string
	for v, b := range pe.env {
		p = append(p, fmt.Sprintf("%s=%v", trunc(v), b))
	}
	sort.Strings(p)
	return " when " + strings.Join(p, ", ")
}

// branch fixes the propositions of e one by one and calls k with e's value.
func (pe *pathExplorer) branch(e *absint.BExpr, k func(bool)) {
	e = e.Assign(pe.env)
	vars := map[string]bool{}
	e.CollectVars(vars)
	if len(vars) == 0 {
		k(e.Eval(nil))
		return
	}
	var vs []string
	for v := range vars {
		vs = append(vs, v)
	}
	sort.Strings(vs)
	v := vs[0]
	for _, b := range []bool{false, true} {
		if pe.over {
			return
		}
		pe.env[v] = b
		// "c < T" false is the bound T <= c
		bname := ""
		if !b && strings.HasPrefix(v, "lt(") {
			var c uint64
			if i := strings.Index(v, ","); i > 3 {
				if _, err := fmt.Sscanf(v[3:i], "%x", &c); err == nil && strings.TrimLeft(v[3:i], "0123456789abcdef") == "" {
					bname = strings.TrimSuffix(v[i+1:], ")")
					if old, had := pe.hi[bname]; had && old <= c {
						bname = ""
					} else {
						pe.hi[bname] = c
					}
				}
			}
		}
		pe.branch(e, k)
		if bname != "" {
			delete(pe.hi, bname)
		}
		delete(pe.env, v)
	}
}

// reducibleBitAtom finds a 0/1 atom in the forms that merely extracts a bit of another
// term and is not yet fixed on the path, with the proposition it stands for.
func (pe *pathExplorer) reducibleBitAtom(ls ...*absint.Lin) (*absint.Atom, *absint.BExpr) {
	for _, l := range ls {
		for _, a := range absint.BitAtoms(l) {
			if _, done := pe.sub[a.Key]; done {
				continue
			}
			e := pe.bc.BitOf(absint.LinAtom(a.W, a), 0)
			if e.Op == "var" && strings.Contains(e.V, a.Key) {
				continue // not reducible to a proposition about something else
			}
			return a, e
		}
	}
	return nil, nil
}

// resolve rebuilds l on the current path until no undecided gated merge is left, and
// calls k with the merge-free value.
func (pe *pathExplorer) resolve(l *absint.Lin, k func(*absint.Int)) {
	if pe.over {
		return
	}
	v := pe.o.RebuildBounded(l, pe.asg, pe.sub, pe.hi)
	conds := map[string]bool{}
	absint.IteConds(v.Lin, conds)
	if len(conds) == 0 {
		// a 0/1 atom that merely extracts a bit of another term (x>>7, the sign inside a
		// sign extension) is a proposition too: fix it on the path and substitute
		if a, e := pe.reducibleBitAtom(v.Lin); a != nil {
			pe.branch(e, func(out bool) {
				if out {
					pe.sub[a.Key] = 1
				} else {
					pe.sub[a.Key] = 0
				}
				pe.resolve(v.Lin, k)
				delete(pe.sub, a.Key)
			})
			return
		}
		pe.paths++
		if pe.paths > maxValuePaths {
			pe.over = true
			return
		}
		k(v)
		return
	}
	// candidates: the merges of the value and, transitively, the merges inside the
	// operands of their conditions
	var keys []string
	for c := range conds {
		keys = append(keys, c)
	}
	sort.Strings(keys)
	seenKey := map[string]bool{}
	for _, c := range keys {
		seenKey[c] = true
	}
	for qi := 0; qi < len(keys); qi++ {
		key := keys[qi]
		b := pe.bc.Conds[key]
		if b == nil || b.Cmp == nil {
			// an opaque boolean: a proposition of its own
			pe.branch(absint.BVar("cond:"+key), func(out bool) {
				pe.asg[key] = out
				pe.resolve(v.Lin, k)
				delete(pe.asg, key)
			})
			return
		}
		x, _ := b.Cmp.X.(*absint.Int)
		y, _ := b.Cmp.Y.(*absint.Int)
		if x == nil || y == nil {
			continue
		}
		xr, yr := pe.o.RebuildBounded(x.Lin, pe.asg, pe.sub, pe.hi), pe.o.RebuildBounded(y.Lin, pe.asg, pe.sub, pe.hi)
		// bit-extraction atoms inside the operands are propositions as well
		if a, e := pe.reducibleBitAtom(xr.Lin, yr.Lin); a != nil {
			pe.branch(e, func(out bool) {
				if out {
					pe.sub[a.Key] = 1
				} else {
					pe.sub[a.Key] = 0
				}
				pe.resolve(v.Lin, k)
				delete(pe.sub, a.Key)
			})
			return
		}
		inner := map[string]bool{}
		absint.IteConds(xr.Lin, inner)
		absint.IteConds(yr.Lin, inner)
		if len(inner) > 0 {
			// not ready: its operands are still gated; their conditions come first
			var more []string
			for c := range inner {
				if !seenKey[c] {
					seenKey[c] = true
					more = append(more, c)
				}
			}
			sort.Strings(more)
			keys = append(keys, more...)
			continue
		}
		e := pe.bc.CmpExpr(&absint.CmpInfo{Op: b.Cmp.Op, X: xr, Y: yr, Sgn: b.Cmp.Sgn})
		pe.branch(e, func(out bool) {
			pe.asg[key] = out
			pe.resolve(v.Lin, k)
			delete(pe.asg, key)
		})
		return
	}
	// every remaining condition is gated by another remaining one: cannot happen for
	// well-founded terms; treat as undecidable
	pe.over = true
	pe.note = fmt.Sprintf(" (no condition ready among %d: %s)", len(keys), trunc(strings.Join(keys, " ## ")))
}

// resolveRef walks a reference decision tree on the current path.
func (pe *pathExplorer) resolveRef(r *refVal, k func(*absint.Int)) {
	if r.v != nil {
		pe.resolve(r.v.Lin, k)
		return
	}
	pe.branch(r.c, func(out bool) {
		if out {
			pe.resolveRef(r.t, k)
		} else {
			pe.resolveRef(r.f, k)
		}
	})
}

// compareValue decides impl == ref as terms on every path through the gating
// conditions of both; returns "" or a description of the first difference.
func compareValue(rc *refCell, bc *absint.BoolCtx, impl *absint.Int, ref *refVal, forced map[string]bool) string {
	return compareValueWhen(rc, bc, impl, ref, forced, nil)
}

// compareValueWhen is compareValue restricted to the paths on which `when` holds.
func compareValueWhen(rc *refCell, bc *absint.BoolCtx, impl *absint.Int, ref *refVal, forced map[string]bool, when *absint.BExpr) string {
	pe := newExplorer(rc.o, bc, forced)
	diff := ""
	guarded := func(k func()) {
		if when == nil {
			k()
			return
		}
		pe.branch(when, func(holds bool) {
			if holds {
				k()
			}
		})
	}
	pe.resolve(impl.Lin, func(got *absint.Int) {
		guarded(func() {
			pe.resolveRef(ref, func(want *absint.Int) {
				if diff != "" {
					return
				}
				g, w := got, want
				if w.W != g.W {
					if w.W > g.W {
						g = rc.o.Convert(g, w.W, false, false)
					} else {
						w = rc.o.Convert(w, g.W, false, false)
					}
				}
				if g.Lin.Key() != w.Lin.Key() {
					diff = fmt.Sprintf("is %s, the model prescribes %s%s", trunc(g.Lin.Key()), trunc(w.Lin.Key()), pe.describe())
					pe.over = true
				}
			})
		})
	})
	if diff == "" && pe.over {
		return fmt.Sprintf("undecided: more than %d paths through the gating conditions%s", maxValuePaths, pe.note)
	}
	return diff
}

// refFlag is a prescribed flag: a boolean expression, or a 0/1 term.
type refFlag struct {
	e *absint.BExpr
	v *absint.Int
}

func compareFlag(rc *refCell, bc *absint.BoolCtx, impl *absint.Int, ref refFlag, forced map[string]bool) string {
	if impl.Hi > 1 {
		return fmt.Sprintf("is not a 0/1 value (up to %#x)", impl.Hi)
	}
	pe := newExplorer(rc.o, bc, forced)
	diff := ""
	cmp := func(g, w *absint.BExpr) {
		if diff != "" {
			return
		}
		gs, ok1 := g.Assign(pe.env).Canon()
		ws, ok2 := w.Assign(pe.env).Canon()
		if !ok1 || !ok2 {
			diff = "undecided: flag depends on too many propositions"
			pe.over = true
		} else if gs != ws {
			diff = fmt.Sprintf("is %s, the model prescribes %s%s", trunc(gs), trunc(ws), pe.describe())
			pe.over = true
		}
	}
	pe.resolve(impl.Lin, func(got *absint.Int) {
		g := bc.BitOf(got.Lin, 0)
		if ref.v != nil {
			pe.resolve(ref.v.Lin, func(want *absint.Int) { cmp(g, bc.BitOf(want.Lin, 0)) })
		} else {
			cmp(g, ref.e)
		}
	})
	if diff == "" && pe.over {
		return fmt.Sprintf("undecided: more than %d paths through the gating conditions%s", maxValuePaths, pe.note)
	}
	return diff
}

func checkValues(ctx *Ctx, isa *ISA, m *CPUModel, rs string, results []*CellResult) {
	R := ctx.R
	type finding struct {
		key string
		op  int
		msg string
	}
	type job struct {
		r   *CellResult
		dec int
	}
	type outcome struct {
		mn                       string
		counted                  bool
		nFields, nFlags, nWrites int
		finds                    []finding
	}
	var jobs []job
	for _, r := range results {
		c := r.Cell
		if c.E != 0 || c.IntrIdx != 0 || !r.Returned || c.Stopped >= 0 || c.Op1 >= 0 || c.DLZero >= 0 {
			continue
		}
		ref := isa.Ops[c.Opcode]
		if ref.Mn == "adc" || ref.Mn == "sbc" {
			// arithmetic is compared with the decimal flag fixed: binary and decimal.
			// The routines do not depend on the addressing mode; the quick tier takes the
			// decimal cells of the immediate form only, the thorough tier all of them.
			jobs = append(jobs, job{r, 1})
			if ctx.Tier == "thorough" || ref.Mode == "imm_m" {
				jobs = append(jobs, job{r, 2})
			}
			continue
		}
		jobs = append(jobs, job{r, 0})
	}
	outs := make([]outcome, len(jobs))
	var wg sync.WaitGroup
	sem := make(chan struct{}, 16)
	for ji := range jobs {
		wg.Add(1)
		sem <- struct{}{}
		go func(ji int) {
			defer wg.Done()
			defer func() { <-sem }()
			out := &outs[ji]
			r := jobs[ji].r
			c := r.Cell
			ref := isa.Ops[c.Opcode]
			out.mn = ref.Mn
			add := func(key string, op int, msg string) { out.finds = append(out.finds, finding{key, op, msg}) }
			defer func() {
				if p := recover(); p != nil {
					add(fmt.Sprintf("%s:%s:engine", rs, ref.Mn), c.Opcode, fmt.Sprintf("cell %s: engine panic: %v", c, p))
				}
			}()
			if jobs[ji].dec > 0 {
				c.Dec = jobs[ji].dec
				r = m.Run(c)
				if !r.Returned {
					add(fmt.Sprintf("%s:%s:decimal-cell", rs, ref.Mn), c.Opcode, "cell "+c.String()+" does not return")
					return
				}
			}
			if c.Dec == 2 {
				out.mn = ref.Mn + "(decimal)"
			}
			rc, ok := newRefCell(ref, c, r.Entry)
			if !ok {
				add(rs+":no-reference:"+ref.Mode, c.Opcode, "no reference access model for this mode")
				return
			}
			bc := &absint.BoolCtx{Conds: r.Conds}
			ex, why := refSemantics(rc, bc, c.Dec == 2)
			if ex == nil {
				add(fmt.Sprintf("%s:%s:no-model", rs, ref.Mn), c.Opcode, "cell "+c.String()+": "+why)
				return
			}
			out.counted = true
			key := func(what string) string {
				if c.Dec == 2 {
					return fmt.Sprintf("%s:%s(decimal):%s:%s", rs, ref.Mn, ref.Mode, what)
				}
				return fmt.Sprintf("%s:%s:%s:%s", rs, ref.Mn, ref.Mode, what)
			}
			// registers
			for _, name := range valueRegNames {
				if ex.skip[name] {
					continue
				}
				fv, _ := r.Final[name].(*absint.Int)
				if fv == nil {
					continue
				}
				want := ex.fields[name]
				if want == nil {
					want = rvLeaf(rc.reg(name))
				}
				out.nFields++
				if d := compareValueWhen(rc, bc, fv, want, ex.forced, ex.when[name]); d != "" {
					if a := ex.alt[name]; a != nil && compareValue(rc, bc, fv, a, ex.forced) == "" {
						continue
					}
					add(key(name), c.Opcode, fmt.Sprintf("cell %s: %s %s", c, name, d))
				}
			}
			// flags
			for _, name := range valueFlagNames {
				fv, _ := r.Final[name].(*absint.Int)
				if fv == nil {
					continue
				}
				want := refFlag{e: ex.flags[name], v: ex.flagV[name]}
				if want.e == nil && want.v == nil {
					want.e = bc.BitOf(rc.reg(name).Lin, 0)
				}
				out.nFlags++
				if d := compareFlag(rc, bc, fv, want, ex.forced); d != "" {
					add(key("flag-"+name), c.Opcode, fmt.Sprintf("cell %s: flag %s %s", c, name, d))
				}
			}
			// writes: same addresses, same data
			obs := observedWrites(r)
			used := make([]bool, len(obs))
			for _, w := range ex.writes {
				ak := w.addr.Lin.Key()
				found := false
				for i, a := range obs {
					if used[i] || a.Addr.Lin.Key() != ak {
						continue
					}
					used[i], found = true, true
					out.nWrites++
					if a.Data == nil {
						add(key("write-data"), c.Opcode, fmt.Sprintf("cell %s: datum written to %s is not an integer", c, trunc(ak)))
					} else if d := compareValue(rc, bc, a.Data, w.data, ex.forced); d != "" {
						add(key("write-data"), c.Opcode, fmt.Sprintf("cell %s: byte written to %s %s", c, trunc(ak), d))
					}
					break
				}
				if !found {
					add(key("write-missing"), c.Opcode, fmt.Sprintf("cell %s: no write to %s", c, trunc(ak)))
				}
			}
			for i, a := range obs {
				if !used[i] {
					add(key("write-extra"), c.Opcode, fmt.Sprintf("cell %s: unexpected write to %s", c, trunc(a.Addr.Lin.Key())))
				}
			}
			// pulls
			var wantPulls []string
			for _, a := range ex.pulls {
				wantPulls = append(wantPulls, a.Lin.Key())
			}
			sort.Strings(wantPulls)
			if got := observedStackReads(r); strings.Join(got, "|") != strings.Join(dedupSorted(wantPulls), "|") {
				add(key("pulls"), c.Opcode, fmt.Sprintf("cell %s: stack reads %s", c, diffSets(got, wantPulls)))
			}
			for name, want := range ex.bools {
				if b, ok := r.Final[name].(*absint.Bool); !ok || (b.K == absint.TriT) != want || b.K == absint.TriTop {
					add(key(name), c.Opcode, fmt.Sprintf("cell %s: %s is %s", c, name, absint.ValKey(r.Final[name])))
				}
			}

		}(ji)
	}
	wg.Wait()
	bad := aggMap{}
	n, nFields, nFlags, nWrites := 0, 0, 0, 0
	perMn := map[string]int{}
	badMn := map[string]bool{}
	for _, o := range outs {
		if o.counted {
			n++
			perMn[o.mn]++
		}
		nFields += o.nFields
		nFlags += o.nFlags
		nWrites += o.nWrites
		for _, f := range o.finds {
			bad.add(f.key, f.op, "", f.msg)
			badMn[o.mn] = true
		}
	}
	R.Count("value-cells", n)
	R.Count("value-fields", nFields)
	R.Count("value-flags", nFlags)
	R.Count("value-writes", nWrites)
	for _, k := range bad.keys() {
		g := bad[k]
		R.Fail("value", k, g.pos, fmt.Sprintf("opcodes %s (%d cells); e.g. %s", opSet(g.ops), g.n, g.ex))
	}
	var mns []string
	for mn := range perMn {
		mns = append(mns, mn)
	}
	sort.Strings(mns)
	for _, mn := range mns {
		if !badMn[mn] {
			R.Pass("value", rs+":"+mn, "", fmt.Sprintf("%d cells: registers, flags, written and pulled bytes equal the prescribed terms", perMn[mn]))
		}
	}
	R.Count("value-mnemonics", len(mns))
}

// sameTerm decides whether two abstract integers, possibly built in different
// interpreter runs, denote the same function of the entry symbols: equal keys, or
// equal merge-free terms on every path through the gating conditions of both (for
// 0/1 values: equal boolean functions of the canonical propositions).
func sameTerm(x *absint.Int, cx map[string]*absint.Bool, y *absint.Int, cy map[string]*absint.Bool) (bool, string) {
	return sameTermUnder(x, cx, y, cy, nil)
}

// sameTermUnder is sameTerm on the paths where the given branch outcomes (gate key ->
// outcome) hold.
func sameTermUnder(x *absint.Int, cx map[string]*absint.Bool, y *absint.Int, cy map[string]*absint.Bool, under map[string]bool) (bool, string) {
	if x.Lin.Key() == y.Lin.Key() && x.W == y.W {
		return true, ""
	}
	conds := map[string]*absint.Bool{}
	for k, v := range cx {
		conds[k] = v
	}
	for k, v := range cy {
		if _, ok := conds[k]; !ok {
			conds[k] = v
		}
	}
	o := absint.Ops{In: absint.NewInterner()}
	bc := &absint.BoolCtx{Conds: conds}
	pe := newExplorer(o, bc, nil)
	for k, v := range under {
		pe.asg[k] = v
		// a condition that is a single proposition fixes that proposition
		e := bc.CondExpr(k)
		neg := false
		for e.Op == "not" {
			e, neg = e.A[0], !neg
		}
		if e.Op == "var" {
			pe.env[e.V] = v != neg
		}
	}
	diff := ""
	flag := x.Hi <= 1 && y.Hi <= 1
	pe.resolve(x.Lin, func(gx *absint.Int) {
		pe.resolve(y.Lin, func(gy *absint.Int) {
			if diff != "" {
				return
			}
			if flag {
				ex, ey := bc.BitOf(gx.Lin, 0).Assign(pe.env), bc.BitOf(gy.Lin, 0).Assign(pe.env)
				sx, ok1 := ex.Canon()
				sy, ok2 := ey.Canon()
				if !ok1 || !ok2 || sx != sy {
					diff = fmt.Sprintf("%s vs %s%s", trunc(sx), trunc(sy), pe.describe())
					pe.over = true
				}
				return
			}
			a, b := gx, gy
			if a.W != b.W {
				if a.W < b.W {
					a = o.Convert(a, b.W, false, false)
				} else {
					b = o.Convert(b, a.W, false, false)
				}
			}
			if a.Lin.Key() != b.Lin.Key() {
				diff = fmt.Sprintf("%s vs %s%s", trunc(a.Lin.Key()), trunc(b.Lin.Key()), pe.describe())
				pe.over = true
			}
		})
	})
	if diff == "" && pe.over {
		return false, "undecided: too many paths through the gating conditions" + pe.note
	}
	return diff == "", diff
}

// hasInexactMerge reports whether the value contains a merge of two computations
// whose controlling condition the interpreter could not name.
func hasInexactMerge(v absint.Val) bool {
	iv, ok := v.(*absint.Int)
	if !ok || iv.Lin == nil {
		return false
	}
	return strings.Contains(iv.Lin.Key(), "join#")
}

// resolveUnder re-evaluates x on the paths where the given canonical propositions have
// the given truth values: gated merges whose conditions (however written, however
// nested) reduce to those propositions are resolved. It returns the single merge-free
// value x has there, or ok=false if x still depends on other conditions.
func resolveUnder(x *absint.Int, conds map[string]*absint.Bool, props map[string]bool) (*absint.Int, bool) {
	o := absint.Ops{In: absint.NewInterner()}
	bc := &absint.BoolCtx{Conds: conds}
	pe := newExplorer(o, bc, props)
	var leaf *absint.Int
	ok := true
	pe.resolve(x.Lin, func(v *absint.Int) {
		if os.Getenv("SVDEBUG") != "" {
			fmt.Println("RESOLVE leaf", trunc(v.Lin.Key()), pe.describe())
		}
		if leaf != nil && leaf.Lin.Key() != v.Lin.Key() {
			ok = false
		}
		leaf = v
	})
	if os.Getenv("SVDEBUG") != "" {
		fmt.Println("RESOLVE done over=", pe.over, pe.note, "props", props)
	}
	if pe.over || leaf == nil {
		return nil, false
	}
	return leaf, ok
}

// propName is the canonical proposition (and its polarity) of a comparison.
func propName(op string, x, y *absint.Int) (string, bool) {
	bc := &absint.BoolCtx{}
	e := bc.CmpExpr(&absint.CmpInfo{Op: op, X: x, Y: y})
	val := true
	for e.Op == "not" {
		e, val = e.A[0], !val
	}
	if e.Op != "var" {
		return "", false
	}
	return e.V, val
}
