package rules

import (
	"fmt"
	"go/types"
	"strings"

	"golang.org/x/tools/go/ssa"

	"verif/tool/absint"
	"verif/tool/load"
)

// World is an interpreter whose base heap holds the image of the module's
// package-level variables as established by the package initialisers (the synthetic
// init functions are straight-line code and are interpreted by E1 itself, so the
// tables come from the resolved program, not from text).
type World struct {
	IP       *absint.Interp
	Base     map[string]absint.Val
	InitNote []string
}

func NewWorld(ctx *Ctx, pkgs ...string) *World {
	ip := absint.New()
	w := &World{IP: ip}
	ip.Hooks.ExtCall = func(ip *absint.Interp, st *absint.State, ev *absint.Event) (absint.Val, bool) {
		// imported packages' init() and value constructors: no effect on module globals
		if strings.HasSuffix(ev.Callee, ".init") {
			return nil, true
		}
		return nil, false
	}
	st := &absint.State{Heap: absint.NewHeap(nil)}
	for _, rel := range pkgs {
		pk := ctx.Prog.Pkg(rel)
		if pk == nil {
			w.InitNote = append(w.InitNote, "package "+rel+" not found")
			continue
		}
		initFn := pk.Func("init")
		if initFn == nil {
			continue
		}
		// the guard is false on first entry
		if g, ok := pk.Members["init$guard"].(*ssa.Global); ok {
			ip.Store(st, ip.GlobalPtr(g), types.Typ[types.Bool], &absint.Bool{K: absint.TriF})
		}
		ip.Reset()
		_, out := ip.Call(initFn, nil, nil, st)
		if out == nil {
			w.InitNote = append(w.InitNote, "init of "+rel+" does not return")
			continue
		}
		st = &absint.State{Heap: out.Heap}
		if ip.ZeroGlobalPkgs == nil {
			ip.ZeroGlobalPkgs = map[string]bool{}
		}
		ip.ZeroGlobalPkgs[pk.Pkg.Path()] = true
		for _, im := range ip.Imprec {
			if strings.Contains(im, "unmodelled external") {
				continue // initialisers calling into the standard library yield opaque values
			}
			w.InitNote = append(w.InitNote, rel+": "+im)
		}
	}
	w.Base = st.Heap.Freeze()
	ip.Hooks.ExtCall = nil
	ip.Reset()
	return w
}

func (w *World) NewState() *absint.State { return &absint.State{Heap: absint.NewHeap(w.Base)} }

// GlobalPtr returns a pointer to package-level variable name of package rel.
func (w *World) GlobalPtr(ctx *Ctx, rel, name string) (*absint.Ptr, *ssa.Global, error) {
	pk := ctx.Prog.Pkg(rel)
	if pk == nil {
		return nil, nil, fmt.Errorf("package %s not found", rel)
	}
	g, ok := pk.Members[name].(*ssa.Global)
	if !ok {
		return nil, nil, fmt.Errorf("global %s.%s not found", rel, name)
	}
	return w.IP.GlobalPtr(g), g, nil
}

func sel(p *absint.Ptr, t types.Type, s absint.Sel) *absint.Ptr {
	np := &absint.Ptr{Nil: absint.TriF, Obj: p.Obj, T: t}
	np.Path = append(append([]absint.Sel(nil), p.Path...), s)
	return np
}

func elemPtr(p *absint.Ptr, t types.Type, i int) *absint.Ptr {
	return sel(p, t, absint.Sel{Field: -1, Index: i})
}
func fieldPtr(p *absint.Ptr, t types.Type, i int) *absint.Ptr {
	return sel(p, t, absint.Sel{Field: i, Index: -1})
}

// fieldIndex finds a struct field by name.
func fieldIndex(st *types.Struct, name string) int {
	for i := 0; i < st.NumFields(); i++ {
		if st.Field(i).Name() == name {
			return i
		}
	}
	return -1
}

var _ = load.ModulePath
