package rules

import (
	"fmt"
	"go/constant"
	"go/token"
	"go/types"
	"sort"
	"strings"

	"golang.org/x/tools/go/ssa"

	"verif/tool/absint"
)

// The renderers of C14 and C15 are analysed with the xbuf.B methods as atomic sinks
// ("X02 renders its argument as two hex digits"). This file discharges that modelling
// assumption against the source of xbuf itself:
//
//   xbuf-append   every method of *xbuf.B changes *b only by `*b = append(*b, …)` (or
//                 strconv.Append*), contains no operation that can panic (every index is
//                 proven in range by a mask or by the loop guard, *b is never re-sliced),
//                 and returns its receiver;
//   xbuf-meaning  what each method appends is what its name promises (the table below).
//
// The methods are tiny, so the rule is a closed-world structural reading of their SSA:
// any instruction it does not recognise fails the method as "undecided".

// expected append sequence per method, in the notation produced by xbufDescribe.
var xbufMeaning = map[string][]string{
	"C":   {"[p1]"},
	"X02": {"[hex(p1>>4) hex(p1>>0)]"},
	"X04": {"[hex(p1>>12) hex(p1>>8) hex(p1>>4) hex(p1>>0)]"},
	"X06": {"[hex(p1>>20) hex(p1>>16) hex(p1>>12) hex(p1>>8) hex(p1>>4) hex(p1>>0)]"},
	"S":   {"for i in 0..len(p1): [p1[i]]"},
	"Sb":  {"for i in 0..len(p1): [p1[i]]"},
	"Sn":  {"for i in 0..len(p1): [p1[i]]", "repeat max(0,-len(p1)+p2): [32]"},
	"Db":  {"dec(p1)"},
}

// bulk forms that mean the same as the element-wise loop
var xbufEquivalent = map[string]string{
	"all(p1)": "for i in 0..len(p1): [p1[i]]",
}

const xbufHexDigits = "0123456789abcdef"

type xbufReader struct {
	fn     *ssa.Function
	recv   *ssa.Parameter
	loops  []*natLoop
	reason string
}

func (x *xbufReader) fail(format string, a ...any) {
	if x.reason == "" {
		x.reason = fmt.Sprintf(format, a...)
	}
}

func (x *xbufReader) paramName(v ssa.Value) (string, bool) {
	for {
		switch c := v.(type) {
		case *ssa.Convert:
			v = c.X
			continue
		case *ssa.ChangeType:
			v = c.X
			continue
		}
		break
	}
	p, ok := v.(*ssa.Parameter)
	if !ok {
		return "", false
	}
	for i, q := range x.fn.Params {
		if q == p && i > 0 {
			return fmt.Sprintf("p%d", i), true
		}
	}
	return "", false
}

func constInt(v ssa.Value) (int64, bool) {
	c, ok := v.(*ssa.Const)
	if !ok || c.Value == nil || c.Value.Kind() != constant.Int {
		return 0, false
	}
	if _, _, isInt := IntTypeOf(c.Type()); !isInt {
		return 0, false
	}
	return c.Int64(), true
}

// IntTypeOf reports width/signedness for basic integer types.
func IntTypeOf(t types.Type) (int, bool, bool) {
	b, ok := t.Underlying().(*types.Basic)
	if !ok || b.Info()&types.IsInteger == 0 {
		return 0, false, false
	}
	return 0, b.Info()&types.IsUnsigned == 0, true
}

// isLoadOfRecv: v is `*b` (possibly through changetype).
func (x *xbufReader) isLoadOfRecv(v ssa.Value) bool {
	if c, ok := v.(*ssa.ChangeType); ok {
		v = c.X
	}
	u, ok := v.(*ssa.UnOp)
	return ok && u.Op == token.MUL && u.X == x.recv
}

// loopIndex recognises `i` as a counter: phi(init, i+1) in a loop header whose exit test
// is i < bound; returns descriptions of init and bound and the loop.
func (x *xbufReader) loopIndex(v ssa.Value) (init, bound string, boundVal ssa.Value, l *natLoop, ok bool) {
	ph, isPhi := v.(*ssa.Phi)
	if !isPhi || len(ph.Edges) != 2 {
		return
	}
	for _, cand := range x.loops {
		if cand.Header == ph.Block() {
			l = cand
		}
	}
	if l == nil {
		return
	}
	var initV ssa.Value
	stepOK := false
	for i, pb := range ph.Block().Preds {
		e := ph.Edges[i]
		if l.Body[pb] {
			bo, isB := e.(*ssa.BinOp)
			if isB && bo.Op == token.ADD && bo.X == ph {
				if c, isC := constInt(bo.Y); isC && c == 1 {
					stepOK = true
				}
			}
		} else {
			initV = e
		}
	}
	if !stepOK || initV == nil {
		return
	}
	// header ends in `if i < bound goto body else exit`
	iff, isIf := ph.Block().Instrs[len(ph.Block().Instrs)-1].(*ssa.If)
	if !isIf {
		return
	}
	cmp, isB := iff.Cond.(*ssa.BinOp)
	if !isB || cmp.Op != token.LSS || cmp.X != ph || !l.Body[ph.Block().Succs[0]] || l.Body[ph.Block().Succs[1]] {
		return
	}
	boundVal = cmp.Y
	bound = x.intDesc(cmp.Y)
	init = x.intDesc(initV)
	if init == "" || bound == "" {
		return
	}
	// the counter must start non-negative: constant >= 0 or a len()
	if c, isC := constInt(initV); isC {
		if c < 0 {
			return
		}
	} else if !strings.HasPrefix(init, "len(") {
		return
	}
	ok = true
	return
}

// linear reads an integer expression over constants, parameters and len(parameter)
// as a linear form (term -> coefficient; "1" is the constant term).
func (x *xbufReader) linear(v ssa.Value, depth int) (map[string]int64, bool) {
	if depth > 8 {
		return nil, false
	}
	if c, ok := constInt(v); ok {
		return map[string]int64{"1": c}, true
	}
	if _, isP := v.(*ssa.Parameter); isP {
		if n, ok := x.paramName(v); ok {
			return map[string]int64{n: 1}, true
		}
		return nil, false
	}
	switch t := v.(type) {
	case *ssa.Call:
		if b, isB := t.Call.Value.(*ssa.Builtin); isB && b.Name() == "len" && len(t.Call.Args) == 1 {
			if n, ok := x.paramName(t.Call.Args[0]); ok {
				return map[string]int64{"len(" + n + ")": 1}, true
			}
		}
	case *ssa.BinOp:
		if t.Op == token.ADD || t.Op == token.SUB {
			a, ok1 := x.linear(t.X, depth+1)
			b, ok2 := x.linear(t.Y, depth+1)
			if ok1 && ok2 {
				r := map[string]int64{}
				for k, c := range a {
					r[k] += c
				}
				for k, c := range b {
					if t.Op == token.SUB {
						r[k] -= c
					} else {
						r[k] += c
					}
				}
				return r, true
			}
		}
	}
	return nil, false
}

func linearString(m map[string]int64) string {
	var ks []string
	for k, c := range m {
		if c != 0 {
			ks = append(ks, k)
		}
	}
	sort.Strings(ks)
	if len(ks) == 0 {
		return "0"
	}
	var sb strings.Builder
	for i, k := range ks {
		c := m[k]
		switch {
		case k == "1":
			if c >= 0 && i > 0 {
				sb.WriteByte('+')
			}
			fmt.Fprintf(&sb, "%d", c)
		case c == 1:
			if i > 0 {
				sb.WriteByte('+')
			}
			sb.WriteString(k)
		case c == -1:
			sb.WriteString("-" + k)
		default:
			if c >= 0 && i > 0 {
				sb.WriteByte('+')
			}
			fmt.Fprintf(&sb, "%d*%s", c, k)
		}
	}
	return sb.String()
}

// countLoop recognises a loop that merely counts: one carried value stepping by +1 up
// to a bound or by -1 down to one, not used for anything but the step and the test.
// It returns the number of iterations (before clamping at zero) as a linear string.
func (x *xbufReader) countLoop(l *natLoop) (string, bool) {
	var ph *ssa.Phi
	for _, in := range l.Header.Instrs {
		if p, ok := in.(*ssa.Phi); ok {
			if ph != nil {
				return "", false
			}
			ph = p
		}
	}
	if ph == nil || len(ph.Edges) != 2 {
		return "", false
	}
	var initV ssa.Value
	step := int64(0)
	var stepInstr ssa.Instruction
	for i, pb := range l.Header.Preds {
		e := ph.Edges[i]
		if l.Body[pb] {
			bo, isB := e.(*ssa.BinOp)
			if !isB || bo.X != ph {
				return "", false
			}
			c, isC := constInt(bo.Y)
			if !isC || c != 1 {
				return "", false
			}
			switch bo.Op {
			case token.ADD:
				step = 1
			case token.SUB:
				step = -1
			default:
				return "", false
			}
			stepInstr = bo
		} else {
			initV = e
		}
	}
	iff, isIf := l.Header.Instrs[len(l.Header.Instrs)-1].(*ssa.If)
	if !isIf || step == 0 || initV == nil || !l.Body[l.Header.Succs[0]] || l.Body[l.Header.Succs[1]] {
		return "", false
	}
	cmp, isB := iff.Cond.(*ssa.BinOp)
	if !isB {
		return "", false
	}
	// the counter is used by the step and the test only
	for _, r := range *ph.Referrers() {
		if r != stepInstr && r != ssa.Instruction(cmp) {
			if _, isDbg := r.(*ssa.DebugRef); !isDbg {
				return "", false
			}
		}
	}
	var boundV ssa.Value
	switch {
	case step == 1 && cmp.Op == token.LSS && cmp.X == ph:
		boundV = cmp.Y
	case step == 1 && cmp.Op == token.GTR && cmp.Y == ph:
		boundV = cmp.X
	case step == -1 && cmp.Op == token.GTR && cmp.X == ph:
		boundV = cmp.Y
	case step == -1 && cmp.Op == token.LSS && cmp.Y == ph:
		boundV = cmp.X
	default:
		return "", false
	}
	a, ok1 := x.linear(initV, 0)
	b, ok2 := x.linear(boundV, 0)
	if !ok1 || !ok2 {
		return "", false
	}
	cnt := map[string]int64{}
	for k, c := range b {
		cnt[k] += c * step
	}
	for k, c := range a {
		cnt[k] -= c * step
	}
	return linearString(cnt), true
}

// intDesc: constants, parameters and len(param).
func (x *xbufReader) intDesc(v ssa.Value) string {
	if c, ok := constInt(v); ok {
		return fmt.Sprint(c)
	}
	if n, ok := x.paramName(v); ok {
		return n
	}
	if c, ok := v.(*ssa.Call); ok {
		if b, isB := c.Call.Value.(*ssa.Builtin); isB && b.Name() == "len" && len(c.Call.Args) == 1 {
			if n, ok := x.paramName(c.Call.Args[0]); ok {
				return "len(" + n + ")"
			}
		}
	}
	return ""
}

// elemDesc describes one appended byte and proves its computation cannot panic.
func (x *xbufReader) elemDesc(v ssa.Value, at *ssa.BasicBlock) string {
	if n, ok := x.paramName(v); ok {
		if _, isP := v.(*ssa.Parameter); isP {
			return n
		}
	}
	if c, ok := constInt(v); ok {
		return fmt.Sprint(c)
	}
	switch t := v.(type) {
	case *ssa.Lookup, *ssa.Index:
		// hexdigits[(d >> k) & 15]
		var tx, tidx ssa.Value
		if l, ok := t.(*ssa.Lookup); ok {
			tx, tidx = l.X, l.Index
		} else {
			tx, tidx = t.(*ssa.Index).X, t.(*ssa.Index).Index
		}
		c, ok := tx.(*ssa.Const)
		if !ok || c.Value == nil || c.Value.Kind() != constant.String {
			x.fail("lookup in a non-constant string")
			return ""
		}
		str := constant.StringVal(c.Value)
		idx := tidx
		if cv, ok := idx.(*ssa.Convert); ok {
			idx = cv.X
		}
		and, ok := idx.(*ssa.BinOp)
		if !ok || and.Op != token.AND {
			x.fail("string index %s is not masked", idx)
			return ""
		}
		m, ok := constInt(and.Y)
		if !ok || m < 0 || int(m) >= len(str) {
			x.fail("string index mask %s does not keep the index below len=%d", and.Y, len(str))
			return ""
		}
		sh := int64(0)
		src := and.X
		if s, ok := src.(*ssa.BinOp); ok && s.Op == token.SHR {
			k, isC := constInt(s.Y)
			if !isC {
				x.fail("shift amount is not constant")
				return ""
			}
			sh, src = k, s.X
		}
		n, ok := x.paramName(src)
		if !ok {
			x.fail("digit source %s is not a parameter", src)
			return ""
		}
		if _, isP := src.(*ssa.Parameter); !isP {
			x.fail("digit source %s is converted before the shift", src)
			return ""
		}
		if str == xbufHexDigits && m == 15 {
			return fmt.Sprintf("hex(%s>>%d)", n, sh)
		}
		return fmt.Sprintf("%q[(%s>>%d)&%d]", str, n, sh, m)
	case *ssa.UnOp:
		if t.Op != token.MUL {
			break
		}
		ia, ok := t.X.(*ssa.IndexAddr)
		if !ok {
			break
		}
		n, ok := x.paramName(ia.X)
		if !ok {
			x.fail("indexes something other than a parameter: %s", ia.X)
			return ""
		}
		_, bound, _, l, ok := x.loopIndex(ia.Index)
		if !ok {
			x.fail("index %s is not a recognised loop counter", ia.Index)
			return ""
		}
		if bound != "len("+n+")" {
			x.fail("index of %s is bounded by %s, not by its length", n, bound)
			return ""
		}
		hdr := l.Header
		if !l.Body[at] || !edgeDominates(hdr, 0, at) {
			x.fail("element read is not guarded by the loop test")
			return ""
		}
		return n + "[i]"
	}
	x.fail("unrecognised appended value %s", v)
	return ""
}

// varargs recognises `new [k]T (varargs)` filled element by element and sliced whole.
func (x *xbufReader) varargs(v ssa.Value, at *ssa.BasicBlock) ([]string, bool) {
	sl, ok := v.(*ssa.Slice)
	if !ok || sl.Low != nil || sl.High != nil || sl.Max != nil {
		return nil, false
	}
	al, ok := sl.X.(*ssa.Alloc)
	if !ok {
		return nil, false
	}
	arr, ok := al.Type().Underlying().(*types.Pointer).Elem().Underlying().(*types.Array)
	if !ok {
		return nil, false
	}
	out := make([]string, arr.Len())
	for _, ref := range *al.Referrers() {
		switch r := ref.(type) {
		case *ssa.IndexAddr:
			k, isC := constInt(r.Index)
			if !isC || k < 0 || k >= arr.Len() {
				x.fail("varargs element index not a constant in range")
				return nil, true
			}
			for _, rr := range *r.Referrers() {
				st, isS := rr.(*ssa.Store)
				if !isS || st.Addr != r {
					x.fail("varargs element used for something other than its initialisation")
					return nil, true
				}
				if out[k] != "" {
					x.fail("varargs element %d stored twice", k)
					return nil, true
				}
				out[k] = x.elemDesc(st.Val, at)
			}
		case *ssa.Slice, *ssa.DebugRef:
		default:
			x.fail("varargs array escapes: %s", ref)
			return nil, true
		}
	}
	for k, d := range out {
		if d == "" {
			x.fail("varargs element %d not initialised", k)
		}
	}
	return out, true
}

// xbufDescribe reads one method and returns what it appends (one string per append site,
// in block order), or a reason why the method is not in the recognised append-only form.
func xbufDescribe(fn *ssa.Function) (sites []string, reason string) {
	x := &xbufReader{fn: fn, loops: loopsOf(fn)}
	if len(fn.Params) == 0 {
		return nil, "no receiver"
	}
	x.recv = fn.Params[0]
	consumed := map[ssa.Instruction]bool{} // instructions justified as part of a recognised idiom
	for _, b := range fn.Blocks {
		for _, in := range b.Instrs {
			switch t := in.(type) {
			case *ssa.Store:
				if t.Addr == x.recv {
					// *b = append(*b, …) | strconv.AppendX(*b, v, 10)
					val := t.Val
					if c, ok := val.(*ssa.ChangeType); ok {
						val = c.X
					}
					call, ok := val.(*ssa.Call)
					if !ok {
						x.fail("*b is assigned %s, not the result of an append", t.Val)
						continue
					}
					if len(call.Call.Args) == 0 || !x.isLoadOfRecv(call.Call.Args[0]) {
						x.fail("append does not extend *b")
						continue
					}
					// the load of *b and the store are in one block with no other store between
					ld := call.Call.Args[0]
					if c, ok := ld.(*ssa.ChangeType); ok {
						ld = c.X
					}
					if ld.(*ssa.UnOp).Block() != b || hasStoreToBetween(b, instrIndex(ld.(*ssa.UnOp)), instrIndex(t), x.recv) {
						x.fail("*b is re-read before the append result is stored")
						continue
					}
					desc := ""
					if bi, isB := call.Call.Value.(*ssa.Builtin); isB && bi.Name() == "append" {
						arg := call.Call.Args[1]
						if els, isVar := x.varargs(arg, b); isVar {
							desc = "[" + strings.Join(els, " ") + "]"
						} else if n, ok := x.paramName(arg); ok {
							desc = "all(" + n + ")"
						} else {
							x.fail("appended operand %s not recognised", arg)
							continue
						}
					} else if callee := call.Call.StaticCallee(); callee != nil && callee.Pkg != nil && callee.Pkg.Pkg.Path() == "strconv" && (callee.Name() == "AppendInt" || callee.Name() == "AppendUint") {
						n, ok := x.paramName(call.Call.Args[1])
						base, isC := constInt(call.Call.Args[2])
						if !ok || !isC {
							x.fail("strconv.%s arguments not recognised", callee.Name())
							continue
						}
						// widening conversion of an unsigned parameter keeps its value
						if base == 10 {
							desc = "dec(" + n + ")"
						} else {
							desc = fmt.Sprintf("base%d(%s)", base, n)
						}
					} else {
						x.fail("*b is assigned the result of %s", call.Call.Value)
						continue
					}
					// loop context
					for _, l := range x.loops {
						if l.Body[b] {
							var ph *ssa.Phi
							for _, hi := range l.Header.Instrs {
								if p, ok := hi.(*ssa.Phi); ok {
									if ph != nil {
										x.fail("loop with more than one carried value")
									}
									ph = p
								}
							}
							if ph == nil {
								x.fail("loop without a counter")
								break
							}
							if !edgeDominates(l.Header, 0, b) {
								x.fail("append not guarded by the loop test")
							}
							if !strings.Contains(desc, "[i]") {
								// the body does not look at the counter: only the trip count matters
								if cnt, ok := x.countLoop(l); ok {
									desc = fmt.Sprintf("repeat max(0,%s): %s", cnt, desc)
									continue
								}
							}
							init, bound, _, _, ok := x.loopIndex(ph)
							if !ok {
								x.fail("loop counter not of the form i := a; i < b; i++")
								break
							}
							desc = fmt.Sprintf("for i in %s..%s: %s", init, bound, desc)
						}
					}
					if e, ok := xbufEquivalent[desc]; ok {
						desc = e
					}
					sites = append(sites, desc)
					consumed[call] = true
					continue
				}
				// stores into varargs arrays are validated by varargs()
				if ia, ok := t.Addr.(*ssa.IndexAddr); ok {
					if al, ok := ia.X.(*ssa.Alloc); ok && al.Comment == "varargs" {
						continue
					}
				}
				x.fail("store to %s", t.Addr)
			case *ssa.Call:
				if bi, ok := t.Call.Value.(*ssa.Builtin); ok && (bi.Name() == "len" || bi.Name() == "append") {
					if bi.Name() == "append" {
						// must be consumed by a store to *b
						used := false
						for _, r := range *t.Referrers() {
							if s, ok := r.(*ssa.Store); ok && s.Addr == x.recv {
								used = true
							}
							if c, ok := r.(*ssa.ChangeType); ok {
								for _, r2 := range *c.Referrers() {
									if s, ok := r2.(*ssa.Store); ok && s.Addr == x.recv {
										used = true
									}
								}
							}
						}
						if !used {
							x.fail("append result not stored to *b")
						}
					}
					continue
				}
				if callee := t.Call.StaticCallee(); callee != nil && callee.Pkg != nil && callee.Pkg.Pkg.Path() == "strconv" && strings.HasPrefix(callee.Name(), "Append") {
					continue
				}
				x.fail("call to %s", t.Call.Value)
			case *ssa.Slice:
				if al, ok := t.X.(*ssa.Alloc); ok && al.Comment == "varargs" && t.Low == nil && t.High == nil && t.Max == nil {
					continue
				}
				x.fail("slice expression %s can panic or truncate", t)
			case *ssa.IndexAddr:
				if al, ok := t.X.(*ssa.Alloc); ok && al.Comment == "varargs" {
					continue
				}
				// element reads are validated where they are consumed (elemDesc); make sure
				// every use is a load
				for _, r := range *t.Referrers() {
					if u, ok := r.(*ssa.UnOp); !ok || u.Op != token.MUL {
						if _, isDbg := r.(*ssa.DebugRef); !isDbg {
							x.fail("element address used for something other than a load")
						}
					}
				}
				if _, _, _, _, ok := x.loopIndex(t.Index); !ok {
					x.fail("index %s not proven in range", t.Index)
				}
			case *ssa.Index, *ssa.Lookup:
				// validated by elemDesc when appended; when not appended it must still be in range
				if x.elemDesc(t.(ssa.Value), b) == "" {
					x.fail("lookup not proven in range")
				}
			case *ssa.BinOp:
				if t.Op == token.QUO || t.Op == token.REM {
					if c, ok := constInt(t.Y); !ok || c == 0 {
						x.fail("division by a non-constant")
					}
				}
			case *ssa.TypeAssert:
				x.fail("type assertion")
			case *ssa.Panic:
				x.fail("explicit panic")
			case *ssa.Return:
				if len(t.Results) != 1 || t.Results[0] != x.recv {
					x.fail("does not return its receiver")
				}
			case *ssa.If:
				// a branch is either the test of a recognised loop or a redundant guard around one (`if n > len(s)`
				// in front of `for i := len(s); i < n; i++`): anything else would make an append conditional
				isHeader := false
				for _, l := range x.loops {
					if l.Header == b {
						isHeader = true
					}
				}
				if isHeader {
					break
				}
				okGuard := false
				if cmp, isB := t.Cond.(*ssa.BinOp); isB {
					var hi, lo ssa.Value
					switch cmp.Op {
					case token.GTR:
						hi, lo = cmp.X, cmp.Y
					case token.LSS:
						hi, lo = cmp.Y, cmp.X
					}
					if hi != nil {
						hl, ok1 := x.linear(hi, 0)
						ll, ok2 := x.linear(lo, 0)
						if ok1 && ok2 {
							d := map[string]int64{}
							for k, c := range hl {
								d[k] += c
							}
							for k, c := range ll {
								d[k] -= c
							}
							for _, l := range x.loops {
								cnt, okc := x.countLoop(l)
								// skipping the loop and leaving it arrive at the same place (through empty blocks)
								through := func(blk *ssa.BasicBlock) *ssa.BasicBlock {
									for n := 0; n < 8 && len(blk.Instrs) == 1 && len(blk.Succs) == 1; n++ {
										if _, isJ := blk.Instrs[0].(*ssa.Jump); !isJ {
											break
										}
										blk = blk.Succs[0]
									}
									return blk
								}
								if !okc || cnt != linearString(d) || !edgeDominates(b, 0, l.Header) || through(b.Succs[1]) != through(l.Header.Succs[1]) {
									continue
								}
								// nothing but the loop lies behind the guard
								clean := true
								for _, ob := range fn.Blocks {
									if ob == b || l.Body[ob] || ob == l.Header.Succs[1] || !edgeDominates(b, 0, ob) {
										continue
									}
									if l.Header.Succs[1].Dominates(ob) || through(b.Succs[1]).Dominates(ob) {
										continue // after the loop: reached either way
									}
									for _, oi := range ob.Instrs {
										switch y := oi.(type) {
										case *ssa.Store:
											clean = false
										case *ssa.Call:
											if bi, isB := y.Call.Value.(*ssa.Builtin); !isB || (bi.Name() != "len" && bi.Name() != "cap") {
												clean = false
											}
										}
									}
								}
								if clean {
									okGuard = true
								}
							}
						}
					}
				}
				if !okGuard {
					x.fail("the branch on %s is neither a loop test nor a redundant guard of a counted loop: an append would be conditional", t.Cond)
				}
			case *ssa.UnOp, *ssa.Convert, *ssa.ChangeType, *ssa.Phi, *ssa.Jump, *ssa.DebugRef, *ssa.Alloc:
				if al, ok := t.(*ssa.Alloc); ok && al.Comment != "varargs" {
					x.fail("local allocation %s", al.Comment)
				}
				if u, ok := t.(*ssa.UnOp); ok && u.Op == token.MUL {
					if _, isParam := u.X.(*ssa.Parameter); !isParam {
						if _, isIA := u.X.(*ssa.IndexAddr); !isIA {
							x.fail("load through %s", u.X)
						}
					}
				}
			case *ssa.MakeSlice, *ssa.MakeMap, *ssa.MapUpdate, *ssa.Defer, *ssa.Go, *ssa.Send, *ssa.RunDefers:
				x.fail("unexpected %T", in)
			default:
				x.fail("unrecognised instruction %T", in)
			}
		}
	}
	return sites, x.reason
}

func hasStoreToBetween(b *ssa.BasicBlock, lo, hi int, addr ssa.Value) bool {
	for i := lo + 1; i < hi && i < len(b.Instrs); i++ {
		switch s := b.Instrs[i].(type) {
		case *ssa.Store:
			if s.Addr == addr {
				return true
			}
		case *ssa.Call:
			if _, isB := s.Call.Value.(*ssa.Builtin); !isB {
				if c := s.Call.StaticCallee(); c == nil || c.Pkg == nil || c.Pkg.Pkg.Path() != "strconv" {
					return true
				}
			}
		}
	}
	return false
}

// checkXbuf discharges the xbuf modelling assumption for the calling property.
func checkXbuf(ctx *Ctx) {
	R := ctx.R
	R.Rule("xbuf-append", "every method of *xbuf.B changes *b only by appending to it, holds no operation that can panic (indexes proven by mask or loop guard, no re-slicing of *b) and returns its receiver")
	R.Rule("xbuf-meaning", "what each xbuf.B method appends is what the renderer analysis assumes of it: C one byte, X02/X04/X06 the hex digits of the value most significant first, S/Sb every byte in order, Sn the same padded with spaces to n, Db the decimal digits")
	pkg := ctx.Prog.Pkg("xbuf")
	if pkg == nil {
		R.Fail("xbuf-append", "xbuf", "", "package xbuf not found")
		return
	}
	tB := pkg.Type("B")
	if tB == nil {
		R.Fail("xbuf-append", "xbuf.B", "", "type xbuf.B not found")
		return
	}
	ms := ctx.Prog.SSA.MethodSets.MethodSet(types.NewPointer(tB.Type()))
	var names []string
	fns := map[string]*ssa.Function{}
	for i := 0; i < ms.Len(); i++ {
		f := ctx.Prog.SSA.MethodValue(ms.At(i))
		if f == nil || len(f.Blocks) == 0 {
			continue
		}
		names = append(names, f.Name())
		fns[f.Name()] = f
	}
	sort.Strings(names)
	for _, n := range names {
		f := fns[n]
		pos := ctx.Prog.Pos(f.Pos())
		sites, reason := xbufDescribe(f)
		if reason != "" {
			// the fixed-arity methods can also be decided on what they append when
			// interpreted (a shared digit helper, a loop over a constant count)
			if _, fixed := xbufFixed[n]; fixed {
				if why := xbufInterpret(ctx, f, n, tB.Type()); why == "" {
					R.Pass("xbuf-append", "xbuf.B."+n, pos, "interpreted: appends only, "+xbufFixed[n])
					R.Pass("xbuf-meaning", "xbuf.B."+n, pos, "interpreted: "+xbufFixed[n])
					continue
				} else {
					reason += "; interpreted: " + why
				}
			} else if xbufMeaning[n] == nil && !f.Object().Exported() {
				// an unexported helper is judged through the exported methods that use it
				continue
			}
			R.Fail("xbuf-append", "xbuf.B."+n, pos, "not in append-only, panic-free form: "+reason)
			continue
		}
		R.Pass("xbuf-append", "xbuf.B."+n, pos, "appends: "+strings.Join(sites, "; "))
		want, ok := xbufMeaning[n]
		if !ok {
			// a method the renderer analysis has no model for is reported where it is called
			continue
		}
		if strings.Join(sites, "; ") != strings.Join(want, "; ") {
			R.Fail("xbuf-meaning", "xbuf.B."+n, pos, fmt.Sprintf("appends %q, the renderer analysis assumes %q", strings.Join(sites, "; "), strings.Join(want, "; ")))
		} else {
			R.Pass("xbuf-meaning", "xbuf.B."+n, pos, strings.Join(sites, "; "))
		}
	}
	for n := range xbufMeaning {
		if fns[n] == nil {
			// only a problem if a renderer calls it, which then fails to compile; nothing to check
			continue
		}
	}
	R.Floor("xbuf-methods", 4)
	R.Count("xbuf-methods", len(names))
}

// xbufFixed: methods appending a fixed number of bytes determined by one argument.
var xbufFixed = map[string]string{
	"C":   "the byte given",
	"X02": "2 hex digits of the value, most significant first",
	"X04": "4 hex digits of the value, most significant first",
	"X06": "6 hex digits of the value, most significant first",
}

// xbufInterpret decides a fixed-arity xbuf method by interpreting it (loops unrolled):
// the receiver's slice must end up as the result of a chain of appends starting from
// its entry value, and the appended bytes must be the prescribed ones, in order.
func xbufInterpret(ctx *Ctx, f *ssa.Function, name string, bT types.Type) string {
	if len(f.Params) != 2 {
		return "unexpected signature"
	}
	w, sg, ok := absint.IntType(f.Params[1].Type())
	if !ok {
		return "argument is not an integer"
	}
	ip := absint.New()
	ip.UnrollLoops = true
	recv := &absint.Ptr{Nil: absint.TriF, Obj: ip.SymObj("buf", types.NewPointer(bT)), T: bT}
	d := absint.NewSym(w, ip.In.Atom("p1", w, ^uint64(0)>>(64-uint(w))), sg)
	forked := false
	ip.Hooks.Branch = func(*absint.Interp, *absint.Bool, *ssa.If) { forked = true }
	res, out := ip.Call(f, []absint.Val{recv, d}, nil, &absint.State{Heap: absint.NewHeap(nil)})
	if out == nil {
		return "no returning path"
	}
	for _, m := range ip.Imprec {
		return "not interpretable: " + m
	}
	if forked {
		return "a branch depends on the argument"
	}
	if p, ok := res.(*absint.Ptr); !ok || p.Obj != recv.Obj {
		return "does not return its receiver"
	}
	var elems []absint.Val
	for _, ev := range ip.Events {
		switch ev.Kind {
		case "append":
			if len(ev.Args) < 2 {
				return "an append whose operands are not listed"
			}
			if _, isSlice := ev.Args[1].(*absint.Slice); isSlice && len(ev.Args) == 2 {
				return "appends a slice of unknown content"
			}
			elems = append(elems, ev.Args[1:]...)
		case "panic", "index-range", "fatal", "ext-call", "copy", "dyn-store":
			return "has an effect other than appending: " + ev.Kind
		}
	}
	o := ip.Ops
	var want []string
	switch name {
	case "C":
		want = []string{d.Lin.Key()}
	default:
		n := map[string]int{"X02": 2, "X04": 4, "X06": 6}[name]
		for k := n - 1; k >= 0; k-- {
			idx := o.And(o.Shr(d, absint.NewConst(w, uint64(4*k), false), false), absint.NewConst(w, 0xF, false))
			want = append(want, fmt.Sprintf("strindex(%q,%s)", xbufHexDigits, idx.Lin.Key()))
		}
	}
	if len(elems) != len(want) {
		return fmt.Sprintf("appends %d bytes, want %d", len(elems), len(want))
	}
	for i, e := range elems {
		iv, ok := e.(*absint.Int)
		if !ok {
			return "an appended value is not a byte"
		}
		got := iv.Lin.Key()
		if strings.HasPrefix(want[i], "strindex(") {
			if len(iv.Lin.T) != 1 || iv.Lin.C != 0 || iv.Lin.T[0].K != 1 || !strings.HasPrefix(iv.Lin.T[0].A.Key, "strindex(") {
				return fmt.Sprintf("byte %d is %s, not a hex digit", i, trunc(got))
			}
			// compare the digit selector modulo its own width (the helper may widen the value first)
			a := iv.Lin.T[0].A
			gotIdx := o.Rebuild(a.Args[0], nil)
			wantIdx := o.And(o.Shr(d, absint.NewConst(w, uint64(4*(len(want)-1-i)), false), false), absint.NewConst(w, 0xF, false))
			if a.Op != "strindex:"+xbufHexDigits || o.Convert(gotIdx, 8, false, false).Lin.Key() != o.Convert(wantIdx, 8, false, false).Lin.Key() {
				return fmt.Sprintf("byte %d is %s, want digit %d of the value", i, trunc(a.Key), len(want)-1-i)
			}
			continue
		}
		if got != "0+"+want[i] && got != want[i] {
			return fmt.Sprintf("byte %d is %s, want %s", i, trunc(got), want[i])
		}
	}
	return ""
}
