// Package rules holds one rule set per property.
package rules

import (
	"go/types"
	"sort"

	"verif/tool/evid"
	"verif/tool/load"
)

type Ctx struct {
	Prog     *load.Program
	Tier     string
	VerifDir string
	R        *evid.Report
}

type Prop struct {
	ID    string
	Level string
	Run   func(*Ctx)
}

var Registry = map[string]Prop{}

func register(id, level string, run func(*Ctx)) { Registry[id] = Prop{id, level, run} }

func IDs() []string {
	var ids []string
	for id := range Registry {
		ids = append(ids, id)
	}
	sort.Strings(ids)
	return ids
}

func init() {
	register("C04", "proof", C04)
	register("C05", "proof", C05)
}

func isStr(t interface{ Underlying() types.Type }) bool {
	b, ok := t.Underlying().(*types.Basic)
	return ok && b.Info()&types.IsString != 0
}
