package rules

import (
	"fmt"
	"go/types"
	"sort"

	"golang.org/x/tools/go/ssa"
)

// Instance confinement of self-bound method values (C18/self-bound).
//
// A struct that stores method values bound to itself (cpualt.CPU keeps a table of `cpu.op_xxx`) refers to itself
// through them. Assigning a whole value of that type copies those references: the destination would then run the
// source's methods on the source's state, two instances share mutable state, and driving them from two goroutines
// is a data race. The rule: every whole-value store into such a type is followed, on every path to a return, by a
// call of a binder (a method that stores method values bound to its receiver into the receiver) on the same object.

// rootOf strips field/index addressing.
func rootOf(v ssa.Value) ssa.Value {
	for {
		switch x := v.(type) {
		case *ssa.FieldAddr:
			v = x.X
		case *ssa.IndexAddr:
			v = x.X
		default:
			return v
		}
	}
}

// selfBinders returns, per named struct type, the methods that store method values bound to their receiver into it.
func selfBinders(ctx *Ctx) map[*types.Named][]*ssa.Function {
	out := map[*types.Named][]*ssa.Function{}
	for _, fn := range ctx.Prog.AllFuncs() {
		if fn.Signature.Recv() == nil || len(fn.Params) == 0 || fn.Blocks == nil {
			continue
		}
		recv := fn.Params[0]
		pt, ok := recv.Type().(*types.Pointer)
		if !ok {
			continue
		}
		named, ok := pt.Elem().(*types.Named)
		if !ok {
			continue
		}
		tainted := map[ssa.Value]bool{}
		for _, b := range fn.Blocks {
			for _, in := range b.Instrs {
				if mc, ok := in.(*ssa.MakeClosure); ok {
					for _, bd := range mc.Bindings {
						if bd == ssa.Value(recv) {
							tainted[mc] = true
						}
					}
				}
			}
		}
		if len(tainted) == 0 {
			continue
		}
		binder := false
		for changed, rounds := true, 0; changed && rounds < 16; rounds++ {
			changed = false
			for _, b := range fn.Blocks {
				for _, in := range b.Instrs {
					switch x := in.(type) {
					case *ssa.Store:
						if !tainted[x.Val] {
							continue
						}
						r := rootOf(x.Addr)
						if r == ssa.Value(recv) {
							binder = true
						} else if !tainted[r] {
							tainted[r] = true
							changed = true
						}
					case *ssa.UnOp:
						if tainted[rootOf(x.X)] && !tainted[x] {
							tainted[x] = true
							changed = true
						}
					case *ssa.Phi:
						for _, e := range x.Edges {
							if tainted[e] && !tainted[x] {
								tainted[x] = true
								changed = true
							}
						}
					case *ssa.MakeInterface:
						if tainted[x.X] && !tainted[x] {
							tainted[x] = true
							changed = true
						}
					case *ssa.ChangeType:
						if tainted[x.X] && !tainted[x] {
							tainted[x] = true
							changed = true
						}
					}
				}
			}
		}
		if binder {
			out[named] = append(out[named], fn)
		}
	}
	return out
}

func checkSelfBound(ctx *Ctx) {
	R := ctx.R
	binders := selfBinders(ctx)
	var tnames []string
	for n, fs := range binders {
		for _, f := range fs {
			tnames = append(tnames, n.Obj().Pkg().Name()+"."+n.Obj().Name()+" via "+f.Name())
		}
	}
	sort.Strings(tnames)
	R.Count("self-binding-methods", len(tnames))
	isBinderCall := func(in ssa.Instruction, named *types.Named, root ssa.Value) bool {
		c, ok := in.(*ssa.Call)
		if !ok {
			return false
		}
		callee := c.Call.StaticCallee()
		if callee == nil || len(c.Call.Args) == 0 {
			return false
		}
		for _, b := range binders[named] {
			if b == callee && rootOf(c.Call.Args[0]) == root {
				return true
			}
		}
		return false
	}
	nStores := 0
	for _, fn := range ctx.Prog.AllFuncs() {
		for _, b := range fn.Blocks {
			for i, in := range b.Instrs {
				st, ok := in.(*ssa.Store)
				if !ok {
					continue
				}
				pt, ok := st.Addr.Type().(*types.Pointer)
				if !ok {
					continue
				}
				named, ok := pt.Elem().(*types.Named)
				if !ok || len(binders[named]) == 0 {
					continue
				}
				// a zero value or a fresh literal carries no bound method values
				if _, isConst := st.Val.(*ssa.Const); isConst {
					continue
				}
				nStores++
				root := rootOf(st.Addr)
				key := fmt.Sprintf("%s:store-%s", fn.RelString(nil), named.Obj().Name())
				// every path from the store to a return passes a binder call on the same object
				seen := map[*ssa.BasicBlock]bool{}
				var escapes func(blk *ssa.BasicBlock, from int) bool
				escapes = func(blk *ssa.BasicBlock, from int) bool {
					for j := from; j < len(blk.Instrs); j++ {
						if isBinderCall(blk.Instrs[j], named, root) {
							return false
						}
						if _, isRet := blk.Instrs[j].(*ssa.Return); isRet {
							return true
						}
					}
					for _, s := range blk.Succs {
						if seen[s] {
							continue
						}
						seen[s] = true
						if escapes(s, 0) {
							return true
						}
					}
					return false
				}
				if escapes(b, i+1) {
					R.Fail("self-bound", key, ctx.Prog.Pos(st.Pos()), fmt.Sprintf("a whole %s value is assigned and the function can return without re-binding its method values (%s): the destination keeps methods bound to the source object, the two instances share state", named.Obj().Name(), binders[named][0].Name()))
				} else {
					R.Pass("self-bound", key, ctx.Prog.Pos(st.Pos()), "the method values are re-bound to the destination after the assignment ("+binders[named][0].Name()+")")
				}
			}
		}
	}
	R.Count("whole-value-stores-of-self-binding-types", nStores)
	if nStores == 0 {
		R.Pass("self-bound", "module", "", fmt.Sprintf("no whole-value store into a self-binding type (%d self-binding methods: %v)", len(tnames), tnames))
	}
}
