package rules

import (
	"fmt"
	"go/types"
	"strings"

	"golang.org/x/tools/go/ssa"

	"verif/tool/load"
)

func init() { register("C18", "proof", C18) }

func C18(ctx *Ctx) {
	R := ctx.R
	R.Explanation = "Absence of shared writable state, decided on the whole module (every function, including those not reachable from the API): (globals) for every package-level variable - of the module or of another package - a forward taint propagation from its address, through element/field addressing, slicing, loads of reference-typed contents, interface conversions, phis and non-escaping locals, finds no store, map update, copy/append/delete through it outside package initialisers; (escape) where such a reference is passed to a callee, the callee's parameter summary (same propagation from the parameter, CHA for interface calls, allowlist of read-only standard-library functions) neither writes through it nor lets it escape, and it is never stored into an instance, captured, sent or returned (pointers to zero-size types excepted); (stdlib) every function called outside the module is on the allowlist of stateless or internally synchronised functions; (no-hidden-sharing) no goroutine is started and sync/unsafe are not imported. (self-bound) types that keep method values bound to their own receiver (cpualt.CPU's opcode table) re-bind them after every whole-value assignment, so a forked instance never executes on its origin's state. With no shared writable memory, operations on instances with disjoint reachable heaps cannot race or influence each other (Go memory model)."
	R.Trusted = []string{"go/packages + go/ssa", "the taint propagation rules of tool/rules/effects.go cover every way a Go reference can be derived (no unsafe, no reflection-based writes on globals: reflect is only used on caller-owned values)", "allowlisted standard-library functions (fmt, log, strconv, strings, bytes, encoding/binary, reflect, io, errors) do not write through their read arguments and are safe for concurrent use", "io.Writer.Write implementations obey the io contract (do not modify or retain p)", "caller-shared buffers are the caller's responsibility", "values of type error (sentinel errors) are immutable"}
	R.Rule("globals", "no function other than a package initialiser writes to a package-level variable (directly, through an element/field address, through a reference loaded from it, or via copy/append/delete/map update)")
	R.Rule("escape", "a reference to package-level storage is only handed to callees whose parameter is read-only, and is never stored into longer-lived memory, captured, sent, or returned (unless it points to a zero-size type)")
	R.Rule("stdlib", "every callee outside the module is on the allowlist of functions without unsynchronised package-level state")
	R.Rule("no-hidden-sharing", "the module starts no goroutines and imports neither sync nor unsafe")
	R.Rule("self-bound", "a struct that stores method values bound to itself re-binds them after every whole-value assignment, on every path to a return (otherwise the copy runs the source's methods on the source's state)")
	R.Exhaustive = true
	checkSelfBound(ctx)
	ta := newTaint(ctx)
	checkInitClosures(ctx, ta)
	funcs := ctx.Prog.AllFuncs()
	R.Count("functions", len(funcs))
	R.Floor("functions", 300)
	globals := globalsOf(ctx)
	R.Count("module-globals", len(globals))
	R.Floor("module-globals", 9)
	// every global referenced anywhere in module code, including other packages' globals
	type gk struct{ g *ssa.Global }
	used := map[*ssa.Global]map[*ssa.Function]bool{}
	for _, fn := range funcs {
		for _, b := range fn.Blocks {
			for _, in := range b.Instrs {
				var ops [16]*ssa.Value
				for _, op := range in.Operands(ops[:0]) {
					if g, ok := (*op).(*ssa.Global); ok {
						if used[g] == nil {
							used[g] = map[*ssa.Function]bool{}
						}
						used[g][fn] = true
					}
				}
			}
		}
	}
	callSites := staticCallSites(funcs)
	for _, g := range globals {
		if used[g] == nil {
			used[g] = map[*ssa.Function]bool{}
		}
	}
	var gl []*ssa.Global
	for g := range used {
		gl = append(gl, g)
	}
	for i := 1; i < len(gl); i++ {
		for j := i; j > 0 && gl[j].String() < gl[j-1].String(); j-- {
			gl[j], gl[j-1] = gl[j-1], gl[j]
		}
	}
	var names []string
	for _, g := range gl {
		name := strings.TrimPrefix(g.String(), load.ModulePath+"/")
		if g.Name() == "init$guard" {
			continue
		}
		names = append(names, name)
		nStore, nEsc := 0, 0
		users := 0
		for fn := range used[g] {
			if isInitFunc(fn) {
				continue
			}
			users++
			for _, s := range followReturns(ta, callSites, fn, []ssa.Value{g}, 0, map[*ssa.Function]bool{}) {
				pos := ctx.Prog.Pos(s.Instr.Pos())
				where := fn
				if s.Instr.Parent() != nil {
					where = s.Instr.Parent() // a reference followed out of an accessor is reported where it is misused
				}
				switch s.Kind {
				case sinkStore:
					nStore++
					R.Fail("globals", fmt.Sprintf("%s:written-in:%s", name, fnShort(where)), pos, s.What)
				default:
					nEsc++
					R.Fail("escape", fmt.Sprintf("%s:%s:%s", name, s.Kind, fnShort(where)), pos, s.What)
				}
			}
		}
		if nStore == 0 {
			R.Pass("globals", name, ctx.Prog.Pos(g.Pos()), fmt.Sprintf("referenced by %d non-init functions, never written", users))
		}
		if nEsc == 0 {
			R.Pass("escape", name, ctx.Prog.Pos(g.Pos()), "references handed only to read-only callees, never published")
		}
	}
	R.Analysed["globals"] = names
	// stdlib callees
	ext := map[string]bool{}
	badExt := map[string]string{}
	for _, fn := range funcs {
		for _, b := range fn.Blocks {
			for _, in := range b.Instrs {
				if _, isGo := in.(*ssa.Go); isGo {
					R.Fail("no-hidden-sharing", "go:"+fnShort(fn), ctx.Prog.Pos(in.Pos()), "goroutine started inside the library")
				}
				ci, ok := in.(ssa.CallInstruction)
				if !ok {
					continue
				}
				c := ci.Common()
				var name string
				if callee := c.StaticCallee(); callee != nil {
					if load.InModule(callee) {
						continue
					}
					name = callee.String()
				} else if c.IsInvoke() && c.Method.Pkg() != nil && !strings.HasPrefix(c.Method.Pkg().Path(), load.ModulePath) {
					name = c.Method.FullName()
				} else {
					continue
				}
				ext[name] = true
				if !stdlibAllowed(name) {
					badExt[name] = ctx.Prog.Pos(in.Pos())
				}
			}
		}
	}
	for n, pos := range badExt {
		R.Fail("stdlib", n, pos, "external callee not on the allowlist of stateless / synchronised functions")
	}
	if len(badExt) == 0 {
		R.Pass("stdlib", "all", "", fmt.Sprintf("%d distinct external callees, all allowlisted", len(ext)))
	}
	R.Analysed["external_callees"] = sortedKeys(ext)
	R.Count("external-callees", len(ext))
	// imports
	okImp := true
	for _, pk := range ctx.Prog.Pkgs {
		for ip := range pk.Imports {
			if ip == "sync" || ip == "unsafe" || ip == "sync/atomic" {
				okImp = false
				R.Fail("no-hidden-sharing", pk.PkgPath+":imports:"+ip, "", "package imports "+ip)
			}
		}
	}
	if okImp {
		R.Pass("no-hidden-sharing", "imports", "", "no package imports sync, sync/atomic or unsafe; no go statement")
	}
	_ = types.Typ
}

func stdlibAllowed(name string) bool {
	for _, p := range []string{"fmt.", "log.", "strconv.", "errors.", "strings.", "(*strings.Builder).", "bytes.", "(*bytes.Reader).", "(*bytes.Buffer).",
		"encoding/binary.", "(encoding/binary.", "reflect.", "(reflect.", "(*reflect.", "io.", "(io.", "(error).Error", "(time.", "time."} {
		if strings.HasPrefix(name, p) {
			return true
		}
	}
	return false
}

// callSiteIndex: per in-module function, its static call sites, and whether it is also used as a value (so that
// not all its callers are known).
type callSiteIndex struct {
	sites   map[*ssa.Function][]*ssa.Call
	asValue map[*ssa.Function]bool
}

func staticCallSites(funcs []*ssa.Function) *callSiteIndex {
	ix := &callSiteIndex{sites: map[*ssa.Function][]*ssa.Call{}, asValue: map[*ssa.Function]bool{}}
	for _, fn := range funcs {
		for _, b := range fn.Blocks {
			for _, in := range b.Instrs {
				var callee *ssa.Function
				if c, ok := in.(*ssa.Call); ok {
					if callee = c.Call.StaticCallee(); callee != nil {
						ix.sites[callee] = append(ix.sites[callee], c)
					}
				}
				var ops [16]*ssa.Value
				for i, op := range in.Operands(ops[:0]) {
					if op == nil || *op == nil {
						continue
					}
					if f, ok := (*op).(*ssa.Function); ok && !(f == callee && i == 0) {
						if _, isCall := in.(ssa.CallInstruction); !isCall || f != callee {
							ix.asValue[f] = true
						}
					}
				}
			}
		}
	}
	return ix
}

// followReturns runs the reference propagation in fn from the seeds; where the only thing that happens to a shared
// reference is that an unexported function returns it, the reference is followed into every caller instead of being
// reported (an accessor such as `func blanksFrom(n int) []byte { return spaces[n:] }` publishes nothing by itself).
func followReturns(ta *taintAnalysis, ix *callSiteIndex, fn *ssa.Function, seeds []ssa.Value, depth int, seen map[*ssa.Function]bool) []sink {
	var out []sink
	returned := false
	for _, s := range ta.run(fn, seeds) {
		if _, isRet := s.Instr.(*ssa.Return); isRet && s.Kind == sinkEscape {
			exported := fn.Object() != nil && fn.Object().Exported()
			if !exported && !ix.asValue[fn] && fn.Parent() == nil && depth < 6 && !seen[fn] {
				returned = true
				continue
			}
		}
		out = append(out, s)
	}
	if returned {
		seen[fn] = true
		byCaller := map[*ssa.Function][]ssa.Value{}
		var order []*ssa.Function
		for _, c := range ix.sites[fn] {
			if byCaller[c.Parent()] == nil {
				order = append(order, c.Parent())
			}
			byCaller[c.Parent()] = append(byCaller[c.Parent()], c)
		}
		for _, caller := range order {
			out = append(out, followReturns(ta, ix, caller, byCaller[caller], depth+1, seen)...)
		}
	}
	return out
}

// checkInitClosures: a closure made while a package is initialised and kept (stored in a package-level variable,
// returned from an immediately invoked function, ...) lives as long as the program; the variables it captured are
// then package-level state in disguise. Such a closure must not write through what it captured.
func checkInitClosures(ctx *Ctx, ta *taintAnalysis) {
	R := ctx.R
	initCode := map[*ssa.Function]bool{}
	var work []*ssa.Function
	for _, fn := range ctx.Prog.AllFuncs() {
		if isInitFunc(fn) {
			initCode[fn] = true
			work = append(work, fn)
		}
	}
	var kept []*ssa.Function
	for len(work) > 0 {
		fn := work[len(work)-1]
		work = work[:len(work)-1]
		for _, b := range fn.Blocks {
			for _, in := range b.Instrs {
				if c, isCall := in.(*ssa.Call); isCall {
					// an immediately invoked function literal without captured variables is called directly
					if g := c.Call.StaticCallee(); g != nil && g.Parent() != nil && initCode[g.Parent()] && !initCode[g] {
						initCode[g] = true
						work = append(work, g)
					}
				}
				mc, ok := in.(*ssa.MakeClosure)
				if !ok {
					continue
				}
				g, ok := mc.Fn.(*ssa.Function)
				if !ok {
					continue
				}
				onlyCalled := true
				for _, r := range *mc.Referrers() {
					switch x := r.(type) {
					case *ssa.DebugRef:
					case *ssa.Call:
						if x.Call.Value != ssa.Value(mc) {
							onlyCalled = false
						}
					default:
						onlyCalled = false
					}
				}
				if onlyCalled {
					if !initCode[g] {
						initCode[g] = true
						work = append(work, g)
					}
				} else {
					kept = append(kept, g)
				}
			}
		}
	}
	R.Count("closures-kept-from-initialisation", len(kept))
	bad := 0
	for _, g := range kept {
		var seeds []ssa.Value
		for _, fv := range g.FreeVars {
			seeds = append(seeds, fv)
		}
		if len(seeds) == 0 {
			continue
		}
		for _, s := range ta.run(g, seeds) {
			if s.Kind != sinkStore {
				continue
			}
			bad++
			R.Fail("globals", "closure-state:"+fnShort(g), ctx.Prog.Pos(s.Instr.Pos()), "a closure kept from package initialisation writes to a variable it captured ("+s.What+"): state shared by every caller")
		}
	}
	if bad == 0 {
		R.Pass("globals", "closure-state", "", fmt.Sprintf("%d closures kept from package initialisation, none writes through what it captured", len(kept)))
	}
}
