package rules

import (
	"fmt"
	"go/constant"
	"go/token"
	"go/types"
	"reflect"
	"regexp"
	"strconv"
	"strings"

	"golang.org/x/tools/go/ssa"

	"verif/tool/absint"
)

func init() { register("C09", "proof", C09) }

type leafField struct {
	Path   string
	Offset int
	Size   int
	Tag    string
	Top    int // index of the top-level Header field it belongs to
}

// binarySize is the encoding/binary size of t; ok=false if t is not a fixed-size
// bijective encoding.
func binarySize(t types.Type) (int, bool, string) {
	switch u := t.Underlying().(type) {
	case *types.Basic:
		switch u.Kind() {
		case types.Uint8, types.Int8:
			return 1, true, ""
		case types.Uint16, types.Int16:
			return 2, true, ""
		case types.Uint32, types.Int32:
			return 4, true, ""
		case types.Uint64, types.Int64:
			return 8, true, ""
		}
		return 0, false, "type " + t.String() + " has no fixed bijective binary encoding"
	case *types.Array:
		n, ok, why := binarySize(u.Elem())
		return n * int(u.Len()), ok, why
	case *types.Struct:
		total := 0
		for i := 0; i < u.NumFields(); i++ {
			if !u.Field(i).Exported() && u.Field(i).Name() != "_" {
				return 0, false, "nested struct has unexported field " + u.Field(i).Name() + " (encoding/binary cannot set it)"
			}
			n, ok, why := binarySize(u.Field(i).Type())
			if !ok {
				return 0, false, why
			}
			total += n
		}
		return total, true, ""
	}
	return 0, false, "type " + t.String() + " has no fixed binary encoding"
}

func flattenHeader(st *types.Struct) (leaves []leafField, total int, errs []string) {
	var walk func(s *types.Struct, prefix string, top int)
	off := 0
	walk = func(s *types.Struct, prefix string, top int) {
		for i := 0; i < s.NumFields(); i++ {
			f := s.Field(i)
			ti := top
			if prefix == "" {
				ti = i
				if !f.Exported() {
					continue // the walkers skip fields failing CanInterface
				}
			}
			if sub, ok := f.Type().Underlying().(*types.Struct); ok {
				if _, ok2, why := binarySize(f.Type()); !ok2 {
					errs = append(errs, prefix+f.Name()+": "+why)
				}
				walk(sub, prefix+f.Name()+".", ti)
				continue
			}
			n, ok, why := binarySize(f.Type())
			if !ok {
				errs = append(errs, prefix+f.Name()+": "+why)
			}
			tag := reflect.StructTag(s.Tag(i)).Get("rom")
			leaves = append(leaves, leafField{Path: prefix + f.Name(), Offset: off, Size: n, Tag: tag, Top: ti})
			off += n
		}
	}
	walk(st, "", -1)
	return leaves, off, errs
}

func C09(ctx *Ctx) {
	R := ctx.R
	R.Explanation = "layout: the exported fields of snes.Header, flattened in declaration order with encoding/binary sizes from go/types, partition 80 bytes; every rom:\"FFxx\" tag equals $FFB0 + offset; every field type is a fixed-size bijective little-endian encoding. walkers: readBinaryStruct and writeBinaryStruct each iterate field indices 0..NumField()-1 ascending, skip exactly the fields failing CanInterface, and hand binary.LittleEndian and the address of field i to binary.Read / binary.Write - so parse and serialise are inverse bijections on those 80 bytes. version: the version assigned under the four truth assignments of (OldMakerCode==$33, Title[20]==0) is 3,3,2,1 (gated terms restricted per assignment) and version 1 zeroes exactly the fields below offset(Title). rom: ROM.ReadHeader parses Contents[HeaderOffset:HeaderOffset+80]; WriteHeader copies bytes [16,80) for version<=1 and [0,80) otherwise to the same offsets; NewROM's length guard covers HeaderOffset+80."
	R.Trusted = []string{"go/packages + go/ssa + go/types", "encoding/binary.Read/Write and reflect behave as documented (little-endian, field order of nested structs)", "absint (version and rom clauses)"}
	R.Rule("layout", "Header's exported leaf fields are fixed-size encodings at consecutive offsets; rom tags = $FFB0+offset; total 80 bytes")
	R.Rule("walkers", "both walkers visit field i = 0..NumField()-1 in order, skip exactly !CanInterface fields, and pass binary.LittleEndian and Field(i).Addr().Interface() to binary.Read / binary.Write")
	R.Rule("version", "version = 3 if OldMakerCode==$33, else 2 if Title[20]==0, else 1; in the version-1 case exactly the fields below Title are zeroed; otherwise no field is modified after parsing")
	R.Rule("rom", "ReadHeader/WriteHeader address Contents[HeaderOffset+skip : HeaderOffset+80) with skip = offset(Title) for version<=1 and 0 otherwise, same offsets on both sides; NewROM guarantees the slice is in range")
	R.Exhaustive = true
	pk := ctx.Prog.Pkg("")
	if pk == nil || pk.Type("Header") == nil {
		R.Fail("layout", "Header", "", "type snes.Header not found")
		return
	}
	hn := pk.Type("Header").Type().(*types.Named)
	hs, ok := hn.Underlying().(*types.Struct)
	if !ok {
		R.Fail("layout", "Header", "", "snes.Header is not a struct")
		return
	}
	pos := ctx.Prog.Pos(pk.Type("Header").Pos())
	leaves, total, errs := flattenHeader(hs)
	R.Count("header-leaf-fields", len(leaves))
	R.Floor("header-leaf-fields", 25)
	for _, e := range errs {
		R.Fail("layout", "encoding:"+strings.SplitN(e, ":", 2)[0], pos, e)
	}
	titleOff := -1
	for _, l := range leaves {
		if l.Path == "Title" {
			titleOff = l.Offset
		}
		if l.Tag == "" {
			R.Pass("layout", "field:"+l.Path, pos, fmt.Sprintf("offset %d size %d (no tag)", l.Offset, l.Size))
			continue
		}
		v, err := strconv.ParseUint(l.Tag, 16, 32)
		if err != nil || int(v) != 0xFFB0+l.Offset {
			R.Fail("layout", "field:"+l.Path, pos, fmt.Sprintf("declared at $%s but the walkers place it at $%04X (offset %d)", l.Tag, 0xFFB0+l.Offset, l.Offset))
		} else {
			R.Pass("layout", "field:"+l.Path, pos, fmt.Sprintf("$%s = $FFB0+%d, size %d", l.Tag, l.Offset, l.Size))
		}
	}
	if total != 80 {
		R.Fail("layout", "total", pos, fmt.Sprintf("the exported fields cover %d bytes, the header is 80", total))
	} else {
		R.Pass("layout", "total", pos, "80 bytes")
	}
	// walkers
	nW := 0
	for _, fn := range ctx.Prog.AllFuncs() {
		if fn.Pkg != pk {
			continue
		}
		for _, name := range []string{"encoding/binary.Read", "encoding/binary.Write"} {
			calls := callsIn(fn, func(f *ssa.Function) bool { return f.String() == name })
			if len(calls) == 0 {
				continue
			}
			nW++
			checkWalker(ctx, fn, calls, name)
		}
	}
	R.Count("walkers", nW)
	R.Floor("walkers", 2)
	checkVersion(ctx, hn, hs, leaves, titleOff)
	checkHeaderWalkerCalls(ctx, hn)
	checkROMHeader(ctx, total, titleOff)
}

// checkHeaderWalkerCalls: (*Header).ReadHeader parses into the receiver itself, and (*Header).WriteHeader serialises
// the receiver's own field values (the receiver, or an unmodified copy of it) and leaves the header as it was.
func checkHeaderWalkerCalls(ctx *Ctx, hn *types.Named) {
	R := ctx.R
	isWalker := func(f *ssa.Function, api string) bool { return reachesAPI(f, api, map[*ssa.Function]bool{}) }
	for _, c := range []struct{ method, api string }{{"ReadHeader", "encoding/binary.Read"}, {"WriteHeader", "encoding/binary.Write"}} {
		fn := ctx.Prog.Method("", "Header", c.method)
		if fn == nil {
			R.Fail("walkers", "Header."+c.method, "", "(*Header)."+c.method+" not found")
			continue
		}
		pos := ctx.Prog.Pos(fn.Pos())
		ip := absint.New()
		ip.UnrollLoops = true
		h := &absint.Ptr{Nil: absint.TriF, Obj: ip.SymObj("h", hn), T: hn}
		st := &absint.State{Heap: absint.NewHeap(nil)}
		before := absint.ValKey(ip.Load(st, h, hn))
		var msgs []string
		nCalls := 0
		ip.Hooks.OverrideCall = func(ip *absint.Interp, cur *absint.State, f *ssa.Function, a []absint.Val) (absint.Val, bool) {
			if !isWalker(f, c.api) {
				return nil, false
			}
			nCalls++
			var tgt *absint.Ptr
			for _, v := range a {
				if ifc, ok := v.(*absint.Iface); ok {
					v = ifc.V
				}
				if p, ok := v.(*absint.Ptr); ok && p.Obj != nil && types.Identical(p.Obj.T, hn) {
					tgt = p
				}
			}
			switch {
			case tgt == nil:
				msgs = append(msgs, f.Name()+" is not given a pointer to a Header")
			case c.method == "ReadHeader" && (tgt.Obj != h.Obj || len(tgt.Path) != 0):
				msgs = append(msgs, f.Name()+" parses into "+absint.ValKey(tgt)+", not into the receiver")
			case c.method == "WriteHeader":
				if got := absint.ValKey(ip.Load(cur, tgt, hn)); got != before {
					msgs = append(msgs, f.Name()+" serialises a header whose fields differ from the receiver's: "+diffKeys(before, got))
				}
			}
			return &absint.Top{Key: "walker-error", T: f.Signature.Results().At(0).Type()}, true
		}
		res, out := ip.Call(fn, []absint.Val{h, &absint.Top{Key: "stream"}}, nil, st)
		switch {
		case out == nil || len(ip.Imprec) > 0:
			R.Fail("walkers", "Header."+c.method, pos, fmt.Sprintf("not interpretable: %v", ip.Imprec))
			continue
		case nCalls == 0:
			msgs = append(msgs, "no walker is called")
		}
		if c.method == "WriteHeader" {
			if after := absint.ValKey(ip.Load(out, h, hn)); after != before {
				msgs = append(msgs, "the header is modified by serialising it: "+diffKeys(before, after))
			}
			if t, ok := res.(*absint.Top); ok && t.Key == "nil" {
				msgs = append(msgs, "the walker's error is dropped: the result is always nil")
			}
		}
		if len(msgs) > 0 {
			R.Fail("walkers", "Header."+c.method, pos, strings.Join(msgs, "; "))
		} else {
			R.Pass("walkers", "Header."+c.method, pos, map[string]string{"ReadHeader": "parses into the receiver", "WriteHeader": "serialises the receiver's own field values and leaves it unchanged"}[c.method])
		}
	}
}

// diffKeys points at the first place two value keys differ.
func diffKeys(a, b string) string {
	i := 0
	for i < len(a) && i < len(b) && a[i] == b[i] {
		i++
	}
	lo := i - 40
	if lo < 0 {
		lo = 0
	}
	cut := func(s string) string {
		hi := i + 60
		if hi > len(s) {
			hi = len(s)
		}
		return s[lo:hi]
	}
	return "…" + cut(a) + "… vs …" + cut(b) + "…"
}

// isLittleEndian: the value is the standard library's binary.LittleEndian converted to the ByteOrder interface.
func isLittleEndian(v ssa.Value) bool {
	if mi, ok := v.(*ssa.MakeInterface); ok {
		if u, ok := mi.X.(*ssa.UnOp); ok && u.Op == token.MUL {
			if g, ok := u.X.(*ssa.Global); ok && g.String() == "encoding/binary.LittleEndian" {
				return true
			}
		}
	}
	return false
}

// checkWalker: fn contains the binary.Read / binary.Write calls. Either fn holds the field loop itself, or fn is a
// closure handed to a function that holds the loop and calls it once per field with the field's address.
func checkWalker(ctx *Ctx, fn *ssa.Function, calls []*ssa.Call, apiName string) {
	R := ctx.R
	key := fn.Name()
	pos := ctx.Prog.Pos(fn.Pos())
	fail := func(msg string) { R.Fail("walkers", key, pos, msg) }
	if len(calls) != 1 {
		fail(fmt.Sprintf("%d calls of %s, want 1", len(calls), apiName))
		return
	}
	call := calls[0]
	args := call.Call.Args
	if len(args) != 3 {
		fail("unexpected binary call shape")
		return
	}
	if !isLittleEndian(args[1]) {
		fail("the byte order argument is not encoding/binary.LittleEndian")
		return
	}
	if fn.Parent() == nil || len(loopsOf(fn)) > 0 {
		checkWalkerLoop(ctx, key, pos, fn, call, args[2], apiName)
		return
	}
	// closure form: the data argument is the closure's own parameter ...
	pi := -1
	for i, p := range fn.Params {
		if args[2] == ssa.Value(p) {
			pi = i
		}
	}
	if pi < 0 {
		fail("the closure does not hand its own parameter to " + apiName)
		return
	}
	for _, blk := range fn.Blocks {
		if ret, ok := blk.Instrs[len(blk.Instrs)-1].(*ssa.Return); ok {
			if len(ret.Results) != 1 || ret.Results[0] != ssa.Value(call) {
				fail("the closure does not return the error of " + apiName)
				return
			}
		}
	}
	// ... the closure is made once, in its parent, and passed to a function that calls it per field
	var site *ssa.Call
	argIdx := -1
	nUses := 0
	for _, b := range fn.Parent().Blocks {
		for _, in := range b.Instrs {
			mc, ok := in.(*ssa.MakeClosure)
			if !ok || mc.Fn != ssa.Value(fn) {
				continue
			}
			for _, u := range *mc.Referrers() {
				if _, isDbg := u.(*ssa.DebugRef); isDbg {
					continue
				}
				nUses++
				if c, ok := u.(*ssa.Call); ok && c.Call.StaticCallee() != nil {
					for i, a := range c.Call.Args {
						if a == ssa.Value(mc) {
							site, argIdx = c, i
						}
					}
				}
			}
		}
	}
	if site == nil || nUses != 1 {
		fail("the closure around the binary call is not passed to exactly one statically known function")
		return
	}
	loopFn := site.Call.StaticCallee()
	if loopFn.Blocks == nil || argIdx >= len(loopFn.Params) {
		fail("the function receiving the closure has no body")
		return
	}
	var visits []*ssa.Call
	for _, b := range loopFn.Blocks {
		for _, in := range b.Instrs {
			if c, ok := in.(*ssa.Call); ok && c.Call.Value == ssa.Value(loopFn.Params[argIdx]) {
				visits = append(visits, c)
			}
		}
	}
	for _, u := range *loopFn.Params[argIdx].Referrers() {
		if _, isDbg := u.(*ssa.DebugRef); isDbg {
			continue
		}
		if c, ok := u.(*ssa.Call); !ok || c.Call.Value != ssa.Value(loopFn.Params[argIdx]) {
			fail("the visiting function is used otherwise than by calling it: " + u.String())
			return
		}
	}
	if len(visits) != 1 || pi >= len(visits[0].Call.Args) {
		fail(fmt.Sprintf("%s calls the closure %d times, want once per field", loopFn.Name(), len(visits)))
		return
	}
	checkWalkerLoop(ctx, key, pos, loopFn, visits[0], visits[0].Call.Args[pi], apiName+" via "+loopFn.Name())
}

// checkWalkerLoop: in fn, `call` is made once per field i = 0..NumField()-1 (skipping exactly the fields failing
// CanInterface) and dataArg is Field(i).Addr().Interface().
func checkWalkerLoop(ctx *Ctx, key, pos string, fn *ssa.Function, call *ssa.Call, dataArg ssa.Value, apiName string) {
	R := ctx.R
	fail := func(msg string) { R.Fail("walkers", key, pos, msg) }
	loops := loopsOf(fn)
	if len(loops) != 1 || !loops[0].Body[call.Block()] {
		fail("expected exactly one loop containing the binary call")
		return
	}
	L := loops[0]
	// induction variable: phi(0, phi+1) at the header, compared < NumField()
	var iv *ssa.Phi
	for _, in := range L.Header.Instrs {
		p, ok := in.(*ssa.Phi)
		if !ok {
			continue
		}
		if _, _, isInt := absint.IntType(p.Type()); !isInt {
			continue
		}
		okInit, okStep := false, false
		for i, e := range p.Edges {
			if !L.Body[L.Header.Preds[i]] {
				if c, ok := e.(*ssa.Const); ok && c.Int64() == 0 {
					okInit = true
				}
			} else if bo, ok := e.(*ssa.BinOp); ok && bo.Op == token.ADD && bo.X == p {
				if c, ok := bo.Y.(*ssa.Const); ok && c.Int64() == 1 {
					okStep = true
				}
			}
		}
		if okInit && okStep {
			iv = p
		}
	}
	if iv == nil {
		fail("no induction variable i = 0; i++ at the loop header")
		return
	}
	isMethod := func(v ssa.Value, name string) (*ssa.Call, bool) {
		c, ok := v.(*ssa.Call)
		if !ok || c.Call.StaticCallee() == nil {
			return nil, false
		}
		return c, c.Call.StaticCallee().String() == name
	}
	iff, _ := L.Header.Instrs[len(L.Header.Instrs)-1].(*ssa.If)
	cond, _ := func() (*ssa.BinOp, bool) {
		if iff == nil {
			return nil, false
		}
		b, ok := iff.Cond.(*ssa.BinOp)
		return b, ok
	}()
	var structVal ssa.Value
	if cond == nil || cond.Op != token.LSS || cond.X != iv {
		fail("the loop condition is not i < NumField()")
		return
	} else if nf, ok := isMethod(cond.Y, "(reflect.Value).NumField"); !ok {
		fail("the loop bound is not NumField() of the struct value")
		return
	} else {
		structVal = nf.Call.Args[0]
	}
	// helper form: `p, ok := fieldPtr(hv, i); if !ok { continue }` where the helper yields
	// (Field(i).Addr().Interface(), true) for an exported field, (nil, false) for an unexported one and panics
	// when the field cannot be addressed
	if ex, isEx := dataArg.(*ssa.Extract); isEx && ex.Index == 0 {
		if hc, isCall := ex.Tuple.(*ssa.Call); isCall && hc.Call.StaticCallee() != nil && len(hc.Call.Args) == 2 && hc.Call.Args[0] == structVal && hc.Call.Args[1] == ssa.Value(iv) {
			if msg := fieldPtrHelper(hc.Call.StaticCallee()); msg != "" {
				fail("the helper " + hc.Call.StaticCallee().Name() + " that yields the field pointer: " + msg)
				return
			}
			// the loop body's first test is the helper's ok result, the transfer on its true edge
			body := L.Header.Succs[0]
			biff, _ := body.Instrs[len(body.Instrs)-1].(*ssa.If)
			okv, _ := func() (*ssa.Extract, bool) {
				if biff == nil {
					return nil, false
				}
				e, ok := biff.Cond.(*ssa.Extract)
				return e, ok
			}()
			if okv == nil || okv.Tuple != ssa.Value(hc) || okv.Index != 1 || !edgeDominates(body, 0, call.Block()) || !L.Body[body.Succs[1]] {
				fail("the helper's ok result does not decide between transferring the field and going on to the next one")
				return
			}
			for b := range L.Body {
				if b == L.Header || b == body || !b.Dominates(call.Block()) || b == call.Block() {
					continue
				}
				if _, isIf := b.Instrs[len(b.Instrs)-1].(*ssa.If); isIf {
					fail("a second condition stands between the field pointer and the transfer")
					return
				}
			}
			if msg := walkerErrorHandling(L, call); msg != "" {
				fail(msg)
				return
			}
			R.Pass("walkers", key, pos, fmt.Sprintf("i=0..NumField()-1, %s(_, LittleEndian, p) with (p, ok) from %s(hv, i): Field(i).Addr().Interface() for exported fields, skipped otherwise; an error ends the walk and is returned", apiName, hc.Call.StaticCallee().Name()))
			return
		}
	}
	// the pointer argument: Field(i).Addr().Interface()
	ifaceCall, ok1 := isMethod(dataArg, "(reflect.Value).Interface")
	var addrCall, fieldCall *ssa.Call
	ok2, ok3 := false, false
	if ok1 {
		addrCall, ok2 = isMethod(ifaceCall.Call.Args[0], "(reflect.Value).Addr")
	}
	if ok2 {
		fieldCall, ok3 = isMethod(addrCall.Call.Args[0], "(reflect.Value).Field")
	}
	if !ok1 || !ok2 || !ok3 || fieldCall.Call.Args[0] != structVal || fieldCall.Call.Args[1] != iv {
		fail("the data argument is not hv.Field(i).Addr().Interface() for the loop's own i")
		return
	}
	// skip predicate: the only guard between the loop body entry and the call besides CanAddr (whose failing edge panics) is CanInterface on the same field
	body := L.Header.Succs[0]
	biff, _ := body.Instrs[len(body.Instrs)-1].(*ssa.If)
	okSkip := false
	if biff != nil {
		// the skip predicate, in any of its equivalent spellings for the fields of an addressable struct value:
		// hv.Field(i).CanInterface(), hv.Type().Field(i).IsExported(), hv.Type().Field(i).PkgPath == ""
		typeField := func(v ssa.Value) bool {
			// v = T.Field(i) with T = hv.Type() of the walked struct value, i the loop's own index
			// (possibly kept in a local that is assigned once)
			if u, ok := v.(*ssa.UnOp); ok && u.Op == token.MUL {
				if al, ok := u.X.(*ssa.Alloc); ok {
					var stored []ssa.Value
					for _, r := range *al.Referrers() {
						if st, ok := r.(*ssa.Store); ok && st.Addr == ssa.Value(al) {
							stored = append(stored, st.Val)
						}
					}
					if len(stored) == 1 {
						v = stored[0]
					}
				}
			}
			c, ok := v.(*ssa.Call)
			if !ok || !c.Call.IsInvoke() || c.Call.Method.Name() != "Field" || len(c.Call.Args) != 1 || c.Call.Args[0] != ssa.Value(iv) {
				return false
			}
			tc, ok := isMethod(c.Call.Value, "(reflect.Value).Type")
			return ok && tc.Call.Args[0] == structVal
		}
		if ci, ok := isMethod(biff.Cond, "(reflect.Value).CanInterface"); ok {
			if fc, ok := isMethod(ci.Call.Args[0], "(reflect.Value).Field"); ok && fc.Call.Args[0] == structVal && fc.Call.Args[1] == ssa.Value(iv) {
				okSkip = true
			}
		}
		if ie, ok := isMethod(biff.Cond, "(reflect.StructField).IsExported"); ok && typeField(ie.Call.Args[0]) {
			okSkip = true
		}
		if bo, ok := biff.Cond.(*ssa.BinOp); ok && bo.Op == token.EQL {
			if c, isC := bo.Y.(*ssa.Const); isC && c.Value != nil && c.Value.ExactString() == `""` {
				if fld, ok := bo.X.(*ssa.Field); ok && typeField(fld.X) {
					if st, ok := fld.X.Type().Underlying().(*types.Struct); ok && st.Field(fld.Field).Name() == "PkgPath" {
						okSkip = true
					}
				}
				if u, ok := bo.X.(*ssa.UnOp); ok && u.Op == token.MUL {
					if fa, ok := u.X.(*ssa.FieldAddr); ok {
						if al, ok := fa.X.(*ssa.Alloc); ok {
							if st, ok := al.Type().(*types.Pointer).Elem().Underlying().(*types.Struct); ok && st.Field(fa.Field).Name() == "PkgPath" {
								for _, r := range *al.Referrers() {
									if ld, ok := r.(*ssa.UnOp); ok && ld.Op == token.MUL && typeField(ld) {
										okSkip = true
									}
								}
								// no whole-value load to test: judge the single store
								n, val := 0, ssa.Value(nil)
								for _, r := range *al.Referrers() {
									if sto, ok := r.(*ssa.Store); ok && sto.Addr == ssa.Value(al) {
										n++
										val = sto.Val
									}
								}
								if n == 1 && typeField(val) {
									okSkip = true
								}
							}
						}
					}
				}
			}
		}
	}
	if !okSkip {
		fail("the first test of the loop body is not the exported-field test (CanInterface / IsExported / PkgPath) of Field(i)")
		return
	}
	skipEdge, goEdge := body.Succs[1], body.Succs[0]
	_ = goEdge
	if !edgeDominates(body, 0, call.Block()) {
		fail("the binary call is not on the CanInterface()==true edge")
		return
	}
	// the skip edge must lead to the increment without any effect
	for _, in := range skipEdge.Instrs {
		switch in.(type) {
		case *ssa.Call, *ssa.Store:
			if !L.Body[skipEdge] || skipEdge == call.Block() {
				break
			}
			fail("skipping a field has a side effect")
			return
		}
	}
	// other guards on the way to the call: only ones whose other edge does not continue the loop normally (panic) are allowed
	for b := range L.Body {
		if b == L.Header || b == body {
			continue
		}
		if !b.Dominates(call.Block()) || b == call.Block() {
			continue
		}
		if i2, ok := b.Instrs[len(b.Instrs)-1].(*ssa.If); ok {
			for _, s := range b.Succs {
				if !s.Dominates(call.Block()) && L.Body[s] {
					fail("a second condition can skip a field: " + i2.Cond.String())
					return
				}
			}
			// a guard whose other edge aborts: only "the field cannot be addressed" may abort the walk, and the
			// transfer must be on the addressable side (header fields reached through a pointer always are)
			ca, isCA := isMethod(i2.Cond, "(reflect.Value).CanAddr")
			okAbort := false
			if isCA {
				if fc, ok := isMethod(ca.Call.Args[0], "(reflect.Value).Field"); ok && fc.Call.Args[0] == structVal && fc.Call.Args[1] == ssa.Value(iv) {
					okAbort = edgeDominates(b, 0, call.Block())
				}
			}
			if !okAbort {
				fail("the walk is aborted under a condition other than a field that cannot be addressed (or on the wrong side of that test): " + i2.Cond.String())
				return
			}
		}
	}
	// the error of the per-field call: a failure leaves the loop with a non-nil error, success goes on to the next field
	if msg := walkerErrorHandling(L, call); msg != "" {
		fail(msg)
		return
	}
	R.Pass("walkers", key, pos, fmt.Sprintf("i=0..NumField()-1, skip iff !CanInterface, %s(_, LittleEndian, Field(i).Addr().Interface()); an error ends the walk and is returned", apiName))
}

// walkerErrorHandling: the error result of call is tested against nil; on the non-nil edge the function returns
// something that is not the constant nil, on the nil edge the loop continues.
func walkerErrorHandling(L *natLoop, call *ssa.Call) string {
	var tests []*ssa.BinOp
	flow := []ssa.Value{call}
	for i := 0; i < len(flow); i++ {
		refs := flow[i].Referrers()
		if refs == nil {
			continue
		}
		for _, r := range *refs {
			switch x := r.(type) {
			case *ssa.BinOp:
				if c, ok := x.Y.(*ssa.Const); ok && c.Value == nil && (x.Op == token.NEQ || x.Op == token.EQL) {
					tests = append(tests, x)
				}
			case *ssa.Phi:
				dup := false
				for _, f := range flow {
					if f == ssa.Value(x) {
						dup = true
					}
				}
				if !dup && L.Body[x.Block()] {
					flow = append(flow, x)
				}
			}
		}
	}
	if len(tests) != 1 {
		return fmt.Sprintf("the error of the per-field call is tested against nil %d times inside the walk, want once", len(tests))
	}
	t := tests[0]
	var iff *ssa.If
	for _, r := range *t.Referrers() {
		if i, ok := r.(*ssa.If); ok {
			iff = i
		}
	}
	if iff == nil {
		return "the nil test of the per-field error does not decide a branch"
	}
	fail, cont := iff.Block().Succs[0], iff.Block().Succs[1]
	if t.Op == token.EQL {
		fail, cont = cont, fail
	}
	for n := 0; n < 8 && len(fail.Instrs) == 1 && len(fail.Succs) == 1; n++ {
		fail = fail.Succs[0]
	}
	ret, ok := fail.Instrs[len(fail.Instrs)-1].(*ssa.Return)
	if !ok || L.Body[fail] {
		return "a failing field does not end the walk with a return"
	}
	if len(ret.Results) == 0 {
		return "a failing field returns nothing"
	}
	if c, isC := ret.Results[len(ret.Results)-1].(*ssa.Const); isC && c.Value == nil {
		return "a failing field returns nil: the error is swallowed"
	}
	if !L.Body[cont] {
		return "after a field was transferred successfully the walk does not continue"
	}
	return ""
}

func checkVersion(ctx *Ctx, hn *types.Named, hs *types.Struct, leaves []leafField, titleOff int) {
	R := ctx.R
	fn := ctx.Prog.Method("", "Header", "ReadHeader")
	if fn == nil {
		R.Fail("version", "ReadHeader", "", "(*Header).ReadHeader not found")
		return
	}
	pos := ctx.Prog.Pos(fn.Pos())
	ip := absint.New()
	ip.UnrollLoops = true // (a fixed-size field cleared by a counted loop)
	h := &absint.Ptr{Nil: absint.TriF, Obj: ip.SymObj("h", hn), T: hn}
	ip.Hooks.OverrideCall = func(ip *absint.Interp, st *absint.State, f *ssa.Function, a []absint.Val) (absint.Val, bool) {
		if reachesAPI(f, "encoding/binary.Read", map[*ssa.Function]bool{}) {
			// the parser fills the exported fields with arbitrary bytes: they are symbolic already
			return &absint.Top{Key: "nil"}, true
		}
		return nil, false
	}
	st := &absint.State{Heap: absint.NewHeap(nil)}
	_, out := ip.Call(fn, []absint.Val{h, &absint.Top{Key: "reader"}}, nil, st)
	if out == nil || len(ip.Imprec) > 0 {
		R.Fail("version", "ReadHeader:analysable", pos, fmt.Sprintf("not interpretable: %v", ip.Imprec))
		return
	}
	vi := fieldIndex(hs, "version")
	omc, ttl := fieldIndex(hs, "OldMakerCode"), fieldIndex(hs, "Title")
	if vi < 0 || omc < 0 || ttl < 0 {
		R.Fail("version", "fields", pos, "Header lacks version / OldMakerCode / Title")
		return
	}
	ver, _ := ip.Load(out, fieldPtr(h, hs.Field(vi).Type(), vi), hs.Field(vi).Type()).(*absint.Int)
	if ver == nil {
		R.Fail("version", "value", pos, "version is not an integer")
		return
	}
	// the two facts the version depends on, as canonical propositions (so the tests may be
	// written either way round, in a helper, or on a value computed from them)
	omcV, _ := ip.Load(st, fieldPtr(h, hs.Field(omc).Type(), omc), hs.Field(omc).Type()).(*absint.Int)
	var t20V *absint.Int
	if ta, ok := ip.Load(st, fieldPtr(h, hs.Field(ttl).Type(), ttl), hs.Field(ttl).Type()).(*absint.Array); ok && len(ta.E) > 20 {
		t20V, _ = ta.E[20].(*absint.Int)
	}
	if omcV == nil || t20V == nil {
		R.Fail("version", "fields", pos, "OldMakerCode / Title[20] are not integers")
		return
	}
	propA, polA := propName("==", omcV, absint.NewConst(omcV.W, 0x33, false))
	propB, polB := propName("==", t20V, absint.NewConst(t20V.W, 0, false))
	if propA == "" || propB == "" {
		R.Fail("version", "fields", pos, "cannot name the version conditions")
		return
	}
	resolve := func(x *absint.Int, asg [2]bool) *absint.Lin {
		props := map[string]bool{propA: asg[0] == polA, propB: asg[1] == polB}
		if v, ok := resolveUnder(x, ip.In.Conds, props); ok {
			return v.Lin
		}
		return x.Lin
	}
	want := map[[2]bool]uint64{{true, true}: 3, {true, false}: 3, {false, true}: 2, {false, false}: 1}
	okAll := true
	for asg, w := range want {
		r := resolve(ver, asg)
		if !r.IsConst() || r.C != w {
			okAll = false
			R.Fail("version", fmt.Sprintf("assignment:maker33=%v,title20zero=%v", asg[0], asg[1]), pos, fmt.Sprintf("version is %s, want %d (term %s)", r.Key(), w, trunc(ver.Lin.Key())))
		}
		// fields
		for _, l := range leaves {
			if strings.Contains(l.Path, ".") {
				continue
			}
			fi := fieldIndex(hs, l.Path)
			ft := hs.Field(fi).Type()
			fv := ip.Load(out, fieldPtr(h, ft, fi), ft)
			ev := ip.Load(st, fieldPtr(h, ft, fi), ft)
			zeroWanted := !asg[0] && !asg[1] && l.Offset < titleOff
			cmp := func(a, e absint.Val, path string) {
				ai, ok1 := a.(*absint.Int)
				ei, ok2 := e.(*absint.Int)
				if !ok1 || !ok2 {
					return
				}
				r := resolve(ai, asg)
				if zeroWanted {
					if !r.IsConst() || r.C != 0 {
						okAll = false
						R.Fail("version", "v1-zeroes:"+path, pos, fmt.Sprintf("in the version-1 case %s is %s, want 0", path, r.Key()))
					}
				} else if r.Key() != ei.Lin.Key() {
					okAll = false
					R.Fail("version", fmt.Sprintf("unchanged:%s:maker33=%v,title20zero=%v", path, asg[0], asg[1]), pos, fmt.Sprintf("%s becomes %s", path, r.Key()))
				}
			}
			switch x := fv.(type) {
			case *absint.Int:
				cmp(x, ev, l.Path)
			case *absint.Array:
				ea, _ := ev.(*absint.Array)
				for i := range x.E {
					if ea != nil && i < len(ea.E) {
						cmp(x.E[i], ea.E[i], fmt.Sprintf("%s[%d]", l.Path, i))
					}
				}
			}
		}
	}
	if okAll {
		R.Pass("version", "ReadHeader", pos, "3,3,2,1 over the four assignments; version 1 zeroes exactly the fields below Title; nothing else is modified")
	}
}

var turnedRound = regexp.MustCompile(`^\(([0-9a-f]+)>0\+(len\(.*\))\)$`)

func checkROMHeader(ctx *Ctx, total, titleOff int) {
	R := ctx.R
	pk := ctx.Prog.Pkg("")
	rt := pk.Type("ROM")
	if rt == nil {
		R.Fail("rom", "ROM", "", "type snes.ROM not found")
		return
	}
	rn := rt.Type().(*types.Named)
	rs := rn.Underlying().(*types.Struct)
	var setHdr func(ip *absint.Interp, st *absint.State, r *absint.Ptr)
	run := func(name string, onExt func(ev *absint.Event)) (*absint.Interp, *absint.State, *absint.Ptr, bool) {
		fn := ctx.Prog.Method("", "ROM", name)
		if fn == nil {
			R.Fail("rom", name, "", "(*ROM)."+name+" not found")
			return nil, nil, nil, false
		}
		ip := absint.New()
		r := &absint.Ptr{Nil: absint.TriF, Obj: ip.SymObj("r", rn), T: rn}
		ip.Hooks.OverrideCall = func(ip *absint.Interp, st *absint.State, f *ssa.Function, a []absint.Val) (absint.Val, bool) {
			if f.Signature.Recv() != nil && strings.Contains(f.Signature.Recv().Type().String(), "Header") {
				return &absint.Top{Key: "nil"}, true // Header.ReadHeader / WriteHeader: covered by the walker rules
			}
			return nil, false
		}
		ip.Hooks.ExtCall = func(ip *absint.Interp, st *absint.State, ev *absint.Event) (absint.Val, bool) {
			if onExt != nil {
				onExt(ev)
			}
			if strings.HasPrefix(ev.Callee, "bytes.NewReader") || strings.HasPrefix(ev.Callee, "(*bytes.Buffer).Bytes") {
				return nil, false
			}
			return nil, false
		}
		st := &absint.State{Heap: absint.NewHeap(nil)}
		if setHdr != nil {
			setHdr(ip, st, r)
		}
		_, out := ip.Call(fn, []absint.Val{r}, nil, st)
		var imp []string
		for _, m := range ip.Imprec {
			if !strings.Contains(m, "unmodelled external") {
				imp = append(imp, m)
			}
		}
		if out == nil || len(imp) > 0 {
			R.Fail("rom", name+":analysable", ctx.Prog.Pos(fn.Pos()), fmt.Sprintf("not interpretable: %v", imp))
			return nil, nil, nil, false
		}
		return ip, out, r, true
	}
	// HeaderOffset as established by the constructor
	hdrConst, hdrOK := newROMHeaderOffset(ctx, rs)
	if !hdrOK {
		R.Fail("rom", "NewROM:HeaderOffset", "", "NewROM does not set a constant HeaderOffset")
		return
	}
	hi := fieldIndex(rs, "HeaderOffset")
	setHdr = func(ip *absint.Interp, st *absint.State, r *absint.Ptr) {
		ip.Store(st, fieldPtr(r, rs.Field(hi).Type(), hi), rs.Field(hi).Type(), absint.NewConst(32, hdrConst, false))
	}
	// ReadHeader
	var rdSlice *absint.Slice
	if ip, _, _, ok := run("ReadHeader", func(ev *absint.Event) {
		if ev.Callee == "bytes.NewReader" && len(ev.Args) == 1 {
			rdSlice, _ = ev.Args[0].(*absint.Slice)
		}
	}); ok {
		pos := ctx.Prog.Pos(ctx.Prog.Method("", "ROM", "ReadHeader").Pos())
		_ = ip
		switch {
		case rdSlice == nil:
			R.Fail("rom", "ReadHeader:window", pos, "bytes.NewReader is not given a slice of Contents")
		case !strings.Contains(absint.ValKey(&rdSlice.Base), "r.Contents") || rdSlice.Off.Lin.Key() != fmt.Sprintf("%x", hdrConst) || rdSlice.Len.Lin.Key() != fmt.Sprintf("%x", total):
			R.Fail("rom", "ReadHeader:window", pos, fmt.Sprintf("parses %s, want Contents[HeaderOffset : HeaderOffset+%d]", absint.ValKey(rdSlice), total))
		default:
			R.Pass("rom", "ReadHeader:window", pos, fmt.Sprintf("Contents[HeaderOffset : HeaderOffset+%d]", total))
		}
	}
	// WriteHeader
	if ip, _, _, ok := run("WriteHeader", nil); ok {
		pos := ctx.Prog.Pos(ctx.Prog.Method("", "ROM", "WriteHeader").Pos())
		var copies []absint.Event
		for _, e := range ip.Events {
			if e.Kind == "copy" {
				copies = append(copies, e)
			}
		}
		okAll := len(copies) > 0
		// the version test, wherever it sits (a branch around the copies, or offsets
		// chosen beforehand): its key and which outcome means version <= 1
		type vcond struct {
			key string
			low bool // outcome `true` means version <= 1
		}
		var vconds []vcond
		noteCond := func(key string) {
			if !strings.Contains(key, "version") {
				return
			}
			for _, v := range vconds {
				if v.key == key {
					return
				}
			}
			b := ip.In.Conds[key]
			if b == nil || b.Cmp == nil {
				return
			}
			x, _ := b.Cmp.X.(*absint.Int)
			y, _ := b.Cmp.Y.(*absint.Int)
			if x == nil || y == nil {
				return
			}
			at := func(ver uint64) (bool, bool) {
				var l, r uint64
				if c, ok := y.IsConst(); ok && strings.Contains(x.Lin.Key(), "version") {
					l, r = ver, c
				} else if c, ok := x.IsConst(); ok && strings.Contains(y.Lin.Key(), "version") {
					l, r = c, ver
				} else {
					return false, false
				}
				switch b.Cmp.Op {
				case "<":
					return l < r, true
				case "<=":
					return l <= r, true
				case ">":
					return l > r, true
				case ">=":
					return l >= r, true
				case "==":
					return l == r, true
				case "!=":
					return l != r, true
				}
				return false, false
			}
			v1, ok1 := at(1)
			v2, ok2 := at(2)
			if ok1 && ok2 && v1 != v2 {
				vconds = append(vconds, vcond{key, v1})
			}
		}
		for _, cp := range copies {
			for k := range cp.Guards {
				noteCond(k)
			}
			for _, g := range cp.PathL {
				if g.Cmp != nil {
					ip.In.NoteCond(g.Key, &absint.Bool{K: absint.TriTop, Cmp: g.Cmp})
				}
				noteCond(g.Key)
			}
			for _, a := range cp.Args[:2] {
				if sl, ok := a.(*absint.Slice); ok {
					conds := map[string]bool{}
					absint.IteConds(sl.Off.Lin, conds)
					absint.IteConds(sl.Len.Lin, conds)
					for k := range conds {
						noteCond(k)
					}
				}
			}
		}
		seenLow, seenHigh := len(vconds) > 0, len(vconds) > 0
		if len(vconds) == 0 {
			okAll = false
			R.Fail("rom", "WriteHeader:cases", pos, "no test of the header version governs the copy")
		}
		for _, low := range []bool{true, false} {
			if len(vconds) == 0 {
				break
			}
			assume := map[string]bool{}
			for _, v := range vconds {
				assume[v.key] = v.low == low
			}
			skip := 0
			if low {
				skip = titleOff
			}
			n := 0
			for _, cp := range copies {
				compatible := true
				for k, v := range cp.Guards {
					if av, ok := assume[k]; ok && av != v {
						compatible = false
					}
				}
				if !compatible {
					continue
				}
				n++
				dst, _ := cp.Args[0].(*absint.Slice)
				src, _ := cp.Args[1].(*absint.Slice)
				if dst == nil || src == nil {
					okAll = false
					continue
				}
				dOff := absint.Restrict(dst.Off.Lin, assume).Key()
				dLen := absint.Restrict(dst.Len.Lin, assume).Key()
				sOff := absint.Restrict(src.Off.Lin, assume).Key()
				if !strings.Contains(absint.ValKey(&dst.Base), "r.Contents") || dOff != fmt.Sprintf("%x", hdrConst+uint64(skip)) || dLen != fmt.Sprintf("%x", total-skip) || sOff != fmt.Sprintf("%x", skip) {
					okAll = false
					R.Fail("rom", fmt.Sprintf("WriteHeader:copy:version<=1=%v", low), pos, fmt.Sprintf("copies Contents[%s : +%s] <- bytes[%s:]; want Contents[HeaderOffset+%d : HeaderOffset+%d] <- bytes[%d:]", dOff, dLen, sOff, skip, total, skip))
				}
			}
			if n != 1 {
				okAll = false
				R.Fail("rom", fmt.Sprintf("WriteHeader:cases:version<=1=%v", low), pos, fmt.Sprintf("%d copies in this case, want exactly one", n))
			}
		}
		_, _ = seenLow, seenHigh
		if okAll {
			R.Pass("rom", "WriteHeader", pos, fmt.Sprintf("version<=1: bytes [%d,%d) only; otherwise [0,%d); same offsets on both sides", titleOff, total, total))
		}
	}
	// NewROM: HeaderOffset + total within the length the guard guarantees
	if fn := ctx.Prog.Func("", "NewROM"); fn != nil {
		pos := ctx.Prog.Pos(fn.Pos())
		ip := absint.New()
		var guardsAtRead map[string]bool
		var hdrOff *absint.Int
		ip.Hooks.OverrideCall = func(ip *absint.Interp, st *absint.State, f *ssa.Function, a []absint.Val) (absint.Val, bool) {
			if f.Name() == "ReadHeader" {
				guardsAtRead = ip.Guards(st)
				if p, ok := a[0].(*absint.Ptr); ok {
					hi := fieldIndex(rs, "HeaderOffset")
					hdrOff, _ = ip.Load(st, fieldPtr(p, rs.Field(hi).Type(), hi), rs.Field(hi).Type()).(*absint.Int)
				}
				return &absint.Top{Key: "nil"}, true
			}
			return nil, false
		}
		contents := ip.Load(&absint.State{Heap: absint.NewHeap(nil)}, &absint.Ptr{Obj: ip.SymObj("contents", types.NewPointer(types.NewSlice(types.Typ[types.Byte])))}, types.NewSlice(types.Typ[types.Byte]))
		ip.Call(fn, []absint.Val{&absint.Str{Key: "name"}, contents}, nil, &absint.State{Heap: absint.NewHeap(nil)})
		ok := false
		tooStrict := ""
		if hdrOff != nil {
			if c, isC := hdrOff.IsConst(); isC {
				for k, v := range guardsAtRead {
					// (len(contents) < K) == false
					// (K > len(contents)) == false is the same test written the other way round
					if m := turnedRound.FindStringSubmatch(k); m != nil && !v {
						k = "(0+" + m[2] + "<" + m[1] + ")"
					}
					if strings.HasPrefix(k, "(0+len(") && strings.Contains(k, "<") && !v {
						kk := k[strings.Index(k, "<")+1 : len(k)-1]
						if lim, err := strconv.ParseUint(kk, 16, 64); err == nil && c+uint64(total) <= lim {
							ok = true
							if lim > c+uint64(total) {
								tooStrict = fmt.Sprintf("NewROM refuses images shorter than $%X although the header ends at $%X: an image that holds a complete header is rejected", lim, c+uint64(total))
							}
						}
					}
				}
			}
		}
		if ok && tooStrict != "" {
			R.Fail("rom", "NewROM:refuses-valid", pos, tooStrict)
		}
		if ok {
			R.Pass("rom", "NewROM:length-guard", pos, fmt.Sprintf("HeaderOffset %s + %d <= guaranteed length", hdrOff, total))
		} else {
			R.Fail("rom", "NewROM:length-guard", pos, fmt.Sprintf("cannot show HeaderOffset+%d <= len(contents) at the ReadHeader call (HeaderOffset=%s, guards=%v)", total, fmtVal(hdrOff), guardsAtRead))
		}
	}
}

// newROMHeaderOffset interprets NewROM and returns the constant it stores to HeaderOffset.
func newROMHeaderOffset(ctx *Ctx, rs *types.Struct) (uint64, bool) {
	fn := ctx.Prog.Func("", "NewROM")
	if fn == nil {
		return 0, false
	}
	ip := absint.New()
	var val uint64
	found := false
	ip.Hooks.OverrideCall = func(ip *absint.Interp, st *absint.State, f *ssa.Function, a []absint.Val) (absint.Val, bool) {
		if f.Name() == "ReadHeader" {
			if p, ok := a[0].(*absint.Ptr); ok {
				hi := fieldIndex(rs, "HeaderOffset")
				if v, ok := ip.Load(st, fieldPtr(p, rs.Field(hi).Type(), hi), rs.Field(hi).Type()).(*absint.Int); ok {
					val, found = v.IsConst()
				}
			}
			return &absint.Top{Key: "nil"}, true
		}
		return nil, false
	}
	contents := ip.Load(&absint.State{Heap: absint.NewHeap(nil)}, &absint.Ptr{Obj: ip.SymObj("contents", types.NewPointer(types.NewSlice(types.Typ[types.Byte])))}, types.NewSlice(types.Typ[types.Byte]))
	ip.Call(fn, []absint.Val{&absint.Str{Key: "name"}, contents}, nil, &absint.State{Heap: absint.NewHeap(nil)})
	return val, found
}

// reachesAPI: f calls the named API itself, or through module functions it calls or closures it makes or passes on.
func reachesAPI(f *ssa.Function, api string, seen map[*ssa.Function]bool) bool {
	if _, dup := seen[f]; f == nil || dup || len(seen) > 400 {
		return false
	}
	seen[f] = len(seen) > 0 // the starting function is marked false
	if f.String() == api {
		return true
	}
	if root := seenRoot(seen); root != nil && f.Pkg != root.Pkg && (f.Parent() == nil || f.Parent().Pkg != root.Pkg) {
		return false // another package: not followed
	}
	for _, b := range f.Blocks {
		for _, in := range b.Instrs {
			for _, op := range in.Operands(nil) {
				if op == nil || *op == nil {
					continue
				}
				switch v := (*op).(type) {
				case *ssa.Function:
					if reachesAPI(v, api, seen) {
						return true
					}
				case *ssa.MakeClosure:
					if fn, ok := v.Fn.(*ssa.Function); ok && reachesAPI(fn, api, seen) {
						return true
					}
				}
			}
		}
	}
	for _, an := range f.AnonFuncs {
		if reachesAPI(an, api, seen) {
			return true
		}
	}
	return false
}

// seenRoot returns the function the traversal started from (the only one with a nil marker).
func seenRoot(seen map[*ssa.Function]bool) *ssa.Function {
	for f, first := range seen {
		if !first {
			return f
		}
	}
	return nil
}

// fieldPtrHelper checks a helper h(hv reflect.Value, i int) (p interface{}, ok bool): f = hv.Field(i); unexported
// (CanInterface false) -> (nil, false); not addressable -> panic; otherwise (f.Addr().Interface(), true).
func fieldPtrHelper(h *ssa.Function) string {
	if h.Blocks == nil || len(h.Params) != 2 || h.Signature.Results().Len() != 2 {
		return "not a function (struct value, index) -> (pointer, ok)"
	}
	isM := func(v ssa.Value, name string) (*ssa.Call, bool) {
		c, ok := v.(*ssa.Call)
		if !ok || c.Call.StaticCallee() == nil {
			return nil, false
		}
		return c, c.Call.StaticCallee().String() == name
	}
	isField := func(v ssa.Value) bool {
		fc, ok := isM(v, "(reflect.Value).Field")
		return ok && fc.Call.Args[0] == ssa.Value(h.Params[0]) && fc.Call.Args[1] == ssa.Value(h.Params[1])
	}
	var ciBlock, caBlock *ssa.BasicBlock
	for _, b := range h.Blocks {
		iff, ok := b.Instrs[len(b.Instrs)-1].(*ssa.If)
		if !ok {
			continue
		}
		if c, ok := isM(iff.Cond, "(reflect.Value).CanInterface"); ok && isField(c.Call.Args[0]) {
			ciBlock = b
		} else if c, ok := isM(iff.Cond, "(reflect.Value).CanAddr"); ok && isField(c.Call.Args[0]) {
			caBlock = b
			// the not-addressable edge must panic
			if _, isP := b.Succs[1].Instrs[len(b.Succs[1].Instrs)-1].(*ssa.Panic); !isP {
				return "a field that cannot be addressed does not panic"
			}
		} else {
			return "a condition other than CanInterface / CanAddr of Field(i): " + iff.Cond.String()
		}
	}
	if ciBlock == nil {
		return "unexported fields are not told apart (no CanInterface test of Field(i))"
	}
	nTrue := 0
	for _, b := range h.Blocks {
		ret, ok := b.Instrs[len(b.Instrs)-1].(*ssa.Return)
		if !ok {
			continue
		}
		okc, isC := ret.Results[1].(*ssa.Const)
		if !isC || okc.Value == nil {
			return "ok is not a constant on a return"
		}
		if constant.BoolVal(okc.Value) {
			nTrue++
			ic, ok1 := isM(ret.Results[0], "(reflect.Value).Interface")
			okPtr := false
			if ok1 {
				if ac, ok2 := isM(ic.Call.Args[0], "(reflect.Value).Addr"); ok2 && isField(ac.Call.Args[0]) {
					okPtr = true
				}
			}
			if !okPtr {
				return "the pointer returned with ok=true is not Field(i).Addr().Interface()"
			}
			if !edgeDominates(ciBlock, 0, b) || (caBlock != nil && !edgeDominates(caBlock, 0, b)) {
				return "ok=true is returned without the field having passed the exported / addressable tests"
			}
		} else {
			if !edgeDominates(ciBlock, 1, b) {
				return "ok=false is returned for something other than an unexported field"
			}
		}
	}
	if nTrue != 1 {
		return fmt.Sprintf("%d returns with ok=true, want 1", nTrue)
	}
	return ""
}
