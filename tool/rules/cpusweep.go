package rules

import (
	"fmt"
	"sort"
)

// Sweep holds the results of all Step cells of both CPU packages.
type Sweep struct {
	Models  map[string]*CPUModel
	Results map[string][]*CellResult
}

var sweepCache *Sweep

func cpuSweep(ctx *Ctx) *Sweep {
	if sweepCache != nil {
		return sweepCache
	}
	s := &Sweep{Models: map[string]*CPUModel{}, Results: map[string][]*CellResult{}}
	for _, rel := range cpuRels {
		m := newCPUModel(ctx, rel)
		s.Models[rel] = m
		if m.Err != "" {
			continue
		}
		s.Results[rel] = m.RunAll(m.Cells(true))
		steps := 0
		for _, r := range s.Results[rel] {
			steps += r.Steps
		}
		ctx.R.Count("cpu-cells", len(s.Results[rel]))
		ctx.R.Count("absint-steps", steps)
	}
	sweepCache = s
	return s
}

// opSet renders a set of opcodes compactly.
func opSet(ops map[int]bool) string {
	var l []int
	for o := range ops {
		l = append(l, o)
	}
	sort.Ints(l)
	s := ""
	for i, o := range l {
		if i > 0 {
			s += ","
		}
		if i >= 24 {
			s += fmt.Sprintf("…(%d opcodes)", len(l))
			break
		}
		s += fmt.Sprintf("%02X", o)
	}
	return s
}

func relShort(rel string) string {
	if i := len("emulator/"); len(rel) > i {
		return rel[i:]
	}
	return rel
}
