package rules

import (
	"encoding/json"
	"fmt"
	"go/types"
	"os"
	"path/filepath"
	"strings"

	"golang.org/x/tools/go/ssa"

	"verif/tool/absint"
	"verif/tool/load"
)

// Page summaries of the eight mapping functions (DESIGN.md §4 C04/C05).

type SumKind int

const (
	SumUnmapped SumKind = iota
	SumAffine
	SumNonUniform
)

type PageSum struct {
	Kind   SumKind
	Base   uint32 // Affine: output = Base + (input & 0x1FFF)
	Why    string // NonUniform: reason
	ErrKey string // Unmapped: identity of the error value
	ValKey string // Unmapped: returned address value
}

func (s PageSum) String() string {
	switch s.Kind {
	case SumUnmapped:
		return "unmapped"
	case SumAffine:
		return fmt.Sprintf("affine($%06X)", s.Base)
	}
	return "non-uniform(" + s.Why + ")"
}

const pageBits = 13
const nPages = 1 << (24 - pageBits)

var mapperNames = []string{"lorom", "hirom", "exhirom", "sa1rom"}

type MapperSums struct {
	B2P, P2B [nPages]PageSum
	FnB2P    *ssa.Function
	FnP2B    *ssa.Function
}

// summarize runs the abstract interpreter once per 8 KiB page.
func summarize(ctx *Ctx, fn *ssa.Function) (res [nPages]PageSum, steps int) {
	// the package-level variables of the mapper's package (and of the shared helpers) hold
	// what their initialisers put there: region tables are read from the interpreted init
	rel := ""
	if fn.Pkg != nil {
		rel = strings.TrimPrefix(strings.TrimPrefix(fn.Pkg.Pkg.Path(), load.ModulePath), "/")
	}
	w := NewWorld(ctx, "mapping/util", rel)
	ip := w.IP
	// the value the initialiser gave util.ErrUnmappedAddress: results equal to it are
	// reported under the variable's name
	errName, errValKey := "mapping/util.ErrUnmappedAddress", ""
	if gp, g, err := w.GlobalPtr(ctx, "mapping/util", "ErrUnmappedAddress"); err == nil {
		errValKey = strings.TrimPrefix(absint.ValKey(ip.Load(w.NewState(), gp, g.Type().(*types.Pointer).Elem())), "top:")
	}
	for page := 0; page < nPages; page++ {
		ip.Reset()
		ip.UnrollLoops = true // table-driven mappers: a loop over constant regions, every test decided by the page
		in := ip.In.Atom("in", pageBits, 1<<pageBits-1)
		// input = page<<13 | in(0..12): low bits are literals of the symbolic offset
		arg := absint.NewSym(32, in, false)
		arg = ip.Ops.Or(ip.Ops.Shl(absint.NewConst(32, uint64(page), false), absint.NewConst(32, pageBits, false)), arg)
		st := w.NewState()
		r, out := ip.Call(fn, []absint.Val{arg}, nil, st)
		steps += ip.Steps()
		res[page] = classify(ip, r, out, in)
		if errValKey != "" && res[page].ErrKey == errValKey {
			res[page].ErrKey = errName
		}
	}
	return
}

func classify(ip *absint.Interp, r absint.Val, out *absint.State, in *absint.Atom) PageSum {
	if len(ip.Imprec) > 0 {
		return PageSum{Kind: SumNonUniform, Why: "imprecise: " + ip.Imprec[0]}
	}
	if out == nil {
		return PageSum{Kind: SumNonUniform, Why: "no return reachable (panic)"}
	}
	tp, ok := r.(*absint.Tuple)
	if !ok || len(tp.E) != 2 {
		return PageSum{Kind: SumNonUniform, Why: "unexpected result shape"}
	}
	addr, ok := tp.E[0].(*absint.Int)
	if !ok {
		return PageSum{Kind: SumNonUniform, Why: "address result is not an integer"}
	}
	errKey := absint.ValKey(tp.E[1])
	switch {
	case errKey == "top:nil":
		// mapped: low 13 bits must be the input's low 13 bits, upper bits constant
		var base uint32
		for i := 0; i < 32; i++ {
			b := addr.Bits[i]
			if i < pageBits {
				if b.K != absint.BLit || b.A != in || int(b.Idx) != i || b.Neg {
					return PageSum{Kind: SumNonUniform, Why: fmt.Sprintf("offset bit %d is %s, not a copy of the input bit", i, b)}
				}
				continue
			}
			switch b.K {
			case absint.BOne:
				base |= 1 << uint(i)
			case absint.BZero:
			default:
				return PageSum{Kind: SumNonUniform, Why: fmt.Sprintf("address bit %d is not constant within the page (%s)", i, b)}
			}
		}
		return PageSum{Kind: SumAffine, Base: base}
	case strings.HasPrefix(errKey, "top:") && errKey != "top:":
		return PageSum{Kind: SumUnmapped, ErrKey: strings.TrimPrefix(errKey, "top:"), ValKey: absint.ValKey(addr)}
	}
	return PageSum{Kind: SumNonUniform, Why: "error result differs within the page (" + errKey + ")"}
}

var sumsCache map[string]*MapperSums

func mapperSums(ctx *Ctx) map[string]*MapperSums {
	if sumsCache != nil {
		return sumsCache
	}
	sumsCache = map[string]*MapperSums{}
	type job struct {
		name string
		dir  int
		fn   *ssa.Function
	}
	var jobs []job
	for _, m := range mapperNames {
		ms := &MapperSums{FnB2P: ctx.Prog.Func("mapping/"+m, "BusAddressToPak"), FnP2B: ctx.Prog.Func("mapping/"+m, "PakAddressToBus")}
		sumsCache[m] = ms
		if ms.FnB2P != nil {
			jobs = append(jobs, job{m, 0, ms.FnB2P})
		}
		if ms.FnP2B != nil {
			jobs = append(jobs, job{m, 1, ms.FnP2B})
		}
	}
	type resT struct {
		j     job
		sums  *[nPages]PageSum
		steps int
	}
	ch := make(chan resT)
	for _, j := range jobs {
		go func(j job) {
			s, n := summarize(ctx, j.fn)
			ch <- resT{j, &s, n}
		}(j)
	}
	for range jobs {
		r := <-ch
		if r.j.dir == 0 {
			sumsCache[r.j.name].B2P = *r.sums
		} else {
			sumsCache[r.j.name].P2B = *r.sums
		}
		ctx.R.Count("absint-steps", r.steps)
	}
	return sumsCache
}

// ---------------------------------------------------------------------------
// reference region table

type refRegion struct {
	Banks    [2]uint32 `json:"banks"`
	Offs     [2]uint32 `json:"offs"`
	Class    string    `json:"class"`
	BankMask uint32    `json:"bankMask"`
	BankBase uint32    `json:"bankBase"`
	Shift    uint      `json:"shift"`
	OffMask  uint32    `json:"offMask"`
	Add      uint32    `json:"add"`
	Note     string    `json:"note"`
}

type refMappers struct {
	Classes     map[string][2]uint32   `json:"classes"`
	PakRejected [2]uint32              `json:"pak_rejected"`
	Mappers     map[string][]refRegion `json:"mappers"`
	Console     struct {
		WramBanks   [2]uint32   `json:"wram_banks"`
		SystemBanks [][2]uint32 `json:"system_banks"`
		WramLow     [2]uint32   `json:"wram_low"`
		Registers   [2]uint32   `json:"registers"`
	} `json:"console"`
}

func loadRefMappers(ctx *Ctx) (*refMappers, error) {
	b, err := os.ReadFile(filepath.Join(ctx.VerifDir, "ref", "mapper_regions.json"))
	if err != nil {
		return nil, err
	}
	r := &refMappers{}
	if err := json.Unmarshal(b, r); err != nil {
		return nil, err
	}
	for m, regs := range r.Mappers {
		for _, g := range regs {
			if g.Offs[0]&0x1FFF != 0 || (g.Offs[1]+1)&0x1FFF != 0 || g.OffMask&0x1FFF != 0x1FFF {
				return nil, fmt.Errorf("reference region of %s is not page aligned: %+v", m, g)
			}
		}
	}
	return r, nil
}

// expected summary of bus page p according to the reference table.
func (r *refMappers) expect(mapper string, page int) (PageSum, string) {
	a := uint32(page) << pageBits
	bank, off := a>>16, a&0xFFFF
	for _, g := range r.Mappers[mapper] {
		if bank >= g.Banks[0] && bank <= g.Banks[1] && off >= g.Offs[0] && off <= g.Offs[1] {
			base := g.Add + (((bank & g.BankMask) - g.BankBase) << g.Shift) + (off & g.OffMask)
			return PageSum{Kind: SumAffine, Base: base}, g.Class
		}
	}
	return PageSum{Kind: SumUnmapped}, ""
}

func (r *refMappers) classOf(p uint32) string {
	for c, w := range r.Classes {
		if p >= w[0] && p <= w[1] {
			return c
		}
	}
	return ""
}

// pakClassOfInput: class of a pak address as an *input* of PakAddressToBus; WRAM
// includes its mirrors above $F6FFFF.
func pakInputClass(p uint32) string {
	switch {
	case p < 0xE00000:
		return "ROM"
	case p < 0xF00000:
		return "SRAM"
	case p >= 0xF50000:
		return "WRAM"
	}
	return ""
}

func pageRange(page int) string {
	a := uint32(page) << pageBits
	return fmt.Sprintf("$%06X-$%06X", a, a+0x1FFF)
}

// runs collapses consecutive page numbers into ranges for readable keys.
func pageRuns(pages []int) [][2]int {
	var out [][2]int
	for _, p := range pages {
		if n := len(out); n > 0 && out[n-1][1] == p-1 {
			out[n-1][1] = p
		} else {
			out = append(out, [2]int{p, p})
		}
	}
	return out
}

func runKey(r [2]int) string {
	return fmt.Sprintf("pages-$%06X..$%06X", uint32(r[0])<<pageBits, uint32(r[1])<<pageBits+0x1FFF)
}

// ---------------------------------------------------------------------------

func C04(ctx *Ctx) {
	R := ctx.R
	R.Explanation = "Each of the 8 mapping functions is abstractly interpreted once per 8 KiB page with the 13 offset bits symbolic (bit provenance), giving Unmapped / Affine(base) / NonUniform per page; round-trip and class obligations are then decided on the 2x2048 page summaries per mapper. A page verdict covers all 8192 addresses of the page."
	R.Trusted = []string{"go/packages + go/ssa (x/tools v0.29.0) faithfully represent the source", "transfer functions of absint for & | + - << >> comparisons phi", "inputs are 24-bit addresses (upper 8 bits of the uint32 zero)"}
	R.Rule("roundtrip", "for every bus page B with b2p(B)=Affine(p): p2b(page(p)) is Affine(b') and b2p(page(b'))=Affine(p) — PakAddressToBus is a right inverse on the image of BusAddressToPak")
	R.Rule("accepted", "for every pak page P that PakAddressToBus accepts with Affine(b): b2p(page(b)) is Affine(p') with class(p') = class(P); the page offset is preserved by Affine")
	R.Rule("uniform", "no page of either direction is NonUniform (needed to make the page summaries meaningful)")
	R.Exhaustive = true
	sums := mapperSums(ctx)
	R.Floor("mapper-functions", 8)
	R.Floor("pages", 8*nPages)
	var fnNames []string
	for _, m := range mapperNames {
		ms := sums[m]
		if ms.FnB2P == nil || ms.FnP2B == nil {
			R.Fail("uniform", m+":functions", "", "BusAddressToPak/PakAddressToBus not found in mapping/"+m)
			continue
		}
		R.Count("mapper-functions", 2)
		R.Count("pages", 2*nPages)
		fnNames = append(fnNames, ms.FnB2P.String(), ms.FnP2B.String())
		posB := ctx.Prog.Pos(ms.FnB2P.Pos())
		posP := ctx.Prog.Pos(ms.FnP2B.Pos())
		// uniformity (shared with C05, reported here too because the tables depend on it)
		var nonU []int
		for p := 0; p < nPages; p++ {
			if ms.B2P[p].Kind == SumNonUniform || ms.P2B[p].Kind == SumNonUniform {
				nonU = append(nonU, p)
			}
		}
		for _, r := range pageRuns(nonU) {
			why := ms.B2P[r[0]].Why
			if why == "" {
				why = ms.P2B[r[0]].Why
			}
			R.Fail("uniform", m+":"+runKey(r), posB, "page summary undecided: "+why)
		}
		if len(nonU) == 0 {
			R.Pass("uniform", m, posB, "all 4096 page summaries decided")
		}
		// roundtrip
		var bad []int
		detail := map[int]string{}
		for B := 0; B < nPages; B++ {
			s := ms.B2P[B]
			if s.Kind != SumAffine {
				continue
			}
			if s.Base>>pageBits >= nPages {
				bad = append(bad, B)
				detail[B] = fmt.Sprintf("bus %s -> pak $%X, which lies outside the 24-bit FX Pak Pro space", pageRange(B), s.Base)
				continue
			}
			back := ms.P2B[s.Base>>pageBits]
			if back.Kind != SumAffine {
				bad = append(bad, B)
				detail[B] = fmt.Sprintf("bus %s -> pak $%06X, but PakAddressToBus(pak page) is %s", pageRange(B), s.Base, back)
				continue
			}
			if back.Base>>pageBits >= nPages {
				bad = append(bad, B)
				detail[B] = fmt.Sprintf("bus %s -> pak $%06X -> bus $%X, which lies outside the 24-bit bus", pageRange(B), s.Base, back.Base)
				continue
			}
			again := ms.B2P[back.Base>>pageBits]
			if again.Kind != SumAffine || again.Base != s.Base {
				bad = append(bad, B)
				detail[B] = fmt.Sprintf("bus %s -> pak $%06X -> bus $%06X -> %s (expected pak $%06X again)", pageRange(B), s.Base, back.Base, again, s.Base)
			}
		}
		for _, r := range pageRuns(bad) {
			R.Fail("roundtrip", m+":bus-"+runKey(r), posP, detail[r[0]])
		}
		if len(bad) == 0 {
			R.Pass("roundtrip", m, posP, "every mapped bus page round-trips")
		}
		// accepted
		bad = nil
		detail = map[int]string{}
		for P := 0; P < nPages; P++ {
			s := ms.P2B[P]
			if s.Kind != SumAffine {
				continue
			}
			pc := pakInputClass(uint32(P) << pageBits)
			if s.Base>>pageBits >= nPages {
				bad = append(bad, P)
				detail[P] = fmt.Sprintf("pak %s (%s) -> bus $%X, which lies outside the 24-bit bus (BusAddressToPak cannot map it)", pageRange(P), pc, s.Base)
				continue
			}
			fwd := ms.B2P[s.Base>>pageBits]
			if fwd.Kind != SumAffine {
				bad = append(bad, P)
				detail[P] = fmt.Sprintf("pak %s (%s) -> bus $%06X which BusAddressToPak does not map (%s)", pageRange(P), pc, s.Base, fwd)
				continue
			}
			if c := pakInputClass(fwd.Base); c != pc {
				bad = append(bad, P)
				detail[P] = fmt.Sprintf("pak %s is %s but -> bus $%06X -> pak $%06X which is %s", pageRange(P), pc, s.Base, fwd.Base, c)
			}
		}
		for _, r := range pageRuns(bad) {
			R.Fail("accepted", m+":pak-"+runKey(r), posP, detail[r[0]])
		}
		if len(bad) == 0 {
			R.Pass("accepted", m, posP, "every accepted pak page lands on mapped memory of its own class")
		}
	}
	R.Analysed["functions"] = fnNames
	R.Analysed["cells"] = fmt.Sprintf("%d abstract cells (8 functions x %d pages of 8 KiB)", 8*nPages, nPages)
}

func C05(ctx *Ctx) {
	R := ctx.R
	R.Explanation = "Same page summaries as C04 (abstract interpretation per 8 KiB page with symbolic offset bits). Decides: every page is uniform; unmapped pages return (0, util.ErrUnmappedAddress) and mapped pages nil; every bus->pak base lies in exactly one class window; pak->bus rejects exactly $F00000-$F4FFFF; the console-owned regions agree across the four mappers; and the bus->pak summaries equal the expansion of the documented region table ref/mapper_regions.json."
	R.Trusted = []string{"go/packages + go/ssa (x/tools v0.29.0)", "absint transfer functions", "ref/mapper_regions.json as the documented region table", "inputs are 24-bit addresses"}
	R.Rule("uniform", "no page is NonUniform: regions are unions of whole 8 KiB pages and translation copies the 13 offset bits unchanged (byte order preserved) in both directions")
	R.Rule("error-shape", "an unmapped page returns address 0 and exactly the value of util.ErrUnmappedAddress; a mapped page returns a nil error")
	R.Rule("class-window", "every bus->pak base (and base+$1FFF) lies in exactly one of ROM <$E00000, SRAM $E00000-$EFFFFF, WRAM $F50000-$F6FFFF; pak->bus rejects exactly the pages of $F00000-$F4FFFF")
	R.Rule("console", "all mappers: banks $7E-$7F -> $F50000+(a-$7E0000); offsets $0000-$1FFF of banks $00-$3F,$80-$BF -> $F50000+offset; $2000-$5FFF of those banks unmapped")
	R.Rule("region-table", "the bus->pak page summaries equal the expansion of the documented region table")
	R.Exhaustive = true
	ref, err := loadRefMappers(ctx)
	if err != nil {
		R.Fail("region-table", "reference", "", "cannot load reference: "+err.Error())
		return
	}
	sums := mapperSums(ctx)
	R.Floor("mapper-functions", 8)
	R.Floor("pages", 8*nPages)
	var fnNames []string
	for _, m := range mapperNames {
		ms := sums[m]
		if ms.FnB2P == nil || ms.FnP2B == nil {
			R.Fail("uniform", m+":functions", "", "BusAddressToPak/PakAddressToBus not found in mapping/"+m)
			continue
		}
		R.Count("mapper-functions", 2)
		R.Count("pages", 2*nPages)
		fnNames = append(fnNames, ms.FnB2P.String(), ms.FnP2B.String())
		posB := ctx.Prog.Pos(ms.FnB2P.Pos())
		posP := ctx.Prog.Pos(ms.FnP2B.Pos())
		for dir, arr := range [][nPages]PageSum{ms.B2P, ms.P2B} {
			dn, pos := "bus2pak", posB
			if dir == 1 {
				dn, pos = "pak2bus", posP
			}
			var nonU, badErr []int
			why := map[int]string{}
			for p := 0; p < nPages; p++ {
				s := arr[p]
				switch s.Kind {
				case SumNonUniform:
					nonU = append(nonU, p)
					why[p] = s.Why
				case SumUnmapped:
					if !strings.HasSuffix(s.ErrKey, "mapping/util.ErrUnmappedAddress") || s.ValKey != "0" {
						badErr = append(badErr, p)
						why[p] = fmt.Sprintf("unmapped page returns (%s, %s)", s.ValKey, s.ErrKey)
					}
				}
			}
			for _, r := range pageRuns(nonU) {
				R.Fail("uniform", m+":"+dn+":"+runKey(r), pos, why[r[0]])
			}
			if len(nonU) == 0 {
				R.Pass("uniform", m+":"+dn, pos, "2048 pages uniform")
			}
			for _, r := range pageRuns(badErr) {
				R.Fail("error-shape", m+":"+dn+":"+runKey(r), pos, why[r[0]])
			}
			if len(badErr) == 0 {
				R.Pass("error-shape", m+":"+dn, pos, "unmapped pages return (0, ErrUnmappedAddress), mapped pages nil")
			}
		}
		// class windows, bus->pak
		var bad []int
		why := map[int]string{}
		for p := 0; p < nPages; p++ {
			s := ms.B2P[p]
			if s.Kind != SumAffine {
				continue
			}
			c0, c1 := ref.classOf(s.Base), ref.classOf(s.Base+0x1FFF)
			if c0 == "" || c0 != c1 {
				bad = append(bad, p)
				why[p] = fmt.Sprintf("bus %s -> pak $%06X lies in no single class window", pageRange(p), s.Base)
			}
		}
		for _, r := range pageRuns(bad) {
			R.Fail("class-window", m+":bus2pak:"+runKey(r), posB, why[r[0]])
		}
		if len(bad) == 0 {
			R.Pass("class-window", m+":bus2pak", posB, "all bases inside one class window")
		}
		// pak->bus rejection window
		bad = nil
		why = map[int]string{}
		for p := 0; p < nPages; p++ {
			a := uint32(p) << pageBits
			inRej := a >= ref.PakRejected[0] && a <= ref.PakRejected[1]
			s := ms.P2B[p]
			if s.Kind == SumNonUniform {
				continue
			}
			if inRej != (s.Kind == SumUnmapped) {
				bad = append(bad, p)
				if inRej {
					why[p] = fmt.Sprintf("pak %s is in the unassigned window but is translated to $%06X", pageRange(p), s.Base)
				} else {
					why[p] = fmt.Sprintf("pak %s is outside the unassigned window but is rejected", pageRange(p))
				}
			}
		}
		for _, r := range pageRuns(bad) {
			R.Fail("class-window", m+":pak2bus:"+runKey(r), posP, why[r[0]])
		}
		if len(bad) == 0 {
			R.Pass("class-window", m+":pak2bus", posP, "rejects exactly $F00000-$F4FFFF")
		}
		// console-owned regions
		bad = nil
		why = map[int]string{}
		for p := 0; p < nPages; p++ {
			a := uint32(p) << pageBits
			bank, off := a>>16, a&0xFFFF
			s := ms.B2P[p]
			if s.Kind == SumNonUniform {
				continue
			}
			var want *PageSum
			if bank >= ref.Console.WramBanks[0] && bank <= ref.Console.WramBanks[1] {
				want = &PageSum{Kind: SumAffine, Base: 0xF50000 + (a - ref.Console.WramBanks[0]<<16)}
			} else {
				sys := false
				for _, sb := range ref.Console.SystemBanks {
					if bank >= sb[0] && bank <= sb[1] {
						sys = true
					}
				}
				if sys && off <= ref.Console.WramLow[1] {
					want = &PageSum{Kind: SumAffine, Base: 0xF50000 + off}
				} else if sys && off >= ref.Console.Registers[0] && off <= ref.Console.Registers[1] {
					want = &PageSum{Kind: SumUnmapped}
				}
			}
			if want != nil && (want.Kind != s.Kind || (want.Kind == SumAffine && want.Base != s.Base)) {
				bad = append(bad, p)
				why[p] = fmt.Sprintf("console-owned bus %s: got %s, want %s", pageRange(p), s, *want)
			}
		}
		for _, r := range pageRuns(bad) {
			R.Fail("console", m+":"+runKey(r), posB, why[r[0]])
		}
		if len(bad) == 0 {
			R.Pass("console", m, posB, "WRAM banks, low-8K mirrors and register holes as documented")
		}
		// region table
		bad = nil
		why = map[int]string{}
		for p := 0; p < nPages; p++ {
			s := ms.B2P[p]
			if s.Kind == SumNonUniform {
				continue
			}
			want, _ := ref.expect(m, p)
			if want.Kind != s.Kind || (want.Kind == SumAffine && want.Base != s.Base) {
				bad = append(bad, p)
				why[p] = fmt.Sprintf("bus %s: code gives %s, documented region table gives %s", pageRange(p), s, want)
			}
		}
		for _, r := range pageRuns(bad) {
			R.Fail("region-table", m+":"+runKey(r), posB, why[r[0]])
		}
		if len(bad) == 0 {
			R.Pass("region-table", m, posB, "2048 pages equal the documented table")
		}
	}
	R.Analysed["functions"] = fnNames
	R.Analysed["cells"] = fmt.Sprintf("%d abstract cells (8 functions x %d pages of 8 KiB)", 8*nPages, nPages)
}
