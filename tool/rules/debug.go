package rules

import "fmt"

// Debug runs ad-hoc dumps used while developing rules.
func Debug(ctx *Ctx, what string) {
	switch what {
	case "tables":
		for _, rel := range cpuRels {
			w := NewWorld(ctx, rel)
			fmt.Println(rel, "init notes:", w.InitNote, "base cells:", len(w.Base))
			t := extractTable(ctx, w, rel)
			fmt.Println(" where:", t.Where, "err:", t.Err)
			for _, k := range []int{0, 0x09, 0xB6, 0xFF} {
				e := t.E[k]
				fmt.Printf("  %02x: %+v proc=%v\n", k, e.Known, e.Proc)
				fmt.Printf("      op=%x mode=%d size=%d cyc=%d name=%s\n", e.Opcode, e.Mode, e.Size, e.Cycles, e.Name)
			}
			for _, n := range []string{"decCycles_flagM", "decCycles_flagX", "incCycles_PageCross", "incCycles_regDL_not00"} {
				bt, err := byteTable(ctx, w, rel, n)
				fmt.Println("  ", n, err, bt[:8])
			}
		}
	}
}
