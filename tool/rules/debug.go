package rules

import (
	"fmt"
	"os"
	"sort"
	"strconv"
	"time"

	"verif/tool/absint"
)

// Debug runs ad-hoc dumps used while developing rules.
func Debug(ctx *Ctx, what string) {
	switch what {
	case "cell":
		rel := cpuRels[0]
		if os.Getenv("ALT") != "" {
			rel = cpuRels[1]
		}
		m := newCPUModel(ctx, rel)
		fmt.Println("model err:", m.Err, "intr:", m.IntrVals, "none:", m.IntrNone)
		op, _ := strconv.ParseInt(os.Getenv("OP"), 16, 32)
		mm, _ := strconv.Atoi(os.Getenv("M"))
		xx, _ := strconv.Atoi(os.Getenv("X"))
		ee, _ := strconv.Atoi(os.Getenv("E"))
		in, _ := strconv.Atoi(os.Getenv("INTR"))
		cell := CPUCell{Opcode: int(op), M: mm, X: xx, E: ee, Intr: m.IntrNone, Stopped: -1, Op1: -1, DLZero: -1}
		if in > 0 {
			cell.Intr, cell.IntrIdx = m.IntrVals[in-1], in
		}
		if dv, err := strconv.Atoi(os.Getenv("DEC")); err == nil {
			cell.Dec = dv
		}
		r := m.Run(cell)
		fmt.Println("cell", cell, "returned", r.Returned, "ret", absint.ValKey(r.Ret), "steps", r.Steps, "dispatched", r.Dispatched)
		fmt.Println("imprec:", r.Imprec)
		for _, a := range r.Accesses {
			k := "R"
			if a.Write {
				k = "W"
			}
			fmt.Printf("  %s addr=%s idx=%s data=%s ib=%d %s\n", k, a.Addr, a.Index, a.Data, a.IByte, shortStack(a.Stack))
		}
		for _, e := range r.Events {
			if e.Kind != "slot-call" {
				fmt.Printf("  ev %s %s %s\n", e.Kind, e.Callee, shortStack(e.Stack))
			}
		}
		var ns []string
		for n := range r.Final {
			ns = append(ns, n)
		}
		sort.Strings(ns)
		for _, n := range ns {
			if absint.ValKey(r.Final[n]) != absint.ValKey(r.Entry[n]) {
				fmt.Printf("  %s: %s -> %s\n", n, absint.ValKey(r.Entry[n]), fmtVal(r.Final[n]))
			}
		}
		fmt.Println("  at dispatch stepPC =", fmtVal(r.AtDispatch["stepPC"]), "Cycles =", fmtVal(r.AtDispatch["Cycles"]))
	case "cells":
		for _, rel := range cpuRels {
			m := newCPUModel(ctx, rel)
			t0 := time.Now()
			rs := m.RunAll(m.Cells(true))
			steps, imp, noret := 0, 0, 0
			for _, r := range rs {
				steps += r.Steps
				if len(r.Imprec) > 0 {
					imp++
					if imp < 5 {
						fmt.Println("  imprecise", r.Cell, r.Imprec[0])
					}
				}
				if !r.Returned {
					noret++
				}
			}
			fmt.Println(rel, len(rs), "cells", steps, "steps", imp, "imprecise", noret, "no-return", time.Since(t0))
		}
	case "tables":
		for _, rel := range cpuRels {
			w := NewWorld(ctx, rel)
			fmt.Println(rel, "init notes:", w.InitNote, "base cells:", len(w.Base))
			t := extractTable(ctx, w, rel)
			fmt.Println(" where:", t.Where, "err:", t.Err)
			for _, k := range []int{0, 0x09, 0xB6, 0xFF} {
				e := t.E[k]
				fmt.Printf("  %02x: %+v proc=%v\n", k, e.Known, e.Proc)
				fmt.Printf("      op=%x mode=%d size=%d cyc=%d name=%s\n", e.Opcode, e.Mode, e.Size, e.Cycles, e.Name)
			}
			for _, n := range []string{"decCycles_flagM", "decCycles_flagX", "incCycles_PageCross", "incCycles_regDL_not00"} {
				bt, err := byteTable(ctx, w, rel, n)
				fmt.Println("  ", n, err, bt[:8])
			}
		}
	}
}

func fmtVal(v absint.Val) string {
	if i, ok := v.(*absint.Int); ok {
		return i.String()
	}
	return absint.ValKey(v)
}
