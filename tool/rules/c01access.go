package rules

import (
	"fmt"
	"sort"
	"strings"

	"verif/tool/absint"
)

// C01/operand-access: for every opcode (E=0, no pending interrupt) the set of bus
// addresses read and written — other than the instruction's own bytes and stack
// traffic — must be the one the WDC addressing-mode definitions prescribe, as terms
// over the registers and operand bytes, including the documented wrap rules:
// direct-page, stack-relative and (abs)/[abs] pointers wrap inside bank 0; (abs,X)
// pointers wrap inside the program bank; everything formed with the data bank or a
// long pointer is a 24-bit quantity (index added before the bank boundary is
// considered, second data byte at EA+1 modulo 2^24).

// data access class of a mnemonic: r/w/rw + width flag (m, x, 16) or none
var dataClass = map[string]string{
	"lda": "r:m", "adc": "r:m", "sbc": "r:m", "and": "r:m", "ora": "r:m", "eor": "r:m", "cmp": "r:m", "bit": "r:m",
	"ldx": "r:x", "ldy": "r:x", "cpx": "r:x", "cpy": "r:x",
	"sta": "w:m", "stz": "w:m", "stx": "w:x", "sty": "w:x",
	"asl": "rw:m", "lsr": "rw:m", "rol": "rw:m", "ror": "rw:m", "inc": "rw:m", "dec": "rw:m", "trb": "rw:m", "tsb": "rw:m",
	"pei": "r:16",
}

type accExpect struct {
	reads, writes []string
	note          string
}

// refCell is the reference view of one cell: the entry registers re-interned into an
// interner of its own (so that reference terms never mix atom numberings with the
// interpreted result), the operand bytes, the prescribed effective addresses, and the
// operand value.
type refCell struct {
	o    absint.Ops
	in   *absint.Interner
	c    CPUCell
	ref  isaOp
	regs map[string]*absint.Int
	acc  *accExpect
	// operand
	op16, op24 *absint.Int
	X16, Y16   *absint.Int
	width      int           // data width in bytes (0: no data operand)
	kind       string        // r, w, rw
	dataAddr   []*absint.Int // addresses of the data bytes, low first (memory operands)
	data       *absint.Int   // operand value (memory read or immediate), width*8 bits; nil for pure stores
	ptr        *absint.Int   // pointer fetched by (abs), [abs], (abs,x)
	epoch      int
}

func (rc *refCell) reg(name string) *absint.Int   { return rc.regs[name] }
func (rc *refCell) k(w int, v uint64) *absint.Int { return absint.NewConst(w, v, false) }
func (rc *refCell) ib(i int) *absint.Int {
	if i == 1 && rc.c.Op1 >= 0 {
		return rc.k(8, uint64(rc.c.Op1))
	}
	return absint.NewSym(8, rc.in.Atom(fmt.Sprintf("ib%d", i), 8, 0xFF), false)
}
func (rc *refCell) z(v *absint.Int, w int) *absint.Int { return rc.o.Convert(v, w, false, false) }

// rd is the byte read from addr (a 32-bit bus address term) in the current write epoch.
func (rc *refCell) rd(addr *absint.Int) *absint.Int {
	return absint.NewSym(8, rc.in.Atom(fmt.Sprintf("rd%d[%s]", rc.epoch, addr.Lin.Key()), 8, 0xFF), false)
}
func (rc *refCell) bank0(a16 *absint.Int) *absint.Int { return rc.z(a16, 32) }
func (rc *refCell) inBank(b, a16 *absint.Int) *absint.Int {
	return rc.o.Or(rc.o.Shl(rc.z(b, 32), rc.k(32, 16)), rc.z(a16, 32))
}
func (rc *refCell) mask24(v *absint.Int) *absint.Int { return rc.o.And(v, rc.k(32, 0xFFFFFF)) }
func (rc *refCell) join16(lo, hi *absint.Int) *absint.Int {
	return rc.o.Or(rc.o.Shl(rc.z(hi, 16), rc.k(16, 8)), rc.z(lo, 16))
}

// newRefCell builds the reference addresses of one cell; ok=false if the addressing
// mode has no reference model.
func newRefCell(ref isaOp, c CPUCell, entry map[string]absint.Val) (*refCell, bool) {
	in := absint.NewInterner()
	o := absint.Ops{In: in}
	rc := &refCell{o: o, in: in, c: c, ref: ref, regs: map[string]*absint.Int{}, acc: &accExpect{}}
	for n, v := range entry {
		if iv, ok := v.(*absint.Int); ok && iv.Lin != nil {
			rc.regs[n] = o.Rebuild(iv.Lin, nil)
		}
	}
	reg := rc.reg
	c16 := func(v uint64) *absint.Int { return rc.k(16, v) }
	c32 := func(v uint64) *absint.Int { return rc.k(32, v) }
	ib := rc.ib
	z16 := func(v *absint.Int) *absint.Int { return rc.z(v, 16) }
	z32 := func(v *absint.Int) *absint.Int { return rc.z(v, 32) }
	op16 := o.Or(o.Shl(z16(ib(2)), c16(8)), z16(ib(1)))
	op24 := o.Or(o.Or(o.Shl(z32(ib(3)), c32(16)), o.Shl(z32(ib(2)), c32(8))), z32(ib(1)))
	rc.op16, rc.op24 = op16, op24
	D, S, DBR, K := reg("RD"), reg("SP"), reg("RDBR"), reg("RK")
	var X, Y *absint.Int
	if c.X == 1 {
		if reg("RXl") == nil || reg("RYl") == nil {
			return nil, false
		}
		X, Y = z16(reg("RXl")), z16(reg("RYl"))
	} else {
		X, Y = reg("RX"), reg("RY")
	}
	if D == nil || S == nil || DBR == nil || K == nil || X == nil || Y == nil {
		return nil, false
	}
	rc.X16, rc.Y16 = X, Y
	e := rc.acc
	bank0 := rc.bank0
	inBank := rc.inBank
	mask24 := rc.mask24
	rd := func(addr *absint.Int) *absint.Int {
		e.reads = append(e.reads, addr.Lin.Key())
		return rc.rd(addr)
	}
	ptr16 := func(next func(i int) *absint.Int) *absint.Int {
		lo := rd(next(0))
		hi := rd(next(1))
		return rc.join16(lo, hi)
	}
	ptr24 := func(next func(i int) *absint.Int) *absint.Int {
		lo, mid, hi := rd(next(0)), rd(next(1)), rd(next(2))
		return o.Or(o.Or(o.Shl(z32(hi), c32(16)), o.Shl(z32(mid), c32(8))), z32(lo))
	}
	dpBase := func(extra *absint.Int) *absint.Int {
		a := o.Add(z16(ib(1)), D)
		if extra != nil {
			a = o.Add(o.Add(z16(ib(1)), extra), D)
		}
		return a
	}
	wrap0 := func(a16 *absint.Int) func(i int) *absint.Int {
		return func(i int) *absint.Int { return bank0(o.Add(a16, c16(uint64(i)))) }
	}
	// width of the data access
	cls := dataClass[ref.Mn]
	if cls != "" {
		p := strings.Split(cls, ":")
		rc.kind = p[0]
		switch p[1] {
		case "m":
			rc.width = 2 - c.M
		case "x":
			rc.width = 2 - c.X
		case "16":
			rc.width = 2
		}
	}
	width, kind := rc.width, rc.kind
	note := func(a *absint.Int) {
		rc.dataAddr = append(rc.dataAddr, a)
		if strings.Contains(kind, "r") {
			e.reads = append(e.reads, a.Lin.Key())
		}
		if strings.Contains(kind, "w") {
			e.writes = append(e.writes, a.Lin.Key())
		}
	}
	// data at a 24-bit effective address: EA, (EA+1) mod 2^24
	dataEA := func(ea *absint.Int) {
		for i := 0; i < width; i++ {
			a := ea
			if i > 0 {
				a = mask24(o.Add(ea, c32(uint64(i))))
			}
			note(a)
		}
	}
	// data in bank 0 with 16-bit wrap
	data0 := func(a16 *absint.Int) {
		for i := 0; i < width; i++ {
			note(bank0(o.Add(a16, c16(uint64(i)))))
		}
	}
	switch ref.Mode {
	case "imp", "acc", "imm8", "imm8s", "imm_m", "imm_x", "imm16", "rel8", "rel16":
		// no operand access beyond the instruction bytes
	case "dp", "(dp)s":
		data0(dpBase(nil))
	case "dp,x":
		data0(dpBase(X))
	case "dp,y":
		data0(dpBase(Y))
	case "sr,s":
		data0(o.Add(z16(ib(1)), S))
	case "(dp)":
		p := ptr16(wrap0(dpBase(nil)))
		dataEA(inBank(DBR, p))
	case "(dp,x)":
		p := ptr16(wrap0(dpBase(X)))
		dataEA(inBank(DBR, p))
	case "(dp),y":
		p := ptr16(wrap0(dpBase(nil)))
		dataEA(mask24(o.Add(inBank(DBR, p), z32(Y))))
	case "(sr,s),y":
		p := ptr16(wrap0(o.Add(z16(ib(1)), S)))
		dataEA(mask24(o.Add(inBank(DBR, p), z32(Y))))
	case "[dp]":
		dataEA(mask24(ptr24(wrap0(dpBase(nil)))))
	case "[dp],y":
		dataEA(mask24(o.Add(ptr24(wrap0(dpBase(nil))), z32(Y))))
	case "abs":
		dataEA(inBank(DBR, op16))
	case "abs,x":
		dataEA(mask24(o.Add(inBank(DBR, op16), z32(X))))
	case "abs,y":
		dataEA(mask24(o.Add(inBank(DBR, op16), z32(Y))))
	case "long":
		dataEA(mask24(op24))
	case "long,x":
		dataEA(mask24(o.Add(op24, z32(X))))
	case "(abs)":
		rc.ptr = z32(ptr16(wrap0(op16)))
	case "[abs]":
		rc.ptr = ptr24(wrap0(op16))
	case "(abs,x)":
		a := o.Add(op16, X)
		// (the order of JSR (abs,X)'s pointer fetch and return-address push is not
		// distinguished: they can only interact when the pointer lies in the stack)
		rc.ptr = z32(ptr16(func(i int) *absint.Int { return inBank(K, o.Add(a, c16(uint64(i)))) }))
	case "blk":
		// one byte from srcbank:X to destbank:Y (operand byte 1 = destination, byte 2 = source)
		src, dst := inBank(ib(2), X), inBank(ib(1), Y)
		e.reads = append(e.reads, src.Lin.Key())
		e.writes = append(e.writes, dst.Lin.Key())
		rc.dataAddr = []*absint.Int{src, dst}
	default:
		return nil, false
	}
	// operand value
	switch ref.Mode {
	case "imm8", "imm8s":
		rc.data = ib(1)
	case "imm16":
		rc.data = op16
	case "imm_m":
		if c.M == 1 {
			rc.data = ib(1)
		} else {
			rc.data = op16
		}
	case "imm_x":
		if c.X == 1 {
			rc.data = ib(1)
		} else {
			rc.data = op16
		}
	default:
		if strings.Contains(kind, "r") && len(rc.dataAddr) == width {
			switch width {
			case 1:
				rc.data = rc.rd(rc.dataAddr[0])
			case 2:
				rc.data = rc.join16(rc.rd(rc.dataAddr[0]), rc.rd(rc.dataAddr[1]))
			}
		}
	}
	// software interrupts read their vector (native mode)
	switch ref.Mn {
	case "brk":
		e.reads = append(e.reads, "ffe6", "ffe7")
	case "cop":
		e.reads = append(e.reads, "ffe4", "ffe5")
	}
	sort.Strings(e.reads)
	sort.Strings(e.writes)
	return rc, true
}

// expectedAccesses builds the reference address terms for one cell.
func expectedAccesses(ref isaOp, c CPUCell, entry map[string]absint.Val) (*accExpect, bool) {
	rc, ok := newRefCell(ref, c, entry)
	if !ok {
		return nil, false
	}
	return rc.acc, true
}

// observedAccesses extracts the non-instruction, non-stack accesses of a cell.
func observedAccesses(r *CellResult) (reads, writes []string) {
	for _, a := range r.Accesses {
		if a.IByte >= 0 || a.Addr == nil {
			continue
		}
		st := shortStack(a.Stack)
		if strings.Contains(st, ">push") || strings.Contains(st, ">pull") {
			continue
		}
		k := a.Addr.Lin.Key()
		if a.Write {
			writes = append(writes, k)
		} else {
			reads = append(reads, k)
		}
	}
	// a byte read twice (pointer fetched by the decoder and again by the routine) counts once
	dedup := func(s []string) []string {
		sort.Strings(s)
		var out []string
		for i, x := range s {
			if i == 0 || x != s[i-1] {
				out = append(out, x)
			}
		}
		return out
	}
	return dedup(reads), dedup(writes)
}

func checkOperandAccess(ctx *Ctx, isa *ISA, rs string, results []*CellResult) {
	R := ctx.R
	bad := aggMap{}
	n := 0
	for _, r := range results {
		c := r.Cell
		if c.E != 0 || c.IntrIdx != 0 || !r.Returned {
			continue
		}
		ref := isa.Ops[c.Opcode]
		exp, ok := expectedAccesses(ref, c, r.Entry)
		if !ok {
			bad.add(rs+":no-reference:"+ref.Mode, c.Opcode, "", "no reference access model for this mode")
			continue
		}
		n++
		gr, gw := observedAccesses(r)
		er, ew := dedupSorted(exp.reads), dedupSorted(exp.writes)
		if strings.Join(gr, "|") != strings.Join(er, "|") {
			bad.add(fmt.Sprintf("%s:%s:%s:reads", rs, ref.Mn, ref.Mode), c.Opcode, "", fmt.Sprintf("cell %s: reads %s; the addressing mode prescribes %s", c, diffSets(gr, er), ""))
		}
		if strings.Join(gw, "|") != strings.Join(ew, "|") {
			bad.add(fmt.Sprintf("%s:%s:%s:writes", rs, ref.Mn, ref.Mode), c.Opcode, "", fmt.Sprintf("cell %s: writes %s", c, diffSets(gw, ew)))
		}
	}
	R.Count("access-cells", n)
	emitAgg(R, "operand-access", bad, rs, fmt.Sprintf("%d native-mode cells: operand, pointer and data addresses are the prescribed terms", n))
}

func dedupSorted(s []string) []string {
	var out []string
	for i, x := range s {
		if i == 0 || x != s[i-1] {
			out = append(out, x)
		}
	}
	return out
}

// diffSets renders "got-only / want-only".
func diffSets(got, want []string) string {
	g, w := map[string]bool{}, map[string]bool{}
	for _, x := range got {
		g[x] = true
	}
	for _, x := range want {
		w[x] = true
	}
	var a, b []string
	for _, x := range got {
		if !w[x] {
			a = append(a, trunc(x))
		}
	}
	for _, x := range want {
		if !g[x] {
			b = append(b, trunc(x))
		}
	}
	return fmt.Sprintf("unexpected %v, missing %v", a, b)
}
