package rules

import (
	"fmt"
	"go/token"
	"go/types"
	"sort"
	"strings"
	"sync"

	"golang.org/x/tools/go/ssa"

	"verif/tool/absint"
)

// CPU cells: Step of one interpreter package, abstractly interpreted with the opcode
// and the flag bits M, X, E fixed and everything else symbolic (DESIGN.md §3.1).

type CPUCell struct {
	Opcode  int
	M, X, E int
	Intr    int // value of the Interrupt field at entry
	IntrIdx int // 0 = none pending, 1.. = index into the interrupt constants Step tests
	Stopped int // -1 symbolic, 0 false, 1 true
	Op1     int // -1: operand byte 1 symbolic, else fixed
	DLZero  int // -1 symbolic; 1: low byte of RD is zero; 0: non-zero
	Dec     int // 0: decimal flag symbolic; 1: D=0 (binary arithmetic); 2: D=1
}

func (c CPUCell) String() string {
	s := fmt.Sprintf("op=%02X M=%d X=%d E=%d intr=%d", c.Opcode, c.M, c.X, c.E, c.IntrIdx)
	if c.Stopped >= 0 {
		s += fmt.Sprintf(" stopped=%d", c.Stopped)
	}
	if c.Op1 >= 0 {
		s += fmt.Sprintf(" op1=%02X", c.Op1)
	}
	if c.Dec > 0 {
		s += fmt.Sprintf(" D=%d", c.Dec-1)
	}
	return s
}

type Access struct {
	Write bool
	Addr  *absint.Int
	Data  *absint.Int // written value / read result
	Index *absint.Int // table index used to select the backend
	Fn    *ssa.Function
	Pos   token.Pos
	Stack []string
	IByte int // >=0: classified as instruction byte i of the fetched instruction
	Seq   int
	Path  map[string]bool // undecided branch outcomes in force over the whole call stack
}

type CellResult struct {
	Cell     CPUCell
	Returned bool
	Ret      absint.Val
	Accesses []Access
	Events   []absint.Event
	Imprec   []string
	Entry    map[string]absint.Val // CPU field name -> entry value
	Final    map[string]absint.Val // CPU field name -> value at return
	// values captured when the opcode routine is entered
	AtDispatch map[string]absint.Val
	Dispatched *ssa.Function
	Steps      int
	Fetched    bool
	Conds      map[string]*absint.Bool // gate key -> comparison, for the gated merges in this result
	Branches   []*absint.Bool          // conditions of undecided branches, in traversal order
	BranchFns  []*ssa.Function
}

// CPUModel holds what is shared by all cells of one package.
type CPUModel struct {
	Rel       string
	Named     *types.Named
	Struct    *types.Struct
	Step      *ssa.Function
	Table     *CPUTable
	IntrVals  []int // constants Step compares the Interrupt field with
	IntrNone  int
	FlagNames []string
	Err       string
	pool      sync.Pool
	ctx       *Ctx
}

var flagFieldNames = []string{"N", "V", "M", "X", "D", "I", "Z", "C", "E", "B"}

func newCPUModel(ctx *Ctx, rel string) *CPUModel {
	m := &CPUModel{Rel: rel, ctx: ctx}
	named, step := cpuStruct(ctx, rel)
	if named == nil {
		m.Err = "CPU type with a Step method not found in " + rel
		return m
	}
	m.Named, m.Step = named, step
	m.Struct = named.Underlying().(*types.Struct)
	if !absint.IsAcyclic(step) {
		m.Err = "Step contains a loop; it cannot be interpreted by E1"
		return m
	}
	// interrupt constants: values the Interrupt field is compared with in Step
	fi := fieldIndex(m.Struct, "Interrupt")
	seen := map[int]bool{}
	stored := -1
	if fi >= 0 {
		isIntrLoad := func(v ssa.Value) bool {
			u, ok := v.(*ssa.UnOp)
			if !ok || u.Op != token.MUL {
				return false
			}
			fa, ok := u.X.(*ssa.FieldAddr)
			return ok && fa.Field == fi && types.Identical(fa.X.Type(), types.NewPointer(named))
		}
		for _, b := range step.Blocks {
			for _, in := range b.Instrs {
				switch x := in.(type) {
				case *ssa.BinOp:
					if x.Op == token.EQL && isIntrLoad(x.X) {
						if c, ok := x.Y.(*ssa.Const); ok {
							seen[int(c.Int64())] = true
						}
					}
				case *ssa.Store:
					if fa, ok := x.Addr.(*ssa.FieldAddr); ok && fa.Field == fi {
						if c, ok := x.Val.(*ssa.Const); ok {
							stored = int(c.Int64())
						}
					}
				}
			}
		}
	}
	// ... and the constants any function of the package stores into it (a Step that dispatches pending
	// interrupts through a table compares the field with nothing)
	if fi >= 0 {
		for _, fn := range ctx.Prog.AllFuncs() {
			if fn.Pkg != step.Pkg || fn == step {
				continue
			}
			for _, b := range fn.Blocks {
				for _, in := range b.Instrs {
					if x, ok := in.(*ssa.Store); ok {
						if fa, ok := x.Addr.(*ssa.FieldAddr); ok && fa.Field == fi && types.Identical(fa.X.Type(), types.NewPointer(named)) {
							if c, ok := x.Val.(*ssa.Const); ok && int(c.Int64()) != stored {
								seen[int(c.Int64())] = true
							}
						}
					}
				}
			}
		}
	}
	for v := range seen {
		m.IntrVals = append(m.IntrVals, v)
	}
	sort.Ints(m.IntrVals)
	m.IntrNone = stored
	if seen[stored] || stored < 0 {
		m.IntrNone = 0
		for seen[m.IntrNone] {
			m.IntrNone++
		}
	}
	for _, n := range flagFieldNames {
		if fieldIndex(m.Struct, n) >= 0 {
			m.FlagNames = append(m.FlagNames, n)
		}
	}
	m.pool.New = func() any { return m.newWorker() }
	// probe once for table errors
	wk := m.newWorker()
	if wk.table.Err != "" {
		m.Err = "opcode table: " + wk.table.Err
	}
	m.Table = wk.table
	m.pool.Put(wk)
	return m
}

type cpuWorker struct {
	w     *World
	table *CPUTable
	cpu   *absint.Ptr
}

func (m *CPUModel) newWorker() *cpuWorker {
	w := NewWorld(m.ctx, m.Rel, "emulator/bus")
	t := extractTable(m.ctx, w, m.Rel)
	cpu := t.CPUPtr
	if cpu == nil {
		cpu = &absint.Ptr{Nil: absint.TriF, Obj: w.IP.SymObj("cpu", m.Named), T: m.Named}
	}
	flagKeys := map[string]bool{}
	for _, n := range m.FlagNames {
		flagKeys["cpu."+n] = true
	}
	w.IP.EntryBound = func(name string, t types.Type) (uint64, bool) {
		if flagKeys[name] {
			return 1, true // assumption flags01, itself an obligation of C01
		}
		return 0, false
	}
	return &cpuWorker{w: w, table: t, cpu: cpu}
}

// FieldNames lists the CPU's leaf fields (flattening embedded structs) as "Name" or "Outer.Name".
func cpuLeafFields(st *types.Struct) (names []string, paths [][]int, typs []types.Type) {
	var walk func(s *types.Struct, prefix string, path []int)
	walk = func(s *types.Struct, prefix string, path []int) {
		for i := 0; i < s.NumFields(); i++ {
			f := s.Field(i)
			p := append(append([]int(nil), path...), i)
			if sub, ok := f.Type().Underlying().(*types.Struct); ok {
				walk(sub, prefix+f.Name()+".", p)
				continue
			}
			if _, ok := f.Type().Underlying().(*types.Array); ok {
				continue // opcode table etc.
			}
			names = append(names, prefix+f.Name())
			paths = append(paths, p)
			typs = append(typs, f.Type())
		}
	}
	walk(st, "", nil)
	return
}

func ptrAt(base *absint.Ptr, path []int) *absint.Ptr {
	p := &absint.Ptr{Nil: absint.TriF, Obj: base.Obj}
	p.Path = append([]absint.Sel(nil), base.Path...)
	for _, i := range path {
		p.Path = append(p.Path, absint.Sel{Field: i, Index: -1})
	}
	return p
}

// Run interprets Step in one cell.
func (m *CPUModel) Run(cell CPUCell) *CellResult { return m.RunFn(cell, m.Step, nil) }

// RenderEvent is one call that renders values into a trace line (xbuf.B method or fmt function).
type RenderEvent struct {
	Sink   string // "xbuf.X02", "fmt.Fprintf", ...
	Guards map[string]bool
	Vals   []absint.Val
	Caller *ssa.Function
	Stack  []*ssa.Function // functions being interpreted when the value was rendered, outermost first
	Pos    token.Pos
}

// RunFn interprets fn (a method of the CPU taking extra symbolic arguments) in one cell.
func (m *CPUModel) RunFn(cell CPUCell, entry *ssa.Function, onRender func(RenderEvent)) *CellResult {
	wk := m.pool.Get().(*cpuWorker)
	defer m.pool.Put(wk)
	ip := wk.w.IP
	ip.Reset()
	ip.UnrollLoops = true // counted loops with bounds fixed by the cell (operand bytes of a decoded length)
	res := &CellResult{Cell: cell, Entry: map[string]absint.Val{}, Final: map[string]absint.Val{}, AtDispatch: map[string]absint.Val{}, Conds: ip.In.Conds}
	st := wk.w.NewState()
	cpu := wk.cpu
	S := m.Struct
	setByte := func(name string, v int) {
		if i := fieldIndex(S, name); i >= 0 {
			w, s, _ := absint.IntType(S.Field(i).Type())
			ip.Store(st, fieldPtr(cpu, S.Field(i).Type(), i), S.Field(i).Type(), absint.NewConst(w, uint64(v), s))
		}
	}
	setByte("M", cell.M)
	setByte("X", cell.X)
	setByte("E", cell.E)
	setByte("Interrupt", cell.Intr)
	if cell.Dec > 0 {
		setByte("D", cell.Dec-1)
	}
	if cell.Stopped >= 0 {
		if i := fieldIndex(S, "Stopped"); i >= 0 {
			k := absint.TriF
			if cell.Stopped == 1 {
				k = absint.TriT
			}
			ip.Store(st, fieldPtr(cpu, S.Field(i).Type(), i), S.Field(i).Type(), &absint.Bool{K: k})
		}
	}
	if cell.DLZero >= 0 {
		if i := fieldIndex(S, "RD"); i >= 0 {
			hi := ip.Ops.Shl(absint.NewSym(16, ip.In.Atom("cpu.RDh", 16, 0xFF), false), absint.NewConst(16, 8, false))
			var lo *absint.Int
			if cell.DLZero == 1 {
				lo = absint.NewConst(16, 0, false)
			} else {
				// 1..255: represented as 1 + (0..254)
				lo = ip.Ops.Add(absint.NewConst(16, 1, false), absint.NewSym(16, ip.In.Atom("cpu.RDl-1", 16, 0xFE), false))
			}
			ip.Store(st, fieldPtr(cpu, S.Field(i).Type(), i), S.Field(i).Type(), ip.Ops.Or(hi, lo))
		}
	}
	names, paths, typs := cpuLeafFields(S)
	for i, n := range names {
		res.Entry[n] = ip.Load(st, ptrAt(cpu, paths[i]), typs[i])
	}
	// bus model
	var pcLin, rkLin *absint.Int
	epoch := 0
	curField := func(st *absint.State, name string) *absint.Int {
		i := fieldIndex(S, name)
		if i < 0 {
			return nil
		}
		v, _ := ip.Load(st, fieldPtr(cpu, S.Field(i).Type(), i), S.Field(i).Type()).(*absint.Int)
		return v
	}
	instrAddr := func(rk, pc *absint.Int, i int) *absint.Int {
		b := ip.Ops.Shl(ip.Ops.Convert(rk, 32, false, false), absint.NewConst(32, 16, false))
		o := ip.Ops.Convert(ip.Ops.Add(pc, absint.NewConst(16, uint64(i), false)), 32, false, false)
		return ip.Ops.Or(b, o)
	}
	ip.Hooks.SlotIsNil = func(s *absint.Slot) absint.Tri { return absint.TriF } // hypothesis: whole bus mapped
	ip.Hooks.SlotCall = func(ip *absint.Interp, st *absint.State, ev *absint.Event) absint.Val {
		acc := Access{Fn: ev.Fn, Pos: ev.Pos, Stack: ev.Stack, Index: ev.Slot.Index, IByte: -1, Seq: len(res.Accesses), Path: ip.PathGuards(st)}
		if len(ev.Args) >= 1 {
			acc.Addr, _ = ev.Args[0].(*absint.Int)
		}
		isWrite := ev.Method == "Write" || (ev.Method == "" && len(ev.Args) == 2)
		if isWrite {
			acc.Write = true
			if len(ev.Args) >= 2 {
				acc.Data, _ = ev.Args[1].(*absint.Int)
			}
			epoch++
			res.Accesses = append(res.Accesses, acc)
			return nil
		}
		var val *absint.Int
		if acc.Addr != nil {
			key := acc.Addr.Lin.Key()
			if !res.Fetched {
				rk, pc := curField(st, "RK"), curField(st, "PC")
				if rk != nil && pc != nil && instrAddr(rk, pc, 0).Lin.Key() == key {
					res.Fetched = true
					pcLin, rkLin = pc, rk
					acc.IByte = 0
					val = absint.NewConst(8, uint64(cell.Opcode), false)
				}
			} else {
				for i := 0; i <= 3; i++ {
					if instrAddr(rkLin, pcLin, i).Lin.Key() == key {
						acc.IByte = i
						switch {
						case i == 0:
							val = absint.NewConst(8, uint64(cell.Opcode), false)
						case i == 1 && cell.Op1 >= 0:
							val = absint.NewConst(8, uint64(cell.Op1), false)
						default:
							val = absint.NewSym(8, ip.In.Atom(fmt.Sprintf("ib%d", i), 8, 0xFF), false)
						}
					}
				}
			}
			if val == nil {
				val = absint.NewSym(8, ip.In.Atom(fmt.Sprintf("rd%d[%s]", epoch, key), 8, 0xFF), false)
			}
		} else {
			val = absint.NewTopInt(ip.In, 8, false, "read")
		}
		acc.Data = val
		res.Accesses = append(res.Accesses, acc)
		return val
	}
	ip.Hooks.Branch = func(ip *absint.Interp, cond *absint.Bool, instr *ssa.If) {
		res.Branches = append(res.Branches, cond)
		res.BranchFns = append(res.BranchFns, instr.Parent())
	}
	ip.Hooks.UnknownCall = func(ip *absint.Interp, st *absint.State, ev *absint.Event) (absint.Val, bool) {
		// user callbacks (OnPC, OnWDM): outside the library; assumed not to touch the CPU
		ev.Kind = "callback"
		return nil, true
	}
	ip.Hooks.Enter = func(ip *absint.Interp, fn *ssa.Function, args []absint.Val) {
		if res.Dispatched != nil || !res.Fetched {
			return
		}
		f := unwrapBound(m.ctx, fn)
		if m.Table != nil && m.Table.E[cell.Opcode].Proc == f {
			res.Dispatched = f
		}
	}
	// AtDispatch needs the state at the moment of the call: capture through OverrideCall
	ip.Hooks.OverrideCall = func(ip *absint.Interp, st *absint.State, fn *ssa.Function, args []absint.Val) (absint.Val, bool) {
		if res.Fetched && len(res.AtDispatch) == 0 && m.Table != nil && unwrapBound(m.ctx, fn) == m.Table.E[cell.Opcode].Proc && fn.Synthetic == "" {
			for i, n := range names {
				res.AtDispatch[n] = ip.Load(st, ptrAt(cpu, paths[i]), typs[i])
			}
		}
		return nil, false
	}
	args := []absint.Val{cpu}
	for i, p := range entry.Params[1:] {
		name := fmt.Sprintf("arg%d", i)
		if w, sg, ok := absint.IntType(p.Type()); ok {
			// an explicit address argument stands for the current PC
			if w == 16 {
				args = append(args, res.Entry["PC"])
			} else {
				args = append(args, absint.NewSym(w, ip.In.Atom(name, w, ^uint64(0)>>(64-uint(w))), sg))
			}
		} else if _, ok := p.Type().Underlying().(*types.Slice); ok {
			args = append(args, ip.Load(st, &absint.Ptr{Obj: ip.SymObj(name, types.NewPointer(p.Type())), T: p.Type()}, p.Type()))
		} else {
			args = append(args, &absint.Top{T: p.Type(), Key: name})
		}
	}
	if onRender != nil {
		prevOverride := ip.Hooks.OverrideCall
		ip.Hooks.OverrideCall = func(ip *absint.Interp, st *absint.State, fn *ssa.Function, a []absint.Val) (absint.Val, bool) {
			if fn.Pkg != nil && strings.HasSuffix(fn.Pkg.Pkg.Path(), "/xbuf") && fn.Signature.Recv() != nil {
				var caller *ssa.Function
				if ev := ip.CurFn(); ev != nil {
					caller = ev
				}
				onRender(RenderEvent{Sink: "xbuf." + fn.Name(), Vals: a[1:], Caller: caller, Stack: ip.StackFuncs(), Pos: ip.CurPos(), Guards: ip.PathGuards(st)})
				if fn.Signature.Results().Len() == 1 {
					return a[0], true
				}
				return nil, true
			}
			return prevOverride(ip, st, fn, a)
		}
		ip.Hooks.ExtCall = func(ip *absint.Interp, st *absint.State, ev *absint.Event) (absint.Val, bool) {
			if strings.HasPrefix(ev.Callee, "fmt.") {
				var vals []absint.Val
				for _, a := range ev.Args {
					if sl, ok := a.(*absint.Slice); ok && sl.Base.Obj != nil {
						if n, ok := sl.Len.IsConst(); ok && n < 32 {
							for i := 0; i < int(n); i++ {
								v := ip.Load(st, elemPtr(&sl.Base, sl.ElemT, i), sl.ElemT)
								if ifc, ok := v.(*absint.Iface); ok {
									v = ifc.V
								}
								vals = append(vals, v)
							}
							continue
						}
					}
					vals = append(vals, a)
				}
				onRender(RenderEvent{Sink: ev.Callee, Vals: vals, Caller: ev.Fn, Stack: ip.StackFuncs(), Pos: ev.Pos, Guards: ip.PathGuards(st)})
			}
			return nil, false
		}
	}
	ret, out := ip.Call(entry, args, nil, st)
	res.Returned = out != nil
	res.Ret = ret
	res.Events = append([]absint.Event(nil), ip.Events...)
	res.Imprec = append([]string(nil), ip.Imprec...)
	res.Steps = ip.Steps()
	if out != nil {
		for i, n := range names {
			res.Final[n] = ip.Load(out, ptrAt(cpu, paths[i]), typs[i])
		}
	}
	ip.Hooks = absint.Hooks{}
	return res
}

// Cells enumerates opcode x M x X x E x interrupt.
func (m *CPUModel) Cells(withIntr bool) []CPUCell {
	var cs []CPUCell
	intrs := []int{m.IntrNone}
	if withIntr {
		intrs = append(intrs, m.IntrVals...)
	}
	for op := 0; op < 256; op++ {
		for f := 0; f < 8; f++ {
			for ii, iv := range intrs {
				cs = append(cs, CPUCell{Opcode: op, M: f & 1, X: f >> 1 & 1, E: f >> 2 & 1, Intr: iv, IntrIdx: ii, Stopped: -1, Op1: -1, DLZero: -1})
			}
		}
	}
	return cs
}

// RunAll runs cells in parallel and returns results in order.
func (m *CPUModel) RunAll(cells []CPUCell) []*CellResult {
	out := make([]*CellResult, len(cells))
	var wg sync.WaitGroup
	sem := make(chan struct{}, 16)
	for i := range cells {
		wg.Add(1)
		sem <- struct{}{}
		go func(i int) {
			defer wg.Done()
			defer func() { <-sem }()
			defer func() {
				if r := recover(); r != nil {
					out[i] = &CellResult{Cell: cells[i], Imprec: []string{fmt.Sprintf("engine panic: %v", r)}}
				}
			}()
			out[i] = m.Run(cells[i])
		}(i)
	}
	wg.Wait()
	return out
}

func shortStack(s []string) string {
	var out []string
	for _, f := range s {
		if i := strings.LastIndex(f, "."); i >= 0 {
			f = f[i+1:]
		}
		out = append(out, f)
	}
	return strings.Join(out, ">")
}

// HasField reports whether the CPU struct (embedded structs included) has a field of that name.
func (m *CPUModel) HasField(name string) bool {
	var walk func(st *types.Struct) bool
	walk = func(st *types.Struct) bool {
		for i := 0; i < st.NumFields(); i++ {
			f := st.Field(i)
			if f.Name() == name {
				return true
			}
			if f.Embedded() {
				t := f.Type()
				if p, ok := t.(*types.Pointer); ok {
					t = p.Elem()
				}
				if es, ok := t.Underlying().(*types.Struct); ok && walk(es) {
					return true
				}
			}
		}
		return false
	}
	return m.Struct != nil && walk(m.Struct)
}
