package rules

import (
	"fmt"
	"go/token"
	"go/types"
	"sort"
	"strings"

	"golang.org/x/tools/go/ssa"

	"verif/tool/load"
)

// Mod-sets (engine E2): for every function, which fields of which named struct types
// it may modify, directly, through slices/maps loaded from such fields, or through
// callees. Object-insensitive; parameter-relative so that effects compose at calls.

type fieldKey struct {
	T *types.Named
	F int
}

func (k fieldKey) String() string {
	if k.T == nil {
		return "?"
	}
	st := k.T.Underlying().(*types.Struct)
	return k.T.Obj().Name() + "." + st.Field(k.F).Name()
}

// root of a reference: parameter index (>=0), or one of the negative kinds
const (
	rootLocal   = -1 // allocation made by the function itself (initialisation, not mutation)
	rootGlobal  = -2
	rootUnknown = -3
	rootFresh   = -4 // result of make/append/new in a callee or builtin
)

type target struct {
	Root  int
	Field *fieldKey // outermost field below the root object, nil = the root object itself / unknown position
	Glob  *ssa.Global
	Deref bool // the storage is reached through a reference loaded from that field (its elements), not the field cell itself
}

type effect struct {
	Tgt   target
	What  string // "store", "map-update", "element", "external:<fn>"
	Instr ssa.Instruction
	Via   string // callee chain for transitive effects
}

type modSets struct {
	ctx    *Ctx
	memo   map[*ssa.Function][]effect
	inProg map[*ssa.Function]bool
}

func newModSets(ctx *Ctx) *modSets {
	return &modSets{ctx: ctx, memo: map[*ssa.Function][]effect{}, inProg: map[*ssa.Function]bool{}}
}

func namedOfPtr(t types.Type) *types.Named {
	p, ok := t.Underlying().(*types.Pointer)
	if !ok {
		return nil
	}
	n, _ := p.Elem().(*types.Named)
	if n == nil {
		return nil
	}
	if _, ok := n.Underlying().(*types.Struct); !ok {
		return nil
	}
	return n
}

// resolve finds what storage a pointer / slice / map value refers to.
func (ms *modSets) resolve(fn *ssa.Function, v ssa.Value, depth int) []target {
	if depth > 12 {
		return []target{{Root: rootUnknown}}
	}
	switch x := v.(type) {
	case *ssa.Parameter:
		for i, p := range fn.Params {
			if p == x {
				return []target{{Root: i}}
			}
		}
		return []target{{Root: rootUnknown}}
	case *ssa.FreeVar:
		return []target{{Root: rootUnknown}}
	case *ssa.Global:
		return []target{{Root: rootGlobal, Glob: x}}
	case *ssa.Alloc:
		return []target{{Root: rootLocal}}
	case *ssa.FieldAddr:
		base := ms.resolve(fn, x.X, depth+1)
		n := namedOfPtr(x.X.Type())
		var out []target
		for _, b := range base {
			if b.Field == nil && n != nil && b.Root != rootLocal {
				fk := fieldKey{n, x.Field}
				b.Field = &fk
			}
			out = append(out, b)
		}
		return out
	case *ssa.IndexAddr:
		return ms.resolve(fn, x.X, depth+1)
	case *ssa.Slice:
		return ms.resolve(fn, x.X, depth+1)
	case *ssa.ChangeType:
		return ms.resolve(fn, x.X, depth+1)
	case *ssa.Convert:
		return ms.resolve(fn, x.X, depth+1)
	case *ssa.UnOp:
		if x.Op == token.MUL {
			// a reference loaded from a cell: refers to what hangs below that cell
			t := ms.resolve(fn, x.X, depth+1)
			var out []target
			for _, b := range t {
				if b.Root == rootLocal {
					// value read back from a local: find what was stored there
					if a := rootAlloc(x.X); a != nil {
						found := false
						for _, ref := range *a.Referrers() {
							if s, ok := ref.(*ssa.Store); ok && s.Addr == x.X {
								out = append(out, ms.resolve(fn, s.Val, depth+1)...)
								found = true
							}
						}
						if found {
							continue
						}
					}
					out = append(out, target{Root: rootLocal})
					continue
				}
				b.Deref = true
				out = append(out, b)
			}
			return out
		}
	case *ssa.Phi:
		var out []target
		for _, e := range x.Edges {
			out = append(out, ms.resolve(fn, e, depth+1)...)
		}
		return out
	case *ssa.MakeSlice, *ssa.MakeMap, *ssa.MakeChan:
		return []target{{Root: rootFresh}}
	case *ssa.Const:
		return []target{{Root: rootFresh}}
	case *ssa.Extract:
		return ms.resolve(fn, x.Tuple, depth+1)
	case *ssa.Lookup:
		// a slice stored as a map value: belongs to the map
		return ms.resolve(fn, x.X, depth+1)
	case *ssa.Next:
		return ms.resolve(fn, x.Iter, depth+1)
	case *ssa.Range:
		return ms.resolve(fn, x.X, depth+1)
	case *ssa.Call:
		if b, ok := x.Call.Value.(*ssa.Builtin); ok && b.Name() == "append" && len(x.Call.Args) > 0 {
			return append(ms.resolve(fn, x.Call.Args[0], depth+1), target{Root: rootFresh})
		}
		return []target{{Root: rootFresh}}
	case *ssa.MakeInterface:
		return ms.resolve(fn, x.X, depth+1)
	}
	return []target{{Root: rootUnknown}}
}

// Of returns the (transitive) effects of fn on storage that exists before the call.
func (ms *modSets) Of(fn *ssa.Function) []effect {
	if e, ok := ms.memo[fn]; ok {
		return e
	}
	if ms.inProg[fn] || len(fn.Blocks) == 0 {
		return nil
	}
	ms.inProg[fn] = true
	var out []effect
	add := func(ts []target, what string, in ssa.Instruction, via string) {
		for _, t := range ts {
			if t.Root == rootLocal || t.Root == rootFresh {
				continue
			}
			out = append(out, effect{Tgt: t, What: what, Instr: in, Via: via})
		}
	}
	for _, b := range fn.Blocks {
		for _, in := range b.Instrs {
			switch x := in.(type) {
			case *ssa.Store:
				add(ms.resolve(fn, x.Addr, 0), "store", x, "")
			case *ssa.MapUpdate:
				add(ms.resolve(fn, x.Map, 0), "map-update", x, "")
			case *ssa.Call:
				ms.callEffects(fn, x, &x.Call, add)
			case *ssa.Defer:
				ms.callEffects(fn, x, &x.Call, add)
			case *ssa.Go:
				ms.callEffects(fn, x, &x.Call, add)
			}
		}
	}
	delete(ms.inProg, fn)
	ms.memo[fn] = out
	return out
}

func (ms *modSets) callEffects(fn *ssa.Function, in ssa.Instruction, c *ssa.CallCommon, add func([]target, string, ssa.Instruction, string)) {
	if b, ok := c.Value.(*ssa.Builtin); ok {
		switch b.Name() {
		case "copy":
			add(ms.resolve(fn, c.Args[0], 0), "element", in, "")
		case "delete", "clear":
			add(ms.resolve(fn, c.Args[0], 0), "map-update", in, "")
		}
		return
	}
	var callees []*ssa.Function
	if sc := c.StaticCallee(); sc != nil {
		callees = []*ssa.Function{sc}
	} else if c.IsInvoke() {
		ta := newTaint(ms.ctx)
		callees = ta.implementations(c)
		if len(callees) == 0 {
			return // interface of another package (io.Writer, …): effects are on its own receiver
		}
	} else {
		return // function value: user callback or table routine; treated by the rules that care
	}
	args := c.Args
	if c.IsInvoke() {
		args = append([]ssa.Value{c.Value}, c.Args...)
	}
	for _, callee := range callees {
		if !load.InModule(callee) || len(callee.Blocks) == 0 {
			name := callee.String()
			if externalReadOnly(name) && !strings.HasPrefix(name, "(*strings.Builder).") && !strings.HasPrefix(name, "(*bytes.Buffer).") && !strings.HasPrefix(name, "encoding/binary.Read") {
				continue
			}
			// writes through its pointer / slice arguments
			for _, a := range args {
				switch a.Type().Underlying().(type) {
				case *types.Pointer, *types.Slice, *types.Map:
					add(ms.resolve(fn, a, 0), "external:"+name, in, "")
				}
			}
			continue
		}
		for _, e := range ms.Of(callee) {
			switch {
			case e.Tgt.Root >= 0:
				if e.Tgt.Root >= len(args) {
					continue
				}
				for _, t := range ms.resolve(fn, args[e.Tgt.Root], 0) {
					if t.Root == rootLocal || t.Root == rootFresh {
						continue
					}
					if t.Field == nil {
						t.Field = e.Tgt.Field
					}
					// what the callee reaches through a reference stays behind that reference
					if e.Tgt.Deref {
						t.Deref = true
					}
					add([]target{t}, e.What, in, fnShort(callee)+">"+e.Via)
				}
			case e.Tgt.Root == rootGlobal || e.Tgt.Root == rootUnknown:
				add([]target{e.Tgt}, e.What, in, fnShort(callee)+">"+e.Via)
			}
		}
	}
}

// FieldsOfParam summarises which fields of named type T fn may modify through its
// parameter pi.
func (ms *modSets) FieldsOfParam(fn *ssa.Function, pi int, T *types.Named) (fields map[int][]effect, other []effect) {
	fields = map[int][]effect{}
	for _, e := range ms.Of(fn) {
		switch {
		case e.Tgt.Root == pi && e.Tgt.Field != nil && e.Tgt.Field.T == T:
			fields[e.Tgt.Field.F] = append(fields[e.Tgt.Field.F], e)
		case e.Tgt.Root == pi && e.Tgt.Field == nil:
			other = append(other, e)
		case e.Tgt.Root == rootGlobal || e.Tgt.Root == rootUnknown:
			other = append(other, e)
		case e.Tgt.Root == pi:
			other = append(other, e)
		}
	}
	return
}

func effectList(ctx *Ctx, es []effect) string {
	var out []string
	for _, e := range es {
		s := fmt.Sprintf("%s at %s", e.What, ctx.Prog.Pos(e.Instr.Pos()))
		if e.Via != "" {
			s += " via " + strings.TrimSuffix(e.Via, ">")
		}
		out = append(out, s)
	}
	sort.Strings(out)
	if len(out) > 4 {
		out = append(out[:4], fmt.Sprintf("… %d more", len(out)-4))
	}
	return strings.Join(out, "; ")
}
