package rules

import (
	"fmt"
	"go/token"
	"go/types"
	"strings"

	"golang.org/x/tools/go/ssa"

	"verif/tool/absint"
)

func init() { register("C06", "other", C06) }

func hasGuard(gl []absint.GuardInfo, xKey, op string, y int64, outcome bool) bool {
	for _, g := range gl {
		if g.Cmp == nil || g.Outcome != outcome || g.Cmp.Op != op {
			continue
		}
		x, _ := g.Cmp.X.(*absint.Int)
		yy, _ := g.Cmp.Y.(*absint.Int)
		if x == nil || yy == nil {
			continue
		}
		c, ok := yy.IsConst()
		if ok && x.Lin.Key() == xKey && c == uint64(y)&(^uint64(0)>>(64-uint(yy.W))) {
			return true
		}
	}
	return false
}

func C06(ctx *Ctx) {
	R := ctx.R
	R.Explanation = "offsets: the label helpers are interpreted (Emitter cells) to obtain the operand address they record relative to the instruction start; Finalize is interpreted for an arbitrary iteration of its loops (loop-carried values and cells written in loops unknown) to obtain, as terms over the reference r, the label address L and base: the patch index, the patched value and the guards in force. The identities checked: recorded r = start+1 (first operand byte) for both helper kinds; relative patch = int8(L - (r+1)) with r+1 = start+2 = end of the 2-byte branch, at code[r-base]; absolute patch = little-endian uint16(L & $FFFF) into code[r-base : r-base+2]. range-guard: the relative patch is under the found-edge of the label lookup and under diff<=127 and diff>=-128 on the very diff that is stored; every failing edge returns a freshly made error. confined: the mod-set of Finalize is the target bytes and the two dangling maps. redefine: in Label the map update is under the not-found edge of the lookup of the same name and the found edge panics."
	R.Trusted = []string{"go/packages + go/ssa", "absint (arbitrary-iteration analysis of loops)", "mod-sets", "encoding/binary.LittleEndian.PutUint16 writes b[0],b[1] little-endian", "the program stays inside one bank (property hypothesis)"}
	R.Rule("offsets", "label helpers record start+1; Finalize patches code[r-base] with int8(L-(r+1)) resp. code[r-base:r-base+2] with uint16(L&$FFFF), so displacements count from the end of the branch and jumps get the low 16 bits of the label")
	R.Rule("range-guard", "a relative patch is written only if the label is defined and -128 <= diff <= 127 for the stored diff; each failing case returns a new error; an absolute patch only if the label is defined")
	R.Rule("confined", "Finalize can modify nothing but the target bytes and the two dangling-reference maps")
	R.Rule("redefine", "Label stores the address only when the name is not yet defined; a second definition panics")
	ems, roles := emitAll(ctx)
	if len(roles.Err) > 0 {
		for _, e := range roles.Err {
			R.Fail("offsets", "roles:"+e, "", e)
		}
		return
	}
	S := roles.Struct
	// ---- emit side: what the label helpers record
	type rec struct {
		field int
		delta uint64 // recorded reference minus instruction start
		K     int
	}
	recs := map[int]rec{} // instruction length K -> record
	nLabel := 0
	for _, e := range ems {
		if !e.IsLabel || e.K == 0 {
			continue
		}
		nLabel++
		pos := ctx.Prog.Pos(e.Fn.Pos())
		msg := ""
		for _, r := range e.Runs {
			if !r.Returned {
				continue
			}
			a0, _ := r.Entry[roles.Address].(*absint.Int)
			var appended *absint.Int
			field := -1
			for _, ev := range r.Events {
				if ev.Kind == "append" && len(ev.Args) >= 2 {
					appended, _ = ev.Args[len(ev.Args)-1].(*absint.Int)
				}
				if ev.Kind == "map-update" && len(ev.Args) == 3 {
					field = fieldOfKey(S, absint.ValKey(ev.Args[0]), "a")
				}
			}
			if a0 == nil || appended == nil || field < 0 {
				msg = fmt.Sprintf("cell %s: no reference recorded", r.Cell)
				continue
			}
			d := linDiff(r.IP, appended, a0)
			if d < 0 {
				msg = fmt.Sprintf("cell %s: recorded reference %s is not start + constant", r.Cell, appended)
				continue
			}
			if old, ok := recs[e.K]; ok && (old.delta != uint64(d) || old.field != field) {
				msg = fmt.Sprintf("helpers of %d-byte label instructions disagree on the reference they record", e.K)
			}
			recs[e.K] = rec{field, uint64(d), e.K}
		}
		if msg != "" {
			R.Fail("offsets", "emit:"+e.Fn.Name(), pos, msg)
		}
	}
	R.Count("label-methods", nLabel)
	R.Floor("label-methods", 2)
	// ---- Finalize, arbitrary iteration
	fin := ctx.Prog.Method("asm", "Emitter", "Finalize")
	if fin == nil {
		R.Fail("offsets", "Finalize", "", "(*Emitter).Finalize not found")
		return
	}
	fpos := ctx.Prog.Pos(fin.Pos())
	ip := absint.New()
	ip.TraceDyn, ip.TraceReturns = true, true
	var recv *absint.Ptr
	_, out := ip.CallFix(fin, func() ([]absint.Val, *absint.State) {
		recv = &absint.Ptr{Nil: absint.TriF, Obj: ip.SymObj("a", roles.Named), T: roles.Named}
		return []absint.Val{recv}, &absint.State{Heap: absint.NewHeap(nil)}
	})
	var imp []string
	for _, m := range ip.Imprec {
		if !strings.Contains(m, "unmodelled external") {
			imp = append(imp, m)
		}
	}
	if out == nil || len(imp) > 0 {
		R.Fail("offsets", "Finalize:analysable", fpos, fmt.Sprintf("not interpretable: %v", imp))
		return
	}
	o := ip.Ops
	base, _ := ip.Load(&absint.State{Heap: absint.NewHeap(nil)}, fieldPtr(recv, S.Field(roles.Base).Type(), roles.Base), S.Field(roles.Base).Type()).(*absint.Int)
	// collect patches
	type patch struct {
		idx    *absint.Int
		val    *absint.Int
		guards []absint.GuardInfo
		width  int
		pos    string
	}
	var patches []patch
	for _, ev := range ip.Events {
		switch {
		case ev.Kind == "dyn-store" && strings.Contains(absint.ValKey(ev.Args[1]), "a.code"):
			v, _ := ev.Args[2].(*absint.Int)
			patches = append(patches, patch{ev.Args[0].(*absint.Int), v, ev.GuardL, 1, ctx.Prog.Pos(ev.Pos)})
		case ev.Kind == "ext-call" && strings.HasSuffix(ev.Callee, "PutUint16") && len(ev.Args) == 3:
			sl, _ := ev.Args[1].(*absint.Slice)
			v, _ := ev.Args[2].(*absint.Int)
			if sl != nil && strings.Contains(absint.ValKey(&sl.Base), "a.code") {
				// [x, x+2) in uint32 arithmetic: the end must be the start's term plus two
				end := ip.Ops.Add(sl.Off, sl.Len).Lin.Key()
				okWin := false
				for _, d := range absint.LinDeps(sl.Off.Lin) {
					_ = d
				}
				if l, ok := sl.Len.IsConst(); ok && l == 2 {
					okWin = true
				} else if strings.HasPrefix(sl.Off.Lin.Key(), "0+zext32(") {
					inner := strings.TrimSuffix(strings.TrimPrefix(sl.Off.Lin.Key(), "0+zext32("), ")")
					if strings.HasPrefix(inner, "0+") && end == "0+zext32(2+"+inner[2:]+")" {
						okWin = true
					}
				}
				if okWin {
					patches = append(patches, patch{sl.Off, v, ip.GuardListOf(ev), 2, ctx.Prog.Pos(ev.Pos)})
				} else {
					R.Fail("offsets", "Finalize:u16-window", ctx.Prog.Pos(ev.Pos), "the 16-bit patch does not cover exactly two bytes: "+absint.ValKey(sl))
				}
			}
		}
	}
	if len(patches) != 2 {
		R.Fail("offsets", "Finalize:patches", fpos, fmt.Sprintf("%d patch sites found, want one 8-bit and one 16-bit", len(patches)))
	}
	for _, p := range patches {
		key := fmt.Sprintf("Finalize:patch%d", 8*p.width)
		// the reference r: the single loop-element atom the index depends on
		var rAtom, lAtom *absint.Atom
		for _, d := range absint.LinDeps(p.idx.Lin) {
			if strings.HasPrefix(d.Key, "mem") && strings.Contains(d.Key, "next#") {
				rAtom = d
			}
		}
		if p.val != nil {
			for _, d := range absint.LinDeps(p.val.Lin) {
				if strings.HasPrefix(d.Key, "lookup#") || strings.Contains(d.Key, "lookup#") {
					lAtom = d
				}
			}
		}
		if rAtom == nil || lAtom == nil || base == nil {
			R.Fail("offsets", key, p.pos, fmt.Sprintf("cannot identify the reference / label in index %s value %s", p.idx, fmtVal(p.val)))
			continue
		}
		r := absint.NewSym(32, rAtom, false)
		L := absint.NewSym(32, lAtom, false)
		wantIdx := o.Convert(o.Sub(r, base), 64, false, true).Lin.Key()
		if p.idx.Lin.Key() != wantIdx {
			R.Fail("offsets", key+":index", p.pos, fmt.Sprintf("patches code[%s], want code[r-base] = %s", p.idx.Lin.Key(), wantIdx))
			continue
		}
		if p.width == 1 {
			diff := o.Sub(o.Convert(L, 64, false, true), o.Convert(o.Add(r, absint.NewConst(32, 1, false)), 64, false, true))
			wantVal := o.Convert(o.Convert(diff, 8, true, true), 8, true, false).Lin.Key()
			rc, okRec := recs[2]
			switch {
			case p.val.Lin.Key() != wantVal:
				R.Fail("offsets", key+":value", p.pos, fmt.Sprintf("stores %s, want int8(L - (r+1)) = %s", p.val.Lin.Key(), wantVal))
			case !okRec || rc.delta != 1:
				R.Fail("offsets", key+":reference", p.pos, fmt.Sprintf("the 2-byte label helper records start+%d; with Finalize using r+1 the displacement would not count from the end of the branch (start+2)", rc.delta))
			default:
				R.Pass("offsets", key, p.pos, "code[r-base] = int8(L-(r+1)), r = start+1: displacement from the end of the branch")
			}
			// range guards on the very diff
			dk := diff.Lin.Key()
			okG := hasGuard(p.guards, dk, ">", 127, false) && hasGuard(p.guards, dk, "<", -128, false)
			okL := false
			for _, g := range p.guards {
				if strings.HasPrefix(g.Key, "lookup#") && strings.HasSuffix(g.Key, ".ok") && g.Outcome {
					okL = true
				}
			}
			if okG && okL {
				R.Pass("range-guard", "Finalize:relative", p.pos, "under label found, diff <= 127, diff >= -128")
			} else {
				var gs []string
				for _, g := range p.guards {
					gs = append(gs, fmt.Sprintf("%s=%v", g.Key, g.Outcome))
				}
				R.Fail("range-guard", "Finalize:relative", p.pos, fmt.Sprintf("the relative patch is not under (label found, diff<=127, diff>=-128) of the stored diff; guards in force: %v", gs))
			}
		} else {
			wantVal := o.Convert(o.And(L, absint.NewConst(32, 0xFFFF, false)), 16, false, false).Lin.Key()
			rc, okRec := recs[3]
			switch {
			case p.val == nil || p.val.Lin.Key() != wantVal:
				R.Fail("offsets", key+":value", p.pos, fmt.Sprintf("stores %s, want uint16(L & $FFFF) = %s", fmtVal(p.val), wantVal))
			case !okRec || rc.delta != 1:
				R.Fail("offsets", key+":reference", p.pos, fmt.Sprintf("the 3-byte label helper records start+%d, the operand starts at start+1", rc.delta))
			default:
				R.Pass("offsets", key, p.pos, "code[r-base : r-base+2] = uint16(L&$FFFF) little-endian, r = start+1")
			}
			okL := false
			for _, g := range p.guards {
				if strings.HasPrefix(g.Key, "lookup#") && strings.HasSuffix(g.Key, ".ok") && g.Outcome {
					okL = true
				}
			}
			if okL {
				R.Pass("range-guard", "Finalize:absolute", p.pos, "under label found")
			} else {
				R.Fail("range-guard", "Finalize:absolute", p.pos, "the absolute patch is not under the found-edge of the label lookup")
			}
		}
	}
	// every return other than the final success returns a freshly made error; the
	// nil return is not reachable on a failing edge
	okRet := true
	nErr, nNil := 0, 0
	for _, ev := range ip.Events {
		if ev.Kind != "return" {
			continue
		}
		k := absint.ValKey(ev.Args[0])
		fresh := strings.Contains(k, "ext:fmt.Errorf") || strings.Contains(k, "ext:errors.New")
		failing := false
		for _, g := range ev.GuardL {
			if strings.HasSuffix(g.Key, ".ok") && strings.HasPrefix(g.Key, "lookup#") && !g.Outcome {
				failing = true
			}
		}
		switch {
		case fresh:
			nErr++
		case k == "top:nil":
			nNil++
			if failing {
				okRet = false
				R.Fail("range-guard", "Finalize:nil-on-failure", ctx.Prog.Pos(ev.Pos), "success is returned although a label lookup failed")
			}
		default:
			okRet = false
			R.Fail("range-guard", "Finalize:error-return", ctx.Prog.Pos(ev.Pos), "a return yields "+k+", neither nil nor a new error")
		}
	}
	if nErr < 3 || nNil != 1 {
		okRet = false
		R.Fail("range-guard", "Finalize:error-returns", fpos, fmt.Sprintf("%d error returns and %d success returns; want an error for each of: unresolved relative label, out of range, unresolved absolute label, and one success return", nErr, nNil))
	}
	if okRet {
		R.Pass("range-guard", "Finalize:error-returns", fpos, fmt.Sprintf("%d failing cases each return a new error; one success return", nErr))
	}
	// ---- confined
	ms := newModSets(ctx)
	fields, other := ms.FieldsOfParam(fin, 0, roles.Named)
	allowed := map[int]bool{roles.Code: true}
	for _, d := range roles.Dangling {
		allowed[d] = true
	}
	okConf := true
	for f, es := range fields {
		if !allowed[f] {
			okConf = false
			R.Fail("confined", "Finalize:modifies-"+roles.fieldName(f), fpos, effectList(ctx, es))
		}
		if f == roles.Code {
			for _, e := range es {
				if e.What == "store" && !e.Tgt.Deref { // the slice header itself
					okConf = false
					R.Fail("confined", "Finalize:replaces-code", ctx.Prog.Pos(e.Instr.Pos()), "Finalize assigns the target slice instead of patching bytes")
				}
			}
		}
	}
	if len(other) > 0 {
		okConf = false
		R.Fail("confined", "Finalize:other-effects", fpos, effectList(ctx, other))
	}
	if okConf {
		R.Pass("confined", "Finalize", fpos, "mod-set = {target bytes, danglingS8, danglingU16}")
	}
	// ---- redefine
	checkLabelRedefine(ctx, roles)
}

// linDiff returns a - b if it is a small non-negative constant, else -1.
func linDiff(ip *absint.Interp, a, b *absint.Int) int64 {
	d := ip.Ops.Sub(a, b)
	if c, ok := d.IsConst(); ok && c < 64 {
		return int64(c)
	}
	return -1
}

func checkLabelRedefine(ctx *Ctx, roles *EmitterRoles) {
	R := ctx.R
	fn := ctx.Prog.Method("asm", "Emitter", "Label")
	if fn == nil || len(fn.Params) != 2 {
		R.Fail("redefine", "Label", "", "(*Emitter).Label(name) not found")
		return
	}
	pos := ctx.Prog.Pos(fn.Pos())
	name := fn.Params[1]
	var lookup *ssa.Lookup
	var updates []*ssa.MapUpdate
	for _, b := range fn.Blocks {
		for _, in := range b.Instrs {
			switch x := in.(type) {
			case *ssa.Lookup:
				if isFieldLoad(x.X, roles.Named, roles.Labels) && x.Index == name && x.CommaOk {
					lookup = x
				}
			case *ssa.MapUpdate:
				if isFieldLoad(x.Map, roles.Named, roles.Labels) {
					updates = append(updates, x)
				}
			}
		}
	}
	if lookup == nil || len(updates) != 1 || updates[0].Key != name {
		R.Fail("redefine", "Label:shape", pos, "Label does not look its name up in labels and store it exactly once")
		return
	}
	var okV ssa.Value
	for _, ref := range *lookup.Referrers() {
		if ex, ok := ref.(*ssa.Extract); ok && ex.Index == 1 {
			okV = ex
		}
	}
	var iff *ssa.If
	if okV != nil {
		for _, ref := range *okV.Referrers() {
			if i, ok := ref.(*ssa.If); ok {
				iff = i
			}
		}
	}
	if iff == nil {
		R.Fail("redefine", "Label:guard", pos, "the result of the lookup does not decide anything")
		return
	}
	if !edgeDominates(iff.Block(), 1, updates[0].Block()) {
		R.Fail("redefine", "Label:store-guard", pos, "the definition is stored without being confined to the not-yet-defined edge")
		return
	}
	// the found edge must end in a panic without storing
	found := iff.Block().Succs[0]
	panics := false
	for _, in := range found.Instrs {
		if _, ok := in.(*ssa.Panic); ok {
			panics = true
		}
	}
	if !panics {
		R.Fail("redefine", "Label:found-edge", pos, "a second definition of a label is not rejected")
		return
	}
	// the stored value is the current address
	if !isFieldLoad(updates[0].Value, roles.Named, roles.Address) {
		R.Fail("redefine", "Label:value", pos, "the label is not defined as the current address")
		return
	}
	R.Pass("redefine", "Label", pos, "stores labels[name] = address only when undefined; redefinition panics")
	_ = token.ADD
	_ = types.Typ
}
