package rules

import (
	"fmt"
	"go/token"
	"go/types"
	"regexp"
	"strings"

	"golang.org/x/tools/go/ssa"

	"verif/tool/absint"
)

func init() { register("C06", "other", C06) }

func hasGuard(gl []absint.GuardInfo, xKey, op string, y int64, outcome bool) bool {
	for _, g := range gl {
		if g.Cmp == nil || g.Outcome != outcome || g.Cmp.Op != op {
			continue
		}
		x, _ := g.Cmp.X.(*absint.Int)
		yy, _ := g.Cmp.Y.(*absint.Int)
		if x == nil || yy == nil {
			continue
		}
		c, ok := yy.IsConst()
		if ok && x.Lin.Key() == xKey && c == uint64(y)&(^uint64(0)>>(64-uint(yy.W))) {
			return true
		}
	}
	return false
}

// boundGuards: which of "t <= hi" and "t >= lo" are implied by the branch outcomes in
// force, and whether one of them is contradicted ("t > hi" or "t < lo" holds). A guard
// is brought into the form L <= R or L < R and R-L compared, as a linear form, with
// hi-t, hi+1-t, t-lo, t-lo+1 (and their negations), so the way the test is written
// (diff > 127 failing, -128 <= diff passing, operands swapped) does not matter.
func boundGuards(o absint.Ops, gl []absint.GuardInfo, t *absint.Int, lo, hi int64) (upper, lower, violated bool) {
	k := func(v int64) *absint.Int { return absint.NewConst(t.W, uint64(v), true) }
	up0 := o.Sub(k(hi), t).Lin.Key()   // hi - t >= 0
	up1 := o.Sub(k(hi+1), t).Lin.Key() // hi+1 - t > 0
	lo0 := o.Sub(t, k(lo)).Lin.Key()   // t - lo >= 0
	lo1 := o.Sub(t, k(lo-1)).Lin.Key() // t - (lo-1) > 0
	vu0 := o.Sub(t, k(hi+1)).Lin.Key() // t - (hi+1) >= 0
	vu1 := o.Sub(t, k(hi)).Lin.Key()   // t - hi > 0
	vl0 := o.Sub(k(lo-1), t).Lin.Key() // lo-1 - t >= 0
	vl1 := o.Sub(k(lo), t).Lin.Key()   // lo - t > 0
	for _, g := range gl {
		if g.Cmp == nil {
			continue
		}
		x, _ := g.Cmp.X.(*absint.Int)
		y, _ := g.Cmp.Y.(*absint.Int)
		if x == nil || y == nil || x.W != t.W || y.W != t.W {
			continue
		}
		op := g.Cmp.Op
		if !g.Outcome {
			op = map[string]string{">": "<=", ">=": "<", "<": ">=", "<=": ">", "==": "!=", "!=": "=="}[op]
		}
		var l, r *absint.Int
		strict := false
		switch op {
		case "<=":
			l, r = x, y
		case "<":
			l, r, strict = x, y, true
		case ">=":
			l, r = y, x
		case ">":
			l, r, strict = y, x, true
		default:
			continue
		}
		d := o.Sub(r, l).Lin.Key()
		switch {
		case !strict && d == up0, strict && d == up1:
			upper = true
		case !strict && d == lo0, strict && d == lo1:
			lower = true
		case !strict && (d == vu0 || d == vl0), strict && (d == vu1 || d == vl1):
			violated = true
		}
	}
	return
}

// lookupGuard reports whether the guards contain a map-lookup "found" test with the
// given outcome.
func lookupGuard(gl []absint.GuardInfo, found bool) bool {
	for _, g := range gl {
		if strings.HasPrefix(g.Key, "lookup#") && strings.HasSuffix(g.Key, ".ok") && g.Outcome == found {
			return true
		}
	}
	return false
}

// errNilness decides whether an error value is nil on the path described by the guards.
func errNilness(v absint.Val, gl []absint.GuardInfo) absint.Tri {
	t, ok := v.(*absint.Top)
	if !ok {
		return absint.TriTop
	}
	switch {
	case t.Key == "nil":
		return absint.TriT
	case t.NonNil:
		return absint.TriF
	case t.NilIf != nil:
		key, neg := absint.GateOf(t.NilIf)
		for _, g := range gl {
			if g.Key == key {
				if g.Outcome != neg {
					return absint.TriT
				}
				return absint.TriF
			}
		}
	}
	return absint.TriTop
}

func C06(ctx *Ctx) {
	R := ctx.R
	R.Explanation = "offsets: the label helpers are interpreted (Emitter cells) to obtain the operand address they record relative to the instruction start; Finalize is interpreted for an arbitrary iteration of its loops (loop-carried values and cells written in loops unknown) to obtain, as terms over the reference r, the label address L and base: the patch index, the patched value and the guards in force. The identities checked: recorded r = start+1 (first operand byte) for both helper kinds; relative patch = int8(L - (r+1)) with r+1 = start+2 = end of the 2-byte branch, at code[r-base]; absolute patch = little-endian uint16(L & $FFFF) into code[r-base : r-base+2]. range-guard: the relative patch is under the found-edge of the label lookup and under diff<=127 and diff>=-128 on the very diff that is stored; every failing edge returns a freshly made error. confined: the mod-set of Finalize is the target bytes and the two dangling maps. redefine: in Label the map update is under the not-found edge of the lookup of the same name and the found edge panics."
	R.Trusted = []string{"go/packages + go/ssa", "absint (arbitrary-iteration analysis of loops)", "mod-sets", "encoding/binary.LittleEndian.PutUint16 writes b[0],b[1] little-endian", "the program stays inside one bank (property hypothesis)"}
	R.Rule("offsets", "label helpers record start+1; Finalize patches code[r-base] with int8(L-(r+1)) resp. code[r-base:r-base+2] with uint16(L&$FFFF), so displacements count from the end of the branch and jumps get the low 16 bits of the label")
	R.Rule("range-guard", "a relative patch is written only if the label is defined and -128 <= diff <= 127 for the stored diff; each failing case returns a new error; an absolute patch only if the label is defined")
	R.Rule("confined", "Finalize can modify nothing but the target bytes and the two dangling-reference maps")
	R.Rule("redefine", "Label stores the address only when the name is not yet defined; a second definition panics")
	ems, roles := emitAll(ctx)
	if len(roles.Err) > 0 {
		for _, e := range roles.Err {
			R.Fail("offsets", "roles:"+e, "", e)
		}
		return
	}
	S := roles.Struct
	// ---- emit side: what the label helpers record
	type rec struct {
		field int
		delta uint64 // recorded reference minus instruction start
		K     int
	}
	recs := map[int]rec{} // instruction length K -> record
	nLabel := 0
	for _, e := range ems {
		if !e.IsLabel || e.K == 0 {
			continue
		}
		nLabel++
		pos := ctx.Prog.Pos(e.Fn.Pos())
		msg := ""
		for _, r := range e.Runs {
			if !r.Returned {
				continue
			}
			a0, _ := r.Entry[roles.Address].(*absint.Int)
			var appended *absint.Int
			field := -1
			condRec := ""
			for _, ev := range r.Events {
				if ev.Kind == "append" && len(ev.Args) >= 2 {
					appended, _ = ev.Args[len(ev.Args)-1].(*absint.Int)
				}
				if ev.Kind == "map-update" && len(ev.Args) == 3 {
					field = fieldOfKey(S, absint.ValKey(ev.Args[0]), "a")
					// every label reference goes through Finalize: recording must not depend on whether the
					// label is already known (a reference resolved on the spot escapes the range test)
					for _, g := range ev.PathL {
						if strings.Contains(g.Key, "lookup#") {
							condRec = fmt.Sprintf("cell %s: the reference is recorded only when %s is %v", r.Cell, g.Key, g.Outcome)
						}
					}
				}
			}
			if a0 == nil || appended == nil || field < 0 {
				msg = fmt.Sprintf("cell %s: no reference recorded", r.Cell)
				continue
			}
			if condRec != "" {
				msg = condRec
				continue
			}
			d := linDiff(r.IP, appended, a0)
			if d < 0 {
				msg = fmt.Sprintf("cell %s: recorded reference %s is not start + constant", r.Cell, appended)
				continue
			}
			if old, ok := recs[e.K]; ok && (old.delta != uint64(d) || old.field != field) {
				msg = fmt.Sprintf("helpers of %d-byte label instructions disagree on the reference they record", e.K)
			}
			recs[e.K] = rec{field, uint64(d), e.K}
		}
		if msg != "" {
			R.Fail("offsets", "emit:"+e.Fn.Name(), pos, msg)
		}
	}
	R.Count("label-methods", nLabel)
	R.Floor("label-methods", 2)
	// ---- Finalize, arbitrary iteration
	fin := ctx.Prog.Method("asm", "Emitter", "Finalize")
	if fin == nil {
		R.Fail("offsets", "Finalize", "", "(*Emitter).Finalize not found")
		return
	}
	fpos := ctx.Prog.Pos(fin.Pos())
	ip := absint.New()
	ip.TraceDyn, ip.TraceReturns = true, true
	var recv *absint.Ptr
	_, out := ip.CallFix(fin, func() ([]absint.Val, *absint.State) {
		recv = &absint.Ptr{Nil: absint.TriF, Obj: ip.SymObj("a", roles.Named), T: roles.Named}
		return []absint.Val{recv}, &absint.State{Heap: absint.NewHeap(nil)}
	})
	var imp []string
	for _, m := range ip.Imprec {
		if !strings.Contains(m, "unmodelled external") {
			imp = append(imp, m)
		}
	}
	if out == nil || len(imp) > 0 {
		R.Fail("offsets", "Finalize:analysable", fpos, fmt.Sprintf("not interpretable: %v", imp))
		return
	}
	o := ip.Ops
	base, _ := ip.Load(&absint.State{Heap: absint.NewHeap(nil)}, fieldPtr(recv, S.Field(roles.Base).Type(), roles.Base), S.Field(roles.Base).Type()).(*absint.Int)
	// collect patches
	type patch struct {
		idx    *absint.Int
		val    *absint.Int
		guards []absint.GuardInfo
		width  int
		pos    string
		lo, hi *absint.Int // a 16-bit patch written as two byte stores
	}
	var patches []patch
	for _, ev := range ip.Events {
		switch {
		case ev.Kind == "dyn-store" && strings.Contains(absint.ValKey(ev.Args[1]), "a.code"):
			v, _ := ev.Args[2].(*absint.Int)
			patches = append(patches, patch{idx: ev.Args[0].(*absint.Int), val: v, guards: ev.PathL, width: 1, pos: ctx.Prog.Pos(ev.Pos)})
		case ev.Kind == "ext-call" && strings.HasSuffix(ev.Callee, "PutUint16") && len(ev.Args) == 3:
			sl, _ := ev.Args[1].(*absint.Slice)
			v, _ := ev.Args[2].(*absint.Int)
			if sl != nil && strings.Contains(absint.ValKey(&sl.Base), "a.code") {
				// [x, x+2) in uint32 arithmetic: the end must be the start's term plus two
				end := ip.Ops.Add(sl.Off, sl.Len).Lin.Key()
				okWin := false
				for _, d := range absint.LinDeps(sl.Off.Lin) {
					_ = d
				}
				if l, ok := sl.Len.IsConst(); ok && l == 2 {
					okWin = true
				} else if strings.HasPrefix(sl.Off.Lin.Key(), "0+zext32(") {
					inner := strings.TrimSuffix(strings.TrimPrefix(sl.Off.Lin.Key(), "0+zext32("), ")")
					if strings.HasPrefix(inner, "0+") && end == "0+zext32(2+"+inner[2:]+")" {
						okWin = true
					}
				}
				if okWin {
					patches = append(patches, patch{idx: sl.Off, val: v, guards: ev.PathL, width: 2, pos: ctx.Prog.Pos(ev.Pos)})
				} else {
					R.Fail("offsets", "Finalize:u16-window", ctx.Prog.Pos(ev.Pos), "the 16-bit patch does not cover exactly two bytes: "+absint.ValKey(sl))
				}
			}
		}
	}
	// references are forgotten only as the entry being patched: a delete on a map whose key is not the
	// current key of a range over that same map drops recorded references that were never patched
	nDel := 0
	for _, ev := range ip.Events {
		if ev.Kind != "map-update" || ev.Callee != "delete" || len(ev.Args) < 2 {
			continue
		}
		mk, kk := absint.ValKey(ev.Args[0]), absint.ValKey(ev.Args[1])
		nDel++
		re := regexp.MustCompile(`next#\d+<(?:top:)?range#\d+\(` + regexp.QuoteMeta(mk) + `\)>\.1`)
		if !re.MatchString(kk) {
			f := fieldOfKey(S, mk, "a")
			name := mk
			if f >= 0 {
				name = roles.fieldName(f)
			}
			R.Fail("offsets", "Finalize:forgets:"+name, ctx.Prog.Pos(ev.Pos), fmt.Sprintf("references recorded in %s are deleted under key %s, which is not the entry of %s being patched: they stay unpatched", name, kk, name))
		}
	}
	// two byte stores at x and x+1 under the same guards are one 16-bit patch
	for i := 0; i < len(patches); i++ {
		for j := 0; j < len(patches); j++ {
			p, q := patches[i], patches[j]
			if i == j || p.width != 1 || q.width != 1 || p.val == nil || q.val == nil {
				continue
			}
			if o.Add(p.idx, absint.NewConst(p.idx.W, 1, p.idx.Signed)).Lin.Key() != q.idx.Lin.Key() || len(p.guards) != len(q.guards) {
				continue
			}
			merged := patch{idx: p.idx, guards: p.guards, width: 2, pos: p.pos, lo: p.val, hi: q.val}
			var rest []patch
			for k, x := range patches {
				if k != i && k != j {
					rest = append(rest, x)
				}
			}
			patches = append(rest, merged)
			i = -1
			break
		}
	}
	if len(patches) != 2 {
		R.Fail("offsets", "Finalize:patches", fpos, fmt.Sprintf("%d patch sites found, want one 8-bit and one 16-bit", len(patches)))
	}
	var relDiff *absint.Int
	for _, p := range patches {
		key := fmt.Sprintf("Finalize:patch%d", 8*p.width)
		// the reference r: the single loop-element atom the index depends on
		var rAtom, lAtom *absint.Atom
		for _, d := range absint.LinDeps(p.idx.Lin) {
			if strings.HasPrefix(d.Key, "mem") && strings.Contains(d.Key, "next#") {
				rAtom = d
			}
		}
		for _, pv := range []*absint.Int{p.val, p.lo, p.hi} {
			if pv == nil {
				continue
			}
			for _, d := range absint.LinDeps(pv.Lin) {
				if strings.HasPrefix(d.Key, "lookup#") || strings.Contains(d.Key, "lookup#") {
					lAtom = d
				}
			}
		}
		if rAtom == nil || lAtom == nil || base == nil {
			R.Fail("offsets", key, p.pos, fmt.Sprintf("cannot identify the reference / label in index %s value %s", p.idx, fmtVal(p.val)))
			continue
		}
		r := absint.NewSym(32, rAtom, false)
		L := absint.NewSym(32, lAtom, false)
		wantIdx := o.Convert(o.Sub(r, base), 64, false, true).Lin.Key()
		if p.idx.Lin.Key() != wantIdx {
			R.Fail("offsets", key+":index", p.pos, fmt.Sprintf("patches code[%s], want code[r-base] = %s", p.idx.Lin.Key(), wantIdx))
			continue
		}
		if p.width == 1 {
			diff := o.Sub(o.Convert(L, 64, false, true), o.Convert(o.Add(r, absint.NewConst(32, 1, false)), 64, false, true))
			wantVal := o.Convert(o.Convert(diff, 8, true, true), 8, true, false).Lin.Key()
			rc, okRec := recs[2]
			switch {
			case p.val.Lin.Key() != wantVal:
				R.Fail("offsets", key+":value", p.pos, fmt.Sprintf("stores %s, want int8(L - (r+1)) = %s", p.val.Lin.Key(), wantVal))
			case !okRec || rc.delta != 1:
				R.Fail("offsets", key+":reference", p.pos, fmt.Sprintf("the 2-byte label helper records start+%d; with Finalize using r+1 the displacement would not count from the end of the branch (start+2)", rc.delta))
			default:
				R.Pass("offsets", key, p.pos, "code[r-base] = int8(L-(r+1)), r = start+1: displacement from the end of the branch")
			}
			// range guards on the very diff
			relDiff = diff
			up, low, _ := boundGuards(o, p.guards, diff, -128, 127)
			okG := up && low
			okL := lookupGuard(p.guards, true)
			if okG && okL {
				R.Pass("range-guard", "Finalize:relative", p.pos, "under label found, diff <= 127, diff >= -128")
			} else {
				var gs []string
				for _, g := range p.guards {
					gs = append(gs, fmt.Sprintf("%s=%v", g.Key, g.Outcome))
				}
				R.Fail("range-guard", "Finalize:relative", p.pos, fmt.Sprintf("the relative patch is not under (label found, diff<=127, diff>=-128) of the stored diff; guards in force: %v", gs))
			}
		} else {
			want16 := o.Convert(o.And(L, absint.NewConst(32, 0xFFFF, false)), 16, false, false)
			wantVal := want16.Lin.Key()
			rc, okRec := recs[3]
			if p.val == nil && p.lo != nil && p.hi != nil {
				// low byte first, high byte second
				wl := o.Convert(want16, 8, false, false).Lin.Key()
				wh := o.Convert(o.Shr(want16, absint.NewConst(16, 8, false), false), 8, false, false).Lin.Key()
				if p.lo.Lin.Key() == wl && p.hi.Lin.Key() == wh {
					p.val = want16
				}
			}
			switch {
			case p.val == nil || p.val.Lin.Key() != wantVal:
				R.Fail("offsets", key+":value", p.pos, fmt.Sprintf("stores %s, want uint16(L & $FFFF) = %s", fmtVal(p.val), wantVal))
			case !okRec || rc.delta != 1:
				R.Fail("offsets", key+":reference", p.pos, fmt.Sprintf("the 3-byte label helper records start+%d, the operand starts at start+1", rc.delta))
			default:
				R.Pass("offsets", key, p.pos, "code[r-base : r-base+2] = uint16(L&$FFFF) little-endian, r = start+1")
			}
			okL := lookupGuard(p.guards, true)
			if okL {
				R.Pass("range-guard", "Finalize:absolute", p.pos, "under label found")
			} else {
				R.Fail("range-guard", "Finalize:absolute", p.pos, "the absolute patch is not under the found-edge of the label lookup")
			}
		}
	}
	// returns of Finalize and of the error-returning functions it calls: a path on which
	// a label lookup failed or the displacement is out of range ends in a non-nil error,
	// each kind of failure has such a return, and Finalize has a success return
	okRet := true
	nLookupErr, nRangeErr, nNil := 0, 0, 0
	forwarded, nilIn := map[string]bool{}, map[string]bool{} // helpers whose result Finalize returns / that have a nil return
	for _, ev := range ip.Events {
		if ev.Kind != "return" || ev.Fn == nil || len(ev.Args) == 0 {
			continue
		}
		res := ev.Fn.Signature.Results()
		if res.Len() == 0 || res.At(res.Len()-1).Type().String() != "error" {
			continue
		}
		v := ev.Args[0]
		if tp, ok := v.(*absint.Tuple); ok && len(tp.E) > 0 {
			v = tp.E[len(tp.E)-1]
		}
		pos := ctx.Prog.Pos(ev.Pos)
		// a value that is nil exactly under a named condition is looked at on both sides
		cases := [][]absint.GuardInfo{ev.PathL}
		if t, isTop := v.(*absint.Top); isTop && t.NilIf != nil && errNilness(v, ev.PathL) == absint.TriTop {
			key, _ := absint.GateOf(t.NilIf)
			cases = nil
			for _, out := range []bool{false, true} {
				gl := append([]absint.GuardInfo(nil), ev.PathL...)
				gl = append(gl, absint.GuardInfo{Key: key, Outcome: out, Cmp: t.NilIf.Cmp})
				cases = append(cases, gl)
			}
		}
		for _, gl := range cases {
			lookupFailed := lookupGuard(gl, false)
			// a return that can be reached without both range tests having passed (the arms
			// of `diff > 127 || diff < -128` meet before the return, so no single outcome is
			// in force there) and not because of a failed lookup
			rangeFailed := false
			if relDiff != nil {
				up, low, viol := boundGuards(o, gl, relDiff, -128, 127)
				rangeFailed = viol || (!lookupFailed && !(up && low) && errNilness(v, gl) == absint.TriF)
			}
			switch errNilness(v, gl) {
			case absint.TriT:
				if ev.Fn == fin {
					nNil++
				} else {
					nilIn[ev.Fn.Name()] = true
				}
				if lookupFailed || rangeFailed {
					okRet = false
					R.Fail("range-guard", "Finalize:nil-on-failure", pos, "success is returned although a label lookup failed or a displacement is out of range")
				}
			case absint.TriF:
				if lookupFailed {
					nLookupErr++
				}
				if rangeFailed {
					nRangeErr++
				}
			default:
				// the result of an error-returning helper handed on unchanged: its own returns are classified
				// where they are made (their guards include the ones in force at the call)
				if t, isTop := v.(*absint.Top); isTop && strings.HasPrefix(t.Key, "ret#") {
					if ev.Fn == fin {
						forwarded[t.Key[strings.Index(t.Key, ":")+1:]] = true
					}
					break
				}
				okRet = false
				R.Fail("range-guard", "Finalize:error-return", pos, "cannot decide whether the returned error "+absint.ValKey(v)+" is nil on this path")
			}
		}
	}
	// no error is dropped on the way: in Finalize and everything it calls inside the package, the error result of
	// every call reaches a return (or a panic) of the calling function, directly, through the named result, through
	// a merge, or wrapped by another error-returning call
	nErrCalls := 0
	for _, f := range reachableInPackage(fin) {
		for _, dropped := range droppedErrors(f, &nErrCalls) {
			okRet = false
			R.Fail("range-guard", "Finalize:error-dropped:"+fnShort(f), ctx.Prog.Pos(dropped.Pos()), "the error returned by this call does not reach a return of "+f.Name()+": a failure it reports would end in success")
		}
	}
	R.Count("error-returning-calls", nErrCalls)
	for h := range forwarded {
		if nilIn[h] {
			nNil++ // Finalize succeeds by handing on the helper's nil
		}
	}
	if nLookupErr < 2 || nRangeErr < 1 || nNil < 1 {
		okRet = false
		R.Fail("range-guard", "Finalize:error-returns", fpos, fmt.Sprintf("%d error returns after a failed lookup, %d after an out-of-range displacement, %d success returns; want an error for an unresolved relative label, an unresolved absolute label and an out-of-range branch, and a success return", nLookupErr, nRangeErr, nNil))
	}
	if okRet {
		R.Pass("range-guard", "Finalize:error-returns", fpos, fmt.Sprintf("failed lookups (%d returns) and out-of-range displacements (%d) end in a non-nil error; nil is returned on no failing path", nLookupErr, nRangeErr))
	}
	// ---- confined
	ms := newModSets(ctx)
	fields, other := ms.FieldsOfParam(fin, 0, roles.Named)
	allowed := map[int]bool{roles.Code: true}
	for _, d := range roles.Dangling {
		allowed[d] = true
	}
	okConf := true
	for f, es := range fields {
		if !allowed[f] {
			okConf = false
			R.Fail("confined", "Finalize:modifies-"+roles.fieldName(f), fpos, effectList(ctx, es))
		}
		if f == roles.Code {
			for _, e := range es {
				if e.What == "store" && !e.Tgt.Deref { // the slice header itself
					okConf = false
					R.Fail("confined", "Finalize:replaces-code", ctx.Prog.Pos(e.Instr.Pos()), "Finalize assigns the target slice instead of patching bytes")
				}
			}
		}
	}
	if len(other) > 0 {
		okConf = false
		R.Fail("confined", "Finalize:other-effects", fpos, effectList(ctx, other))
	}
	if okConf {
		R.Pass("confined", "Finalize", fpos, "mod-set = {target bytes, danglingS8, danglingU16}")
	}
	// ---- redefine
	checkLabelRedefine(ctx, roles)
}

// linDiff returns a - b if it is a small non-negative constant, else -1.
func linDiff(ip *absint.Interp, a, b *absint.Int) int64 {
	d := ip.Ops.Sub(a, b)
	if c, ok := d.IsConst(); ok && c < 64 {
		return int64(c)
	}
	return -1
}

func checkLabelRedefine(ctx *Ctx, roles *EmitterRoles) {
	R := ctx.R
	fn := ctx.Prog.Method("asm", "Emitter", "Label")
	if fn == nil || len(fn.Params) != 2 {
		R.Fail("redefine", "Label", "", "(*Emitter).Label(name) not found")
		return
	}
	pos := ctx.Prog.Pos(fn.Pos())
	name := fn.Params[1]
	var lookup *ssa.Lookup
	var updates []*ssa.MapUpdate
	for _, b := range fn.Blocks {
		for _, in := range b.Instrs {
			switch x := in.(type) {
			case *ssa.Lookup:
				if isFieldLoad(x.X, roles.Named, roles.Labels) && x.Index == name && x.CommaOk {
					lookup = x
				}
			case *ssa.MapUpdate:
				if isFieldLoad(x.Map, roles.Named, roles.Labels) {
					updates = append(updates, x)
				}
			}
		}
	}
	if lookup == nil || len(updates) != 1 || updates[0].Key != name {
		R.Fail("redefine", "Label:shape", pos, "Label does not look its name up in labels and store it exactly once")
		return
	}
	var okV ssa.Value
	for _, ref := range *lookup.Referrers() {
		if ex, ok := ref.(*ssa.Extract); ok && ex.Index == 1 {
			okV = ex
		}
	}
	var iff *ssa.If
	if okV != nil {
		for _, ref := range *okV.Referrers() {
			if i, ok := ref.(*ssa.If); ok {
				iff = i
			}
		}
	}
	if iff == nil {
		R.Fail("redefine", "Label:guard", pos, "the result of the lookup does not decide anything")
		return
	}
	if !edgeDominates(iff.Block(), 1, updates[0].Block()) {
		R.Fail("redefine", "Label:store-guard", pos, "the definition is stored without being confined to the not-yet-defined edge")
		return
	}
	// the found edge must end in a panic without storing
	found := iff.Block().Succs[0]
	panics := false
	for _, in := range found.Instrs {
		if _, ok := in.(*ssa.Panic); ok {
			panics = true
		}
	}
	if !panics {
		R.Fail("redefine", "Label:found-edge", pos, "a second definition of a label is not rejected")
		return
	}
	// the stored value is the current address
	if !isFieldLoad(updates[0].Value, roles.Named, roles.Address) {
		R.Fail("redefine", "Label:value", pos, "the label is not defined as the current address")
		return
	}
	R.Pass("redefine", "Label", pos, "stores labels[name] = address only when undefined; redefinition panics")
	_ = token.ADD
	_ = types.Typ
}

// reachableInPackage lists fn and the functions of its package it can reach through static calls, closures it makes
// and method values it binds.
func reachableInPackage(fn *ssa.Function) []*ssa.Function {
	seen := map[*ssa.Function]bool{fn: true}
	out := []*ssa.Function{fn}
	for i := 0; i < len(out); i++ {
		f := out[i]
		add := func(g *ssa.Function) {
			if g == nil || seen[g] || g.Blocks == nil {
				return
			}
			if g.Pkg != fn.Pkg && !(g.Parent() != nil && g.Parent().Pkg == fn.Pkg) && g.Synthetic == "" {
				return
			}
			seen[g] = true
			out = append(out, g)
		}
		for _, b := range f.Blocks {
			for _, in := range b.Instrs {
				var ops [16]*ssa.Value
				for _, op := range in.Operands(ops[:0]) {
					if op == nil || *op == nil {
						continue
					}
					switch v := (*op).(type) {
					case *ssa.Function:
						add(v)
					case *ssa.MakeClosure:
						if g, ok := v.Fn.(*ssa.Function); ok {
							add(g)
						}
					}
				}
			}
		}
	}
	return out
}

// droppedErrors returns the calls in f whose error result reaches neither a return nor a panic of f.
func droppedErrors(f *ssa.Function, n *int) []*ssa.Call {
	var out []*ssa.Call
	isErr := func(t types.Type) bool { return t.String() == "error" }
	for _, b := range f.Blocks {
		for _, in := range b.Instrs {
			c, ok := in.(*ssa.Call)
			if !ok {
				continue
			}
			res := c.Call.Signature().Results()
			if res.Len() == 0 || !isErr(res.At(res.Len()-1).Type()) {
				continue
			}
			*n++
			flow := map[ssa.Value]bool{}
			var work []ssa.Value
			push := func(v ssa.Value) {
				if !flow[v] {
					flow[v] = true
					work = append(work, v)
				}
			}
			push(c)
			reached := false
			for len(work) > 0 && !reached {
				v := work[len(work)-1]
				work = work[:len(work)-1]
				refs := v.Referrers()
				if refs == nil {
					continue
				}
				for _, r := range *refs {
					switch x := r.(type) {
					case *ssa.Return, *ssa.Panic:
						reached = true
					case *ssa.Extract:
						if tup, ok := x.Tuple.Type().(*types.Tuple); ok && x.Index == tup.Len()-1 {
							push(x)
						}
					case *ssa.Phi:
						push(x)
					case *ssa.MakeInterface:
						push(x)
					case *ssa.ChangeInterface:
						push(x)
					case *ssa.Store:
						if x.Val == v {
							if a, ok := x.Addr.(*ssa.Alloc); ok {
								for _, u := range *a.Referrers() {
									if ld, ok := u.(*ssa.UnOp); ok && ld.Op == token.MUL {
										push(ld)
									}
								}
							}
						}
					case *ssa.Call:
						// handed to another error-returning call (wrapping): the flow continues with its result
						r2 := x.Call.Signature().Results()
						if r2.Len() > 0 && isErr(r2.At(r2.Len()-1).Type()) {
							push(x)
						}
					case *ssa.Slice, *ssa.IndexAddr:
						// varargs of a wrapping call: follow the array the value is stored in
					}
				}
				// a value stored into a varargs array element: follow the slice made from that array
				for _, r := range *refs {
					if st, ok := r.(*ssa.Store); ok && st.Val == v {
						if ia, ok := st.Addr.(*ssa.IndexAddr); ok {
							if al, ok := ia.X.(*ssa.Alloc); ok {
								for _, u := range *al.Referrers() {
									if sl, ok := u.(*ssa.Slice); ok {
										push(sl)
									}
								}
							}
						}
					}
				}
			}
			if !reached {
				out = append(out, c)
			}
		}
	}
	return out
}
