package rules

import (
	"fmt"
	"go/token"
	"go/types"
	"strings"

	"golang.org/x/tools/go/ssa"

	"verif/tool/absint"
	"verif/tool/load"
)

func init() { register("C13", "other", C13) }

// busSegment locates bus.Bus and its dispatch table field (array of memory.Memory).
func busSegment(ctx *Ctx) (*types.Named, int) {
	pk := ctx.Prog.Pkg("emulator/bus")
	if pk == nil || pk.Type("Bus") == nil {
		return nil, -1
	}
	n := pk.Type("Bus").Type().(*types.Named)
	st := n.Underlying().(*types.Struct)
	for i := 0; i < st.NumFields(); i++ {
		if a, ok := st.Field(i).Type().Underlying().(*types.Array); ok {
			if _, ok := a.Elem().Underlying().(*types.Interface); ok {
				return n, i
			}
		}
	}
	return n, -1
}

func C13(ctx *Ctx) {
	R := ctx.R
	R.Explanation = "attach: in bus.Attach the only store into the dispatch table is inside one counted loop whose index runs from start>>4 to end>>4 inclusive, storing the mem parameter, and that loop is dominated by the passing edges of both alignment tests whose failing edges return a non-nil error; no other function of the module stores into the table. route: every Read/Write of a backend in package bus is issued on the table element selected by (address>>4) of the very address value it passes (abstract interpretation of the straight-line accessors: the slot index term equals shr4 of the address term; SSA identity in the loop of EaDump), and an empty slot makes EaRead/EaWrite/EaRead24_wrap panic. dump: EaDump's position and address advance in lock step from (0, start), one step per iteration, the loop runs while address <= end, a position is written only with the byte read at that iteration's address and only when a backend exists, and the position counter is returned."
	R.Trusted = []string{"go/packages + go/ssa", "absint", "backends' own Read/Write are outside this property (C11 covers memory.RAM)"}
	R.Rule("attach", "Attach stores mem at table[start>>4 ..= end>>4] only after both alignment tests passed; misaligned ranges return an error before any store; only Attach writes the table")
	R.Rule("route", "a backend is always selected by (a>>4) of the same address a that it is then given unmodified; an empty slot fails loudly in the single-access functions")
	R.Rule("dump", "EaDump: i and a advance together from (0,start) while a<=end; data[i] receives exactly Read(a) of the backend of a, unattached addresses are skipped, and i is returned")
	busT, segF := busSegment(ctx)
	if busT == nil || segF < 0 {
		R.Fail("attach", "Bus", "", "bus.Bus or its dispatch table field not found")
		return
	}
	// table addresses: &b.segment, and - through static calls - the parameters of module functions that are handed
	// one (a table type with methods, a helper taking the table by pointer)
	tableAddr := map[ssa.Value]bool{}
	var work []ssa.Value
	for _, fn := range ctx.Prog.AllFuncs() {
		for _, blk := range fn.Blocks {
			for _, in := range blk.Instrs {
				if fa, ok := in.(*ssa.FieldAddr); ok && fa.Field == segF && types.Identical(fa.X.Type(), types.NewPointer(busT)) {
					tableAddr[fa] = true
					work = append(work, fa)
				}
			}
		}
	}
	var tableStores []*ssa.Store
	var escapes []ssa.Instruction
	for len(work) > 0 {
		v := work[len(work)-1]
		work = work[:len(work)-1]
		refs := v.Referrers()
		if refs == nil {
			continue
		}
		for _, ref := range *refs {
			switch r := ref.(type) {
			case *ssa.DebugRef:
			case *ssa.IndexAddr:
				if r.X != v {
					escapes = append(escapes, ref)
					continue
				}
				for _, u := range *r.Referrers() {
					switch x := u.(type) {
					case *ssa.Store:
						if x.Addr == ssa.Value(r) {
							tableStores = append(tableStores, x)
						} else {
							escapes = append(escapes, u)
						}
					case *ssa.UnOp, *ssa.DebugRef:
					default:
						escapes = append(escapes, u)
					}
				}
			case *ssa.UnOp:
				if r.Op != token.MUL {
					escapes = append(escapes, ref)
				}
			case *ssa.Store:
				if r.Addr == v {
					tableStores = append(tableStores, r) // the whole table replaced
				} else {
					escapes = append(escapes, ref)
				}
			case *ssa.Call:
				callee := r.Call.StaticCallee()
				if bi, ok := r.Call.Value.(*ssa.Builtin); ok && (bi.Name() == "len" || bi.Name() == "cap") {
					continue
				}
				if callee == nil || callee.Blocks == nil || !load.InModule(callee) {
					escapes = append(escapes, ref)
					continue
				}
				for i, a := range r.Call.Args {
					if a == v && i < len(callee.Params) && !tableAddr[callee.Params[i]] {
						tableAddr[callee.Params[i]] = true
						work = append(work, callee.Params[i])
					}
				}
			default:
				escapes = append(escapes, ref)
			}
		}
	}
	isSegAddr := func(v ssa.Value) (*ssa.IndexAddr, bool) {
		ia, ok := v.(*ssa.IndexAddr)
		if !ok || !tableAddr[ia.X] {
			return nil, false
		}
		return ia, true
	}
	attach := ctx.Prog.Method("emulator/bus", "Bus", "Attach")
	if attach == nil || len(attach.Params) != 5 {
		R.Fail("attach", "Attach", "", "(*Bus).Attach(mem, name, start, end) not found")
		return
	}
	apos := ctx.Prog.Pos(attach.Pos())
	memP, startP, endP := attach.Params[1], attach.Params[3], attach.Params[4]
	// a store is Attach's if it is in Attach or in a helper all of whose call sites are Attach's (transitively)
	sites := staticCallSites(ctx.Prog.AllFuncs())
	var ofAttach func(f *ssa.Function, depth int) bool
	ofAttach = func(f *ssa.Function, depth int) bool {
		if f == attach {
			return true
		}
		if depth > 4 || sites.asValue[f] || len(sites.sites[f]) == 0 || (f.Object() != nil && f.Object().Exported()) {
			return false
		}
		for _, c := range sites.sites[f] {
			if !ofAttach(c.Parent(), depth+1) {
				return false
			}
		}
		return true
	}
	okWriters := true
	for _, s := range tableStores {
		if !ofAttach(s.Parent(), 0) {
			okWriters = false
			R.Fail("attach", "table-written-by:"+fnShort(s.Parent()), ctx.Prog.Pos(s.Pos()), "the dispatch table is stored to outside Attach")
		}
	}
	for _, e := range escapes {
		okWriters = false
		R.Fail("attach", "table-address-escapes:"+fnShort(e.Parent()), ctx.Prog.Pos(e.Pos()), "the table's address is used other than for element access")
	}
	if okWriters {
		R.Pass("attach", "table-writers", apos, fmt.Sprintf("%d store(s), all in Attach", len(tableStores)))
	}
	// ---- Attach shape
	func() {
		// when the SSA shape below is not recognised the obligations are decided on the
		// abstract result instead (c13sem.go); only if that fails too is the rule violated
		fail := func(c, msg string) {
			if sem := attachSemantic(ctx, attach, busT); len(sem) == 0 {
				R.Pass("attach", "Attach", apos, "aligned ranges: table[start>>4 + T] = mem while <= end>>4, under both alignment tests; misaligned: non-nil error (decided on the abstract result; loop shape not the recognised one: "+msg+")")
				return
			} else {
				R.Fail("attach", "Attach:"+c, apos, msg+"; on the abstract result: "+strings.Join(sem, "; "))
			}
		}
		var stores []*ssa.Store
		for _, s := range tableStores {
			if s.Parent() == attach {
				stores = append(stores, s)
			}
		}
		loops := loopsOf(attach)
		if len(stores) != 1 || len(loops) != 1 {
			fail("shape", fmt.Sprintf("%d table stores and %d loops in Attach, want 1 and 1", len(stores), len(loops)))
			return
		}
		st, L := stores[0], loops[0]
		ia, _ := isSegAddr(st.Addr)
		if !L.Body[st.Block()] || st.Val != memP {
			fail("store", "the store is not inside the loop or does not store the mem parameter")
			return
		}
		phi, ok := ia.Index.(*ssa.Phi)
		if !ok || phi.Block() != L.Header {
			fail("index", "the store index is not the loop variable")
			return
		}
		shr4 := func(v ssa.Value, of ssa.Value) bool {
			b, ok := v.(*ssa.BinOp)
			if !ok || b.Op != token.SHR || b.X != of {
				return false
			}
			c, ok := b.Y.(*ssa.Const)
			return ok && c.Uint64() == 4
		}
		for i, e := range phi.Edges {
			if !L.Body[L.Header.Preds[i]] {
				if !shr4(e, startP) {
					fail("index-init", "the loop variable does not start at start>>4")
					return
				}
			} else {
				b, ok := e.(*ssa.BinOp)
				c, _ := func() (*ssa.Const, bool) {
					if !ok {
						return nil, false
					}
					c, ok := b.Y.(*ssa.Const)
					return c, ok
				}()
				if !ok || b.Op != token.ADD || b.X != phi || c == nil || c.Uint64() != 1 {
					fail("index-step", "the loop variable is not incremented by one")
					return
				}
			}
		}
		iff, _ := L.Header.Instrs[len(L.Header.Instrs)-1].(*ssa.If)
		cond, _ := func() (*ssa.BinOp, bool) {
			if iff == nil {
				return nil, false
			}
			b, ok := iff.Cond.(*ssa.BinOp)
			return b, ok
		}()
		if cond == nil || cond.Op != token.LEQ || cond.X != phi || !shr4(cond.Y, endP) || !L.Body[L.Header.Succs[0]] {
			fail("bound", "the loop does not run while x <= end>>4")
			return
		}
		// alignment guards dominating the loop
		isAlignTest := func(v ssa.Value, end bool) bool {
			ne, ok := v.(*ssa.BinOp)
			if !ok || ne.Op != token.NEQ {
				return false
			}
			z, ok := ne.Y.(*ssa.Const)
			if !ok || z.Uint64() != 0 {
				return false
			}
			and, ok := ne.X.(*ssa.BinOp)
			if !ok || and.Op != token.AND {
				return false
			}
			m, ok := and.Y.(*ssa.Const)
			if !ok || m.Uint64() != 15 {
				return false
			}
			if !end {
				return and.X == startP
			}
			add, ok := and.X.(*ssa.BinOp)
			if !ok || add.Op != token.ADD || add.X != endP {
				return false
			}
			one, ok := add.Y.(*ssa.Const)
			return ok && one.Uint64() == 1
		}
		found := [2]bool{}
		for _, b := range attach.Blocks {
			i2, ok := b.Instrs[len(b.Instrs)-1].(*ssa.If)
			if !ok {
				continue
			}
			for k := 0; k < 2; k++ {
				if !isAlignTest(i2.Cond, k == 1) {
					continue
				}
				// passing (false) edge dominates the loop; failing edge returns non-nil without storing
				if !edgeDominates(b, 1, L.Header) {
					fail("guard", "an alignment test does not guard the loop")
					return
				}
				fb := b.Succs[0]
				ret, ok := fb.Instrs[len(fb.Instrs)-1].(*ssa.Return)
				nonNil := false
				if ok && len(ret.Results) == 1 {
					if c, ok := ret.Results[0].(*ssa.Call); ok && c.Call.StaticCallee() != nil {
						n := c.Call.StaticCallee().String()
						nonNil = n == "fmt.Errorf" || n == "errors.New"
					}
				}
				if !nonNil {
					fail("guard-error", "a failing alignment test does not return a freshly made error")
					return
				}
				found[k] = true
			}
		}
		if !found[0] || !found[1] {
			fail("guards", "start&15 != 0 and (end+1)&15 != 0 are not both tested")
			return
		}
		R.Pass("attach", "Attach", apos, "aligned ranges: table[start>>4 ..= end>>4] = mem; misaligned: error before any store")
	}()
	// ---- route: straight-line accessors by abstract interpretation
	busPk := ctx.Prog.Pkg("emulator/bus")
	nRoute := 0
	for _, fn := range ctx.Prog.AllFuncs() {
		if fn.Pkg != busPk || fn.Signature.Recv() == nil {
			continue
		}
		// accessors written with small counted loops are interpreted with the loops unrolled; EaDump's loop runs
		// over a caller-chosen range and has its own rule below
		cyclic := !absint.IsAcyclic(fn)
		if cyclic && fn == ctx.Prog.Method("emulator/bus", "Bus", "EaDump") {
			continue
		}
		// does it invoke a backend?
		invokes := false
		for _, b := range fn.Blocks {
			for _, in := range b.Instrs {
				if c, ok := in.(*ssa.Call); ok && c.Call.IsInvoke() && (c.Call.Method.Name() == "Read" || c.Call.Method.Name() == "Write") {
					invokes = true
				}
			}
		}
		if !invokes {
			continue
		}
		nRoute++
		pos := ctx.Prog.Pos(fn.Pos())
		key := fnShort(fn)
		for _, slotNil := range []bool{false, true} {
			ip := absint.New()
			ip.UnrollLoops = cyclic
			b := &absint.Ptr{Nil: absint.TriF, Obj: ip.SymObj("b", busT), T: busT}
			args := []absint.Val{b}
			for i, p := range fn.Params[1:] {
				w, s, ok := absint.IntType(p.Type())
				if !ok {
					args = append(args, &absint.Top{T: p.Type()})
					continue
				}
				args = append(args, absint.NewSym(w, ip.In.Atom(fmt.Sprintf("p%d", i), w, ^uint64(0)>>(64-uint(w))), s))
			}
			ip.Hooks.SlotIsNil = func(*absint.Slot) absint.Tri {
				if slotNil {
					return absint.TriT
				}
				return absint.TriF
			}
			var slotCalls []*absint.Event
			ip.Hooks.SlotCall = func(ip *absint.Interp, st *absint.State, ev *absint.Event) absint.Val {
				slotCalls = append(slotCalls, ev)
				return nil
			}
			_, out := ip.Call(fn, args, nil, &absint.State{Heap: absint.NewHeap(nil)})
			if len(ip.Imprec) > 0 {
				R.Fail("route", key+":analysable", pos, fmt.Sprintf("not interpretable: %v", ip.Imprec))
				break
			}
			if slotNil && !fn.Object().Exported() {
				// an unexported helper may report "nothing attached" to its caller; the
				// exported accessors built on it are judged themselves
				continue
			}
			if slotNil {
				if out != nil || len(slotCalls) > 0 {
					R.Fail("route", key+":empty-slot", pos, "an address without backend does not fail loudly (the function returns or still calls a backend)")
				} else {
					R.Pass("route", key+":empty-slot", pos, "panics when a needed slot is empty")
				}
				continue
			}
			msg := ""
			for _, ev := range slotCalls {
				a, _ := ev.Args[0].(*absint.Int)
				if a == nil {
					msg = "backend called without an address"
					continue
				}
				want := ip.Ops.Convert(ip.Ops.Shr(a, absint.NewConst(a.W, 4, false), false), 64, false, true).Lin.Key()
				if ev.Slot.Index.Lin.Key() != want {
					msg = fmt.Sprintf("backend selected by index %s but given address %s (want index %s)", ev.Slot.Index.Lin.Key(), a.Lin.Key(), want)
				}
				if !strings.Contains(absint.ValKey(&ev.Slot.Table), "b.") {
					msg = "backend taken from something other than the receiver's table"
				}
			}
			if len(slotCalls) == 0 {
				msg = "no backend call on the mapped path"
			}
			if msg != "" {
				R.Fail("route", key, pos, msg)
			} else {
				R.Pass("route", key, pos, fmt.Sprintf("%d backend call(s), each on table[a>>4] with the same a", len(slotCalls)))
			}
		}
	}
	R.Count("route-functions", nRoute)
	R.Floor("route-functions", 3)
	// ---- EaDump: SSA identity in the loop
	dump := ctx.Prog.Method("emulator/bus", "Bus", "EaDump")
	if dump == nil || len(dump.Params) != 4 {
		R.Fail("dump", "EaDump", "", "(*Bus).EaDump(start, end, data) not found")
		return
	}
	dpos := ctx.Prog.Pos(dump.Pos())
	func() {
		fail := func(rule, c, msg string) {
			if sem := dumpSemantic(ctx, dump, busT); len(sem) == 0 {
				R.Pass("dump", "EaDump", dpos, "every backend read is at a = start+p on table[a>>4] under a <= end and lands in data[p] (decided on the abstract result; loop shape not the recognised one: "+msg+")")
				return
			} else {
				R.Fail(rule, "EaDump:"+c, dpos, msg+"; on the abstract result: "+strings.Join(sem, "; "))
			}
		}
		startP, endP, dataP := dump.Params[1], dump.Params[2], dump.Params[3]
		loops := loopsOf(dump)
		if len(loops) != 1 {
			fail("dump", "shape", fmt.Sprintf("%d loops; the lock-step rule needs exactly one (a correct chunked loop is not decidable by this rule, DESIGN.md section 6)", len(loops)))
			return
		}
		L := loops[0]
		var aPhi, iPhi *ssa.Phi
		for _, in := range L.Header.Instrs {
			p, ok := in.(*ssa.Phi)
			if !ok {
				continue
			}
			for k, e := range p.Edges {
				if L.Body[L.Header.Preds[k]] {
					continue
				}
				if e == startP {
					aPhi = p
				}
				if c, ok := e.(*ssa.Const); ok && c.Value != nil {
					if _, _, isInt := absint.IntType(c.Type()); isInt && c.Int64() == 0 {
						iPhi = p
					}
				}
			}
		}
		if aPhi == nil || iPhi == nil {
			fail("dump", "induction", "no address variable starting at start and position variable starting at 0")
			return
		}
		plus1 := func(p *ssa.Phi) bool {
			for k, e := range p.Edges {
				if !L.Body[L.Header.Preds[k]] {
					continue
				}
				b, ok := e.(*ssa.BinOp)
				if !ok || b.Op != token.ADD || b.X != p {
					return false
				}
				c, ok := b.Y.(*ssa.Const)
				if !ok || c.Int64() != 1 {
					return false
				}
				// the increment happens on every iteration: its block must be the latch
				if len(L.Latch) != 1 || b.Block() != L.Latch[0] {
					return false
				}
			}
			return true
		}
		if !plus1(aPhi) || !plus1(iPhi) {
			fail("dump", "lock-step", "address and position are not both advanced by one at the single loop latch")
			return
		}
		iff, _ := L.Header.Instrs[len(L.Header.Instrs)-1].(*ssa.If)
		cond, _ := func() (*ssa.BinOp, bool) {
			if iff == nil {
				return nil, false
			}
			b, ok := iff.Cond.(*ssa.BinOp)
			return b, ok
		}()
		if cond == nil || cond.Op != token.LEQ || cond.X != aPhi || cond.Y != endP || !L.Body[L.Header.Succs[0]] {
			fail("dump", "bound", "the loop does not run while a <= end")
			return
		}
		// backend calls and data stores
		okRoute, okDump := true, true
		nReads := 0
		for b := range L.Body {
			for _, in := range b.Instrs {
				switch x := in.(type) {
				case *ssa.Call:
					if !x.Call.IsInvoke() {
						okDump = false
						fail("dump", "call", "the loop calls something other than a backend Read: "+x.String())
						continue
					}
					nReads++
					ld, ok := x.Call.Value.(*ssa.UnOp)
					var ia *ssa.IndexAddr
					if ok && ld.Op == token.MUL {
						ia, ok = isSegAddr(ld.X)
					}
					if !ok || ia == nil {
						okRoute = false
						fail("route", "receiver", "the backend is not loaded from the dispatch table")
						continue
					}
					sh, ok := ia.Index.(*ssa.BinOp)
					c4, _ := func() (*ssa.Const, bool) {
						if !ok {
							return nil, false
						}
						c, ok := sh.Y.(*ssa.Const)
						return c, ok
					}()
					if !ok || sh.Op != token.SHR || c4 == nil || c4.Uint64() != 4 || len(x.Call.Args) != 1 || sh.X != x.Call.Args[0] {
						okRoute = false
						fail("route", "index", "the backend is not selected by (a>>4) of the address value it is given")
						continue
					}
					if x.Call.Args[0] != aPhi {
						okDump = false
						fail("dump", "address", "the byte is not read at this iteration's address")
					}
					// must be guarded by the slot being non-nil
					guarded := false
					for _, ref := range *ld.Referrers() {
						if cmp, ok := ref.(*ssa.BinOp); ok && (cmp.Op == token.NEQ || cmp.Op == token.EQL) {
							for _, r2 := range *cmp.Referrers() {
								if i2, ok := r2.(*ssa.If); ok {
									k := 0
									if cmp.Op == token.EQL {
										k = 1
									}
									if edgeDominates(i2.Block(), k, x.Block()) {
										guarded = true
									}
								}
							}
						}
					}
					if !guarded {
						okRoute = false
						fail("route", "nil-guard", "the backend call is not guarded by the slot being non-nil")
					}
					// its result goes to data[i]
					stored := false
					for _, ref := range *x.Referrers() {
						if s, ok := ref.(*ssa.Store); ok && s.Val == x {
							if da, ok := s.Addr.(*ssa.IndexAddr); ok && da.X == dataP && da.Index == iPhi {
								stored = true
							}
						}
					}
					if !stored {
						okDump = false
						fail("dump", "placement", "the byte read is not stored at data[i]")
					}
				case *ssa.Store:
					da, ok := x.Addr.(*ssa.IndexAddr)
					if !ok || da.X != dataP || da.Index != iPhi {
						okDump = false
						fail("dump", "store", "the loop stores to something other than data[i]")
					} else if c, ok := x.Val.(*ssa.Call); !ok || !c.Call.IsInvoke() {
						okDump = false
						fail("dump", "store-value", "data[i] receives something other than the byte just read")
					}
				}
			}
		}
		// returns i
		for _, b := range dump.Blocks {
			if ret, ok := b.Instrs[len(b.Instrs)-1].(*ssa.Return); ok {
				if len(ret.Results) != 1 || ret.Results[0] != iPhi {
					okDump = false
					fail("dump", "result", "EaDump does not return the position counter")
				}
			}
		}
		if nReads != 1 {
			okDump = false
			fail("dump", "reads", fmt.Sprintf("%d backend calls per iteration, want 1", nReads))
		}
		if okRoute {
			R.Pass("route", "EaDump", dpos, "backend = table[a>>4] of the address a it is given, guarded by non-nil")
		}
		if okDump {
			R.Pass("dump", "EaDump", dpos, "i,a advance in lock step from (0,start) while a<=end; data[i] = Read(a); returns i")
		}
	}()
}
