package rules

import (
	"fmt"
	"go/types"
	"strings"

	"golang.org/x/tools/go/ssa"

	"verif/tool/absint"
)

func init() { register("C17", "other", C17) }

func C17(ctx *Ctx) {
	R := ctx.R
	R.Explanation = "pack: ToRGB and ToColor15 are interpreted with every input bit symbolic; the composition ToColor15(ToRGB(c)) has bits 0-14 equal to c's bits 0-14 and bit 15 zero, and ToRGB(ToColor15(r,g,b)) returns bits 0-4 of each channel (bit provenance: all 2^16 / 2^24 inputs at once). no-lossy-narrowing: with channels in [0,31], multiplicand in [0,255], divisor in [1,255], no narrowing conversion in MulDiv/Luminosity can drop a set bit and no product or sum overflows its width (interval analysis). shape: with the unpacked channels replaced by independent symbols, each argument MulDiv packs back depends only on its own channel, is 31 when floor(ch*m/d) > 31 and floor(ch*m/d) otherwise (gated term restricted to either case), and is bounded by 31; Luminosity is floor((r+g+b)/3)."
	R.Trusted = []string{"go/packages + go/ssa", "absint bit, interval and term domains", "divisor != 0 is the property's precondition"}
	R.Rule("pack", "ToColor15(ToRGB(c)) = c & $7FFF for all c; ToRGB(ToColor15(r,g,b)) = (r&31, g&31, b&31) for all r,g,b")
	R.Rule("no-lossy-narrowing", "no narrowing conversion in colour scaling can lose a set bit, no product or sum overflows")
	R.Rule("shape", "MulDiv packs, per channel, min(31, floor(channel*multiplicand/divisor)) of that same channel; Luminosity = floor((r+g+b)/3)")
	pk := ctx.Prog.Pkg("color15")
	if pk == nil {
		R.Fail("pack", "package", "", "package color15 not found")
		return
	}
	toRGB := ctx.Prog.Method("color15", "Color", "ToRGB")
	toC15 := ctx.Prog.Func("color15", "ToColor15")
	mulDiv := ctx.Prog.Method("color15", "Color", "MulDiv")
	lum := ctx.Prog.Method("color15", "Color", "Luminosity")
	for n, f := range map[string]*ssa.Function{"ToRGB": toRGB, "ToColor15": toC15, "MulDiv": mulDiv, "Luminosity": lum} {
		if f == nil {
			R.Fail("pack", "function:"+n, "", "color15."+n+" not found")
			return
		}
	}
	R.Count("functions", 4)
	R.Floor("functions", 4)
	newState := func() *absint.State { return &absint.State{Heap: absint.NewHeap(nil)} }
	// ---- pack: c -> rgb -> c
	{
		ip := absint.New()
		ip.UnrollLoops = true
		ca := ip.In.Atom("c", 16, 0xFFFF)
		c := absint.NewSym(16, ca, false)
		rgb, out := ip.Call(toRGB, []absint.Val{c}, nil, newState())
		tp, _ := rgb.(*absint.Tuple)
		pos := ctx.Prog.Pos(toRGB.Pos())
		if out == nil || tp == nil || len(tp.E) != 3 || len(ip.Imprec) > 0 {
			R.Fail("pack", "ToColor15∘ToRGB", pos, fmt.Sprintf("not interpretable: %v", ip.Imprec))
		} else {
			// each channel is exactly its five bits of c (never more than 31, also when bit 15 of c is set):
			// the MulDiv and Luminosity obligations below take channels in 0..31 from this
			chMsg := ""
			for ch := 0; ch < 3; ch++ {
				v, _ := tp.E[ch].(*absint.Int)
				if v == nil {
					chMsg = "channel is not an integer"
					continue
				}
				for i := 0; i < v.W; i++ {
					b := v.Bits[i]
					if i >= 5 {
						if b.K != absint.BZero {
							chMsg = fmt.Sprintf("channel %d bit %d is %s, want 0 (a channel is at most 31)", ch, i, b)
						}
					} else if b.K != absint.BLit || b.A != ca || int(b.Idx) != 5*ch+i || b.Neg {
						chMsg = fmt.Sprintf("channel %d bit %d is %s, want c.%d", ch, i, b, 5*ch+i)
					}
				}
			}
			if chMsg != "" {
				R.Fail("pack", "ToRGB:channels", pos, chMsg)
			} else {
				R.Pass("pack", "ToRGB:channels", pos, "channel k is bits 5k..5k+4 of c and nothing else, for every 16-bit c")
			}
			back, out2 := ip.Call(toC15, tp.E, nil, newState())
			bv, _ := back.(*absint.Int)
			msg := ""
			if out2 == nil || bv == nil {
				msg = "ToColor15 not interpretable"
			} else {
				for i := 0; i < 16; i++ {
					b := bv.Bits[i]
					if i == 15 {
						if b.K != absint.BZero {
							msg = fmt.Sprintf("bit 15 of the repacked colour is %s, want 0", b)
						}
					} else if b.K != absint.BLit || b.A != ca || int(b.Idx) != i || b.Neg {
						msg = fmt.Sprintf("bit %d of the repacked colour is %s, want c.%d", i, b, i)
					}
				}
			}
			if msg != "" {
				R.Fail("pack", "ToColor15∘ToRGB", pos, msg)
			} else {
				R.Pass("pack", "ToColor15∘ToRGB", pos, "bits 0-14 are c's, bit 15 is 0, for every c")
			}
		}
	}
	// ---- pack: rgb -> c -> rgb
	{
		ip := absint.New()
		ip.UnrollLoops = true
		var atoms []*absint.Atom
		var args []absint.Val
		for _, n := range []string{"r", "g", "b"} {
			a := ip.In.Atom(n, 8, 0xFF)
			atoms = append(atoms, a)
			args = append(args, absint.NewSym(8, a, false))
		}
		pos := ctx.Prog.Pos(toC15.Pos())
		cv, out := ip.Call(toC15, args, nil, newState())
		msg := ""
		if out == nil || cv == nil || len(ip.Imprec) > 0 {
			msg = fmt.Sprintf("not interpretable: %v", ip.Imprec)
		} else {
			rgb, out2 := ip.Call(toRGB, []absint.Val{cv}, nil, newState())
			tp, _ := rgb.(*absint.Tuple)
			if out2 == nil || tp == nil || len(tp.E) != 3 {
				msg = "ToRGB not interpretable"
			} else {
				for ch := 0; ch < 3; ch++ {
					v, _ := tp.E[ch].(*absint.Int)
					if v == nil {
						msg = "channel is not an integer"
						continue
					}
					for i := 0; i < 8; i++ {
						b := v.Bits[i]
						if i >= 5 {
							if b.K != absint.BZero {
								msg = fmt.Sprintf("channel %d bit %d is %s, want 0", ch, i, b)
							}
						} else if b.K != absint.BLit || b.A != atoms[ch] || int(b.Idx) != i || b.Neg {
							msg = fmt.Sprintf("channel %d bit %d is %s, want %s.%d", ch, i, b, atoms[ch].Key, i)
						}
					}
				}
			}
		}
		if msg != "" {
			R.Fail("pack", "ToRGB∘ToColor15", pos, msg)
		} else {
			R.Pass("pack", "ToRGB∘ToColor15", pos, "each channel comes back modulo 32, for every r,g,b")
		}
	}
	// ---- MulDiv / Luminosity with independent channel symbols
	for _, fn := range []*ssa.Function{mulDiv, lum} {
		ip := absint.New()
		ip.UnrollLoops = true
		ip.TraceArith = true
		pos := ctx.Prog.Pos(fn.Pos())
		chans := map[string]*absint.Atom{}
		var chanVals []absint.Val
		for _, n := range []string{"R", "G", "B"} {
			a := ip.In.Atom(n, 8, 31)
			chans[n] = a
			chanVals = append(chanVals, absint.NewSym(8, a, false))
		}
		var packArgs []absint.Val
		nPack := 0
		ip.Hooks.OverrideCall = func(ip *absint.Interp, st *absint.State, f *ssa.Function, a []absint.Val) (absint.Val, bool) {
			switch f {
			case toRGB:
				return &absint.Tuple{E: chanVals}, true // justified by the pack rule
			case toC15:
				packArgs = a
				nPack++
				return nil, false
			}
			return nil, false
		}
		args := []absint.Val{absint.NewSym(16, ip.In.Atom("c", 16, 0xFFFF), false)}
		var m, d *absint.Int
		if fn == mulDiv {
			m = absint.NewSym(8, ip.In.Atom("m", 8, 0xFF), false)
			d = ip.Ops.Add(absint.NewConst(8, 1, false), absint.NewSym(8, ip.In.Atom("d-1", 8, 0xFE), false))
			args = append(args, m, d)
		}
		res, out := ip.Call(fn, args, nil, newState())
		if out == nil || len(ip.Imprec) > 0 {
			R.Fail("shape", fn.Name()+":analysable", pos, fmt.Sprintf("not interpretable: %v", ip.Imprec))
			continue
		}
		nBad := 0
		for _, e := range ip.Events {
			if e.Kind == "narrowing" || e.Kind == "overflow" {
				nBad++
				v, _ := e.Args[0].(*absint.Int)
				R.Fail("no-lossy-narrowing", fmt.Sprintf("%s:%s:%s", fn.Name(), e.Kind, e.Callee), ctx.Prog.Pos(e.Pos), fmt.Sprintf("%s of a value that may reach %d (%s)", e.Kind, v.Hi, trunc(v.Lin.Key())))
			}
		}
		if nBad == 0 {
			R.Pass("no-lossy-narrowing", fn.Name(), pos, "every narrowing fits its target, no product or sum overflows")
		}
		if fn == lum {
			rv, _ := res.(*absint.Int)
			o := ip.Ops
			sum := o.Add(o.Add(chanVals[0].(*absint.Int), chanVals[1].(*absint.Int)), chanVals[2].(*absint.Int))
			want := o.Quo(sum, absint.NewConst(8, 3, false), false)
			if rv == nil || rv.Lin.Key() != want.Lin.Key() {
				R.Fail("shape", "Luminosity", pos, fmt.Sprintf("result %s, want %s", fmtVal(res), want.Lin.Key()))
			} else {
				R.Pass("shape", "Luminosity", pos, "floor((r+g+b)/3)")
			}
			continue
		}
		if nPack != 1 && nBad == 0 {
			// the packing call is not reached exactly once on one path (a loop over the
			// channels with the limit test inside splits the interpretation into paths):
			// compare the merged result with the prescribed colour instead
			// (interpreted once more without replacing ToRGB by channel symbols: an
			// implementation may take the channels out of the colour itself; the reference
			// does the same, ToRGB's own correctness is the pack rule)
			ip2 := absint.New()
			ip2.UnrollLoops = true
			cArg := absint.NewSym(16, ip2.In.Atom("c", 16, 0xFFFF), false)
			m2 := absint.NewSym(8, ip2.In.Atom("m", 8, 0xFF), false)
			d2 := ip2.Ops.Add(absint.NewConst(8, 1, false), absint.NewSym(8, ip2.In.Atom("d-1", 8, 0xFE), false))
			res2, out2 := ip2.Call(fn, []absint.Val{cArg, m2, d2}, nil, &absint.State{Heap: absint.NewHeap(nil)})
			if rv, ok := res2.(*absint.Int); ok && out2 != nil && len(ip2.Imprec) == 0 {
				ro := absint.Ops{In: absint.NewInterner()}
				k16 := func(v uint64) *absint.Int { return absint.NewConst(16, v, false) }
				sym := func(name string, w int, hi uint64) *absint.Int {
					return absint.NewSym(w, ro.In.Atom(name, w, hi), false)
				}
				m16 := ro.Convert(sym("m", 8, 0xFF), 16, false, false)
				d16 := ro.Convert(ro.Add(absint.NewConst(8, 1, false), sym("d-1", 8, 0xFE)), 16, false, false)
				want := k16(0)
				c16 := sym("c", 16, 0xFFFF)
				for i := range []string{"R", "G", "B"} {
					ch := ro.And(ro.Shr(c16, k16(uint64(5*i)), false), k16(31))
					q := ro.Quo(ro.Mul(ch, m16), d16, false)
					b := &absint.Bool{K: absint.TriTop, Cmp: &absint.CmpInfo{Op: ">", X: q, Y: k16(31)}}
					key, _ := absint.GateOf(b)
					ro.In.NoteCond(key, b)
					lim := ro.Gamma(key, k16(31), q)
					want = ro.Or(want, ro.Shl(lim, k16(uint64(5*i))))
				}
				if same, why := sameTerm(rv, ip2.In.Conds, want, ro.In.Conds); same {
					for _, n := range []string{"R", "G", "B"} {
						R.Pass("shape", "MulDiv:channel-"+n, pos, "min(31, floor("+n+"*m/d)) of its own channel (result compared with the prescribed colour path by path)")
					}
				} else {
					R.Fail("shape", "MulDiv:result", pos, "the result is not pack(min(31, floor(ch*m/d)) per channel): "+why)
				}
				continue
			}
		}
		if len(packArgs) != 3 {
			R.Fail("shape", "MulDiv:pack", pos, "MulDiv does not pack its result with ToColor15(r,g,b)")
			continue
		}
		// ... and what it returns is that packed colour on every path (not, say, the unmasked argument on a shortcut)
		{
			saved := ip.Hooks.OverrideCall
			ip.Hooks.OverrideCall = nil
			packed, pout := ip.Call(toC15, packArgs, nil, newState())
			ip.Hooks.OverrideCall = saved
			pv, _ := packed.(*absint.Int)
			rv, _ := res.(*absint.Int)
			if pout == nil || pv == nil || rv == nil || pv.Lin.Key() != rv.Lin.Key() {
				R.Fail("shape", "MulDiv:result", pos, fmt.Sprintf("MulDiv returns %s, which is not the packed colour %s on every path", trunc(fmtVal(res)), trunc(fmtVal(packed))))
				continue
			}
		}
		if nBad > 0 {
			// term keys identify values only modulo their width; with a lossy narrowing the comparison below would be meaningless
			R.Fail("shape", "MulDiv:undecided", pos, "the per-channel term cannot be decided while a narrowing in MulDiv may lose bits")
			continue
		}
		o := ip.Ops
		for i, n := range []string{"R", "G", "B"} {
			key := "MulDiv:channel-" + n
			av, _ := packArgs[i].(*absint.Int)
			if av == nil {
				R.Fail("shape", key, pos, "packed channel is not an integer")
				continue
			}
			// independence
			bad := ""
			for _, dep := range absint.LinDeps(av.Lin) {
				if k := dep.Key; k != n && k != "m" && k != "d-1" {
					bad = fmt.Sprintf("channel %s of the result depends on %s", n, k)
				}
			}
			ch16 := o.Convert(chanVals[i].(*absint.Int), 16, false, false)
			q := o.Quo(o.Mul(ch16, o.Convert(m, 16, false, false)), o.Convert(d, 16, false, false), false)
			qk := q.Lin.Key()
			// clamp condition in either spelling
			var lo, hi string
			found := false
			for _, cond := range []string{"(" + qk + ">1f)", "(" + qk + ">=20)", "!(" + qk + "<=1f)", "!(" + qk + "<20)"} {
				l := absint.Restrict(av.Lin, map[string]bool{cond: false}).Key()
				h := absint.Restrict(av.Lin, map[string]bool{cond: true}).Key()
				if l != av.Lin.Key() || h != av.Lin.Key() {
					lo, hi, found = l, h, true
				}
			}
			// whatever the spelling of the limit: as a function of the quotient alone, the channel is min(31, q)
			// for each of the 65536 values the 16-bit quotient can take (the term is evaluated, not the code)
			if bad == "" && len(q.Lin.T) == 1 && q.Lin.C == 0 && q.Lin.T[0].K == 1 {
				qa := q.Lin.T[0].A
				okAll, at := true, uint64(0)
				for v := uint64(0); v <= 0xFFFF && okAll; v++ {
					want := v
					if want > 31 {
						want = 31
					}
					got, ok := o.EvalConst(av.Lin, ip.In.Conds, map[string]uint64{qa.Key: v})
					if !ok || got != want {
						okAll, at = false, v
					}
				}
				if okAll {
					R.Pass("shape", key, pos, "min(31, floor("+n+"*m/d)) of its own channel (the channel term evaluated for every value of the quotient)")
					continue
				}
				_ = at
			}
			switch {
			case bad != "":
			case !found:
				bad = fmt.Sprintf("no clamp on floor(%s*m/d) > 31 found in %s", n, trunc(av.Lin.Key()))
			case lo != qk:
				bad = fmt.Sprintf("when the quotient is <= 31 the channel is %s, want %s", trunc(lo), qk)
			case hi != "1f":
				bad = fmt.Sprintf("when the quotient exceeds 31 the channel is %s, want 31", trunc(hi))
			case av.Hi > 31:
				bad = fmt.Sprintf("channel may reach %d", av.Hi)
			}
			if bad != "" {
				R.Fail("shape", key, pos, bad)
			} else {
				R.Pass("shape", key, pos, "min(31, floor("+n+"*m/d)) of its own channel")
			}
		}
	}
	_ = types.Typ
	_ = strings.TrimSpace
}
