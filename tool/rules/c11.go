package rules

import (
	"fmt"
	"go/types"
	"sort"
	"strings"
	"verif/tool/load"

	"golang.org/x/tools/go/ssa"

	"verif/tool/absint"
)

func init() { register("C11", "other", C11) }

type attachSite struct {
	Seq        int
	Start, End uint32
	Kind       string // "RAM", "other"
	Array      string // System field backing the RAM (ROM/SRAM/WRAM)
	SliceOff   uint64
	SliceLen   uint64
	RAMOffset  uint64
	Pos        string
	Desc       string
	Dyn        types.Type // dynamic type of a backend that is not a RAM over the System's arrays
}

func C11(ctx *Ctx) {
	R := ctx.R
	R.Explanation = "attach-model: System.CreateEmulator is interpreted along its single feasible path with its counted loops unrolled (all loop bounds are constants); every call of Bus.Attach is recorded with its constant start/end and the backend value (a memory.RAM over a constant sub-slice of System.ROM/SRAM/WRAM with a constant address offset, or the fake I/O block). With Attach's semantics (justified structurally by C13/attach: last writer of table[start>>4..end>>4] wins, aligned ranges only) this gives, per 8 KiB page, the backing array and index base. agree: for every page that is backed by ROM/SRAM/WRAM in the emulator and mapped by LoROM's page summary (C05 machinery), the class is the same and pak - classBase equals sliceOffset + (address - ramOffset); the page lies inside the sub-slice. ram: memory.RAM.Read and Write index data[address-offset] with the same term, and Read returns / Write stores at exactly that cell."
	R.Trusted = []string{"go/packages + go/ssa", "absint (single-path unrolling of counted loops with constant bounds)", "C13/attach and C13/route (routing semantics of the bus)", "C05 page summaries of lorom.BusAddressToPak"}
	R.Rule("attach-model", "every Attach call of CreateEmulator has constant, 16-byte- and page-aligned bounds and a backend that is a RAM over a constant sub-slice of ROM/SRAM/WRAM or the I/O stub; CreateEmulator is interpretable along one path")
	R.Rule("agree", "for every 8 KiB page backed by ROM/SRAM/WRAM in the emulator and mapped by the LoROM mapper: same memory class and same linear position; a page the emulator backs with anything else (I/O stub) is one the mapper leaves unmapped")
	R.Rule("ram", "memory.RAM.Read/Write access data[address-offset], the same cell for the same address")
	R.Rule("mirrors", "where the emulator backs a page with ROM/SRAM/WRAM, the pages the mapper sends to the same position and the property names as mirrors (the other half of the bank space, bank bit 7; the WRAM window in the low 8 KiB of system banks) are backed too")
	R.Rule("io-stub", "a backend that is not one of the System's memories (the I/O stub) serves every address it is attached for without an out-of-range index")
	sysT := ctx.Prog.Pkg("emulator").Type("System")
	fn := ctx.Prog.Method("emulator", "System", "CreateEmulator")
	attach := ctx.Prog.Method("emulator/bus", "Bus", "Attach")
	if sysT == nil || fn == nil || attach == nil {
		R.Fail("attach-model", "functions", "", "System.CreateEmulator / Bus.Attach not found")
		return
	}
	pos := ctx.Prog.Pos(fn.Pos())
	sn := sysT.Type().(*types.Named)
	ip := absint.New()
	ip.UnrollLoops = true
	s := &absint.Ptr{Nil: absint.TriF, Obj: ip.SymObj("s", sn), T: sn}
	var sites []attachSite
	ip.Hooks.OverrideCall = func(ip *absint.Interp, st *absint.State, f *ssa.Function, a []absint.Val) (absint.Val, bool) {
		if f != attach {
			return nil, false
		}
		site := attachSite{Seq: len(sites), Pos: ctx.Prog.Pos(ip.CurPos()), Kind: "other"}
		startV, _ := a[3].(*absint.Int)
		endV, _ := a[4].(*absint.Int)
		sc, ok1 := uint64(0), false
		ec, ok2 := uint64(0), false
		if startV != nil {
			sc, ok1 = startV.IsConst()
		}
		if endV != nil {
			ec, ok2 = endV.IsConst()
		}
		if !ok1 || !ok2 {
			site.Desc = fmt.Sprintf("non-constant bounds %s..%s", fmtVal(a[3]), fmtVal(a[4]))
			site.Kind = "bad"
		}
		site.Start, site.End = uint32(sc), uint32(ec)
		if ifc, ok := a[1].(*absint.Iface); ok && ifc.Dyn != nil {
			site.Desc = ifc.Dyn.String()
			site.Dyn = ifc.Dyn
			if sv, ok := ifc.V.(*absint.Struct); ok && strings.HasSuffix(ifc.Dyn.String(), "memory.RAM") {
				var sl *absint.Slice
				var off *absint.Int
				for _, fv := range sv.F {
					switch x := fv.(type) {
					case *absint.Slice:
						sl = x
					case *absint.Int:
						off = x
					}
				}
				if sl != nil && off != nil && sl.Base.Obj == s.Obj {
					so, okA := sl.Off.IsConst()
					ln, okB := sl.Len.IsConst()
					ro, okC := off.IsConst()
					if okA && okB && okC {
						site.Kind = "RAM"
						site.Array = strings.TrimPrefix(absint.PrettyPath(sn, sl.Base.Path), ".")
						site.SliceOff, site.SliceLen, site.RAMOffset = so, ln, ro
					} else {
						site.Kind = "bad"
						site.Desc = "RAM over a non-constant slice: " + absint.ValKey(sl)
					}
				} else {
					site.Kind = "bad"
					site.Desc = "RAM not over an array of the System"
				}
			}
		} else {
			site.Kind = "bad"
			site.Desc = "backend is not a known value: " + absint.ValKey(a[1])
		}
		sites = append(sites, site)
		return &absint.Top{Key: "nil"}, true // aligned attaches succeed (alignment is checked below)
	}
	_, out := ip.Call(fn, []absint.Val{s}, nil, &absint.State{Heap: absint.NewHeap(nil)})
	if out == nil || len(ip.Imprec) > 0 {
		R.Fail("attach-model", "CreateEmulator:analysable", pos, fmt.Sprintf("not interpretable along a single path: %v", ip.Imprec))
		return
	}
	R.Count("attach-calls", len(sites))
	R.Floor("attach-calls", 400)
	okModel := true
	for _, st := range sites {
		key := fmt.Sprintf("attach#%d:$%06X-$%06X", st.Seq, st.Start, st.End)
		switch {
		case st.Kind == "bad":
			okModel = false
			R.Fail("attach-model", key, st.Pos, st.Desc)
		case st.Start&0xF != 0 || (st.End+1)&0xF != 0 || st.End < st.Start || st.End > 0xFFFFFF:
			okModel = false
			R.Fail("attach-model", key, st.Pos, "range is not 16-byte aligned / not inside the 24-bit bus: Attach would refuse it and CreateEmulator would stop")
		case st.Start&0x1FFF != 0 || (st.End+1)&0x1FFF != 0:
			okModel = false
			R.Fail("attach-model", key, st.Pos, "range is not aligned to 8 KiB pages; the page model cannot decide it")
		case st.Kind == "RAM" && (uint64(st.Start) < st.RAMOffset || uint64(st.End)-st.RAMOffset >= st.SliceLen):
			okModel = false
			R.Fail("attach-model", key, st.Pos, fmt.Sprintf("addresses $%06X-$%06X minus the RAM offset $%X fall outside the %d-byte slice", st.Start, st.End, st.RAMOffset, st.SliceLen))
		}
	}
	if okModel {
		R.Pass("attach-model", "CreateEmulator", pos, fmt.Sprintf("%d Attach calls with constant page-aligned ranges and known backends", len(sites)))
	}
	// page map: last writer wins
	type backing struct {
		site *attachSite
	}
	var pages [nPages]*attachSite
	for i := range sites {
		st := &sites[i]
		if st.Kind == "bad" {
			continue
		}
		for p := st.Start >> pageBits; p <= st.End>>pageBits && p < nPages; p++ {
			pages[p] = st
		}
	}
	sums := mapperSums(ctx)["lorom"]
	if sums == nil || sums.FnB2P == nil {
		R.Fail("agree", "lorom", "", "lorom.BusAddressToPak not found")
		return
	}
	classBase := map[string]uint32{"ROM": 0, "SRAM": 0xE00000, "WRAM": 0xF50000}
	var bad []int
	why := map[int]string{}
	nBoth := 0
	for p := 0; p < nPages; p++ {
		st := pages[p]
		if st == nil {
			continue
		}
		if st.Kind != "RAM" {
			// backed by something that is not ROM/SRAM/WRAM (the I/O stub): the mapper
			// must not assign a memory class to this page
			if ms := sums.B2P[p]; ms.Kind == SumAffine {
				bad = append(bad, p)
				why[p] = fmt.Sprintf("bus %s is backed by %s in the emulator (attach#%d) but the mapper assigns it %s ($%06X)", pageRange(p), st.Desc, st.Seq, pakInputClass(ms.Base), ms.Base)
			}
			continue
		}
		base, isMem := classBase[st.Array]
		if !isMem {
			continue
		}
		ms := sums.B2P[p]
		if ms.Kind == SumNonUniform {
			bad = append(bad, p)
			why[p] = "mapper summary undecided for this page"
			continue
		}
		if ms.Kind != SumAffine {
			continue // the mapper does not consider it memory
		}
		nBoth++
		a := uint32(p) << pageBits
		idx := uint32(st.SliceOff) + (a - uint32(st.RAMOffset))
		mclass := pakInputClass(ms.Base)
		if mclass != st.Array {
			bad = append(bad, p)
			why[p] = fmt.Sprintf("bus %s is %s[$%X] in the emulator (attach#%d) but %s ($%06X) for the mapper", pageRange(p), st.Array, idx, st.Seq, mclass, ms.Base)
			continue
		}
		if ms.Base-base != idx {
			bad = append(bad, p)
			why[p] = fmt.Sprintf("bus %s is %s[$%X] in the emulator (attach#%d) but %s[$%X] for the mapper", pageRange(p), st.Array, idx, st.Seq, mclass, ms.Base-base)
		}
	}
	R.Count("pages-both-map", nBoth)
	R.Floor("pages-both-map", 500)
	for _, r := range pageRuns(bad) {
		R.Fail("agree", runKey(r), pos, why[r[0]])
	}
	if len(bad) == 0 {
		R.Pass("agree", "all-pages", pos, fmt.Sprintf("%d pages backed by ROM/SRAM/WRAM and mapped by LoROM: same class, same linear position", nBoth))
	}
	// ---- mirrors: a page the mapper sends to the same pak position as a page the emulator backs with memory
	// is a mirror of it; the mirrors the property names (bank bit 7; the low 8 KiB of the system banks) must be
	// backed as well (that they are then the same storage is `agree`)
	byPak := map[uint32][]int{}
	for p := 0; p < nPages; p++ {
		if ms := sums.B2P[p]; ms.Kind == SumAffine {
			byPak[ms.Base] = append(byPak[ms.Base], p)
		}
	}
	var missing []int
	whyM := map[int]string{}
	nMirror := 0
	for p := 0; p < nPages; p++ {
		st := pages[p]
		if st == nil || st.Kind != "RAM" || sums.B2P[p].Kind != SumAffine {
			continue
		}
		for _, q := range byPak[sums.B2P[p].Base] {
			if q == p {
				continue
			}
			named := q == p^(0x800000>>pageBits) || (pakInputClass(sums.B2P[p].Base) == "WRAM" && uint32(q<<pageBits)&0xFFFF < 0x2000 && uint32(q<<pageBits)>>16&0x7F < 0x40)
			if !named {
				continue
			}
			nMirror++
			if pages[q] == nil {
				missing = append(missing, q)
				whyM[q] = fmt.Sprintf("bus %s is a mirror of %s for the mapper (both $%06X) but nothing is attached there: an access fails instead of reaching the same storage", pageRange(q), pageRange(p), sums.B2P[p].Base)
			}
		}
	}
	sort.Ints(missing)
	var uniq []int
	for i, q := range missing {
		if i == 0 || q != missing[i-1] {
			uniq = append(uniq, q)
		}
	}
	R.Count("mirror-pairs", nMirror)
	for _, r := range pageRuns(uniq) {
		R.Fail("mirrors", runKey(r), pos, whyM[r[0]])
	}
	if len(uniq) == 0 {
		R.Pass("mirrors", "all", pos, fmt.Sprintf("%d (page, mirror) pairs: every named mirror of a backed page is backed", nMirror))
	}
	// ---- memory.RAM
	checkIOStubs(ctx, sites)
	ramT := ctx.Prog.Pkg("emulator/memory").Type("RAM")
	if ramT == nil {
		R.Fail("ram", "RAM", "", "memory.RAM not found")
		return
	}
	rn := ramT.Type().(*types.Named)
	// which fields of RAM hold the backing slice and the address offset: the ones the
	// constructor fills from its two parameters (so a renamed field is still recognised)
	dataF, offF := "data", "offset"
	if ctor := ctx.Prog.Func("emulator/memory", "NewRAM"); ctor != nil && len(ctor.Params) == 2 {
		cip := absint.New()
		bt := types.NewSlice(types.Typ[types.Byte])
		dv := cip.Load(&absint.State{Heap: absint.NewHeap(nil)}, &absint.Ptr{Obj: cip.SymObj("pdata", types.NewPointer(bt))}, bt)
		ov := absint.NewSym(32, cip.In.Atom("poffset", 32, 0xFFFFFFFF), false)
		res, _ := cip.Call(ctor, []absint.Val{dv, ov}, nil, &absint.State{Heap: absint.NewHeap(nil)})
		if sv, ok := res.(*absint.Struct); ok {
			if st, ok := rn.Underlying().(*types.Struct); ok && len(sv.F) == st.NumFields() {
				for fi, fv := range sv.F {
					switch x := fv.(type) {
					case *absint.Int:
						if x.Lin.Key() == "0+poffset" {
							offF = st.Field(fi).Name()
						}
					case *absint.Slice:
						if strings.Contains(absint.ValKey(x), "pdata") {
							dataF = st.Field(fi).Name()
						}
					}
				}
			}
		}
	}
	var keys [2]string
	okRam := true
	for i, name := range []string{"Read", "Write"} {
		mfn := ctx.Prog.Method("emulator/memory", "RAM", name)
		if mfn == nil {
			R.Fail("ram", name, "", "memory.RAM."+name+" not found")
			okRam = false
			continue
		}
		ip := absint.New()
		ip.TraceDyn = true
		recv := ip.Load(&absint.State{Heap: absint.NewHeap(nil)}, &absint.Ptr{Obj: ip.SymObj("m", rn)}, rn)
		addr := absint.NewSym(32, ip.In.Atom("address", 32, 0xFFFFFFFF), false)
		args := []absint.Val{recv, addr}
		var val *absint.Int
		if name == "Write" {
			val = absint.NewSym(8, ip.In.Atom("value", 8, 0xFF), false)
			args = append(args, val)
		}
		res, out := ip.Call(mfn, args, nil, &absint.State{Heap: absint.NewHeap(nil)})
		mpos := ctx.Prog.Pos(mfn.Pos())
		var evs []absint.Event
		for _, e := range ip.Events {
			if e.Kind == "dyn-load" || e.Kind == "dyn-store" {
				evs = append(evs, e)
			}
		}
		if out == nil || len(ip.Imprec) > 0 || len(evs) != 1 {
			R.Fail("ram", name, mpos, fmt.Sprintf("not a single indexed access: %d accesses, %v", len(evs), ip.Imprec))
			okRam = false
			continue
		}
		e := evs[0]
		idx := e.Args[0].(*absint.Int)
		keys[i] = idx.Lin.Key()
		base := absint.ValKey(e.Args[1])
		wantKind := map[string]string{"Read": "dyn-load", "Write": "dyn-store"}[name]
		if e.Kind != wantKind || !strings.Contains(base, "m."+dataF) {
			R.Fail("ram", name, mpos, fmt.Sprintf("%s performs %s on %s", name, e.Kind, base))
			okRam = false
		}
		// the access happens for every address: the only condition it may sit under is the in-bounds test
		// of the very index it uses (any other guard makes some cell of the window unreadable / unwritable)
		{
			o := ip.Ops
			bc := &absint.BoolCtx{Conds: ip.In.Conds, O: &o}
			okProps := map[string]bool{}
			for _, w := range []int{32, 64} {
				for _, sg := range []bool{false, true} {
					l := absint.NewSym(64, ip.In.Atom("len(m."+dataF+")", 64, 1<<40), true)
					if p, v := propOf(bc, "<", o.Convert(idx, w, false, sg), o.Convert(l, w, true, sg)); p != "" {
						okProps[fmt.Sprintf("%s=%v", p, v)] = true
					}
				}
			}
			for _, g := range e.GuardL {
				acc := false
				if g.Cmp != nil {
					for p, v := range guardProps(bc, []absint.GuardInfo{g}) {
						if okProps[fmt.Sprintf("%s=%v", p, v)] {
							acc = true
						}
					}
				}
				if !acc {
					R.Fail("ram", name+":conditional", mpos, fmt.Sprintf("%s touches the cell only when %s is %v: some addresses of the window are not served", name, g.Key, g.Outcome))
					okRam = false
				}
			}
		}
		if name == "Write" {
			if v, ok := e.Args[2].(*absint.Int); !ok || v.Lin.Key() != val.Lin.Key() {
				R.Fail("ram", "Write:value", mpos, "Write does not store the value it is given")
				okRam = false
			}
		} else if rv, ok := res.(*absint.Int); !ok || !strings.Contains(rv.Lin.Key(), "([m."+dataF+"])[") {
			R.Fail("ram", "Read:value", mpos, "Read does not return the loaded cell: "+fmtVal(res))
			okRam = false
		}
	}
	want := "zext32(0+address+-1*m." + offF + ")"
	if okRam {
		if keys[0] != keys[1] || !strings.Contains(keys[0], want) {
			R.Fail("ram", "index", "", fmt.Sprintf("Read indexes data[%s], Write indexes data[%s]; want data[address-offset] in both", keys[0], keys[1]))
		} else {
			R.Pass("ram", "memory.RAM", "", "Read and Write access data[address-offset]")
		}
	}
}

// checkIOStubs: per dynamic type of the other backends, the offsets inside a bank they are attached for; Read and
// Write are interpreted for an address bank<<16 | offset with the offset anywhere in that range and must return
// without a possibly-out-of-range array index.
func checkIOStubs(ctx *Ctx, sites []attachSite) {
	R := ctx.R
	type rng struct {
		lo, hi uint32
		t      types.Type
		pos    string
	}
	byType := map[string]*rng{}
	for _, st := range sites {
		if st.Kind != "other" || st.Dyn == nil {
			continue
		}
		if st.Start>>16 != st.End>>16 {
			R.Fail("io-stub", st.Dyn.String()+":range", st.Pos, fmt.Sprintf("attached across banks ($%06X-$%06X): not judged", st.Start, st.End))
			continue
		}
		k := st.Dyn.String()
		lo, hi := st.Start&0xFFFF, st.End&0xFFFF
		if r := byType[k]; r == nil {
			byType[k] = &rng{lo, hi, st.Dyn, st.Pos}
		} else {
			if lo < r.lo {
				r.lo = lo
			}
			if hi > r.hi {
				r.hi = hi
			}
		}
	}
	var names []string
	for k := range byType {
		names = append(names, k)
	}
	sort.Strings(names)
	R.Count("io-stub-types", len(names))
	for _, k := range names {
		r := byType[k]
		ms := ctx.Prog.SSA.MethodSets.MethodSet(r.t)
		for _, mn := range []string{"Read", "Write"} {
			var fn *ssa.Function
			for i := 0; i < ms.Len(); i++ {
				if ms.At(i).Obj().Name() == mn {
					fn = ctx.Prog.SSA.MethodValue(ms.At(i))
				}
			}
			key := strings.TrimPrefix(k, "*"+load.ModulePath+"/") + "." + mn
			if fn == nil {
				R.Fail("io-stub", key, r.pos, "method not found")
				continue
			}
			ip := absint.New()
			ip.UnrollLoops = true
			ip.TraceDyn = true
			var recv absint.Val
			if pt, isPtr := r.t.Underlying().(*types.Pointer); isPtr {
				recv = &absint.Ptr{Nil: absint.TriF, Obj: ip.SymObj("hw", pt.Elem()), T: pt.Elem()}
			} else {
				recv = ip.Load(&absint.State{Heap: absint.NewHeap(nil)}, &absint.Ptr{Obj: ip.SymObj("hw", r.t)}, r.t)
			}
			o := ip.Ops
			off := o.Add(absint.NewConst(32, uint64(r.lo), false), absint.NewSym(32, ip.In.Atom("off", 16, uint64(r.hi-r.lo)), false))
			addr := o.Or(o.Shl(absint.NewSym(32, ip.In.Atom("bank", 8, 0xFF), false), absint.NewConst(32, 16, false)), off)
			args := []absint.Val{recv, addr}
			if mn == "Write" {
				args = append(args, absint.NewSym(8, ip.In.Atom("value", 8, 0xFF), false))
			}
			_, out := ip.Call(fn, args, nil, &absint.State{Heap: absint.NewHeap(nil)})
			msg := ""
			for _, e := range ip.Events {
				if e.Kind == "index-range" || e.Kind == "panic" || e.Kind == "fatal" {
					msg = fmt.Sprintf("%s at %s (%s) for an offset in $%04X-$%04X", e.Kind, ctx.Prog.Pos(e.Pos), e.Callee, r.lo, r.hi)
				}
			}
			switch {
			case len(ip.Imprec) > 0:
				R.Fail("io-stub", key, ctx.Prog.Pos(fn.Pos()), fmt.Sprintf("not interpretable: %v", ip.Imprec))
			case out == nil:
				R.Fail("io-stub", key, ctx.Prog.Pos(fn.Pos()), "does not return")
			case msg != "":
				R.Fail("io-stub", key, ctx.Prog.Pos(fn.Pos()), msg)
			default:
				R.Pass("io-stub", key, ctx.Prog.Pos(fn.Pos()), fmt.Sprintf("every offset $%04X-$%04X of every bank is served in range", r.lo, r.hi))
			}
		}
	}
}
