package rules

import (
	"encoding/json"
	"fmt"
	"os"
	"path/filepath"
	"sort"
	"strconv"
	"strings"

	"golang.org/x/tools/go/ssa"

	"verif/tool/absint"
)

func init() { register("C01", "other", C01) }

type effectSig struct {
	May []string `json:"may"`
	SP  string   `json:"sp"`
	Mem bool     `json:"mem"`
	PC  string   `json:"pc"`
}

type effectsRef struct {
	Bookkeeping []string             `json:"bookkeeping"`
	Effects     map[string]effectSig `json:"effects"`
}

func loadEffects(ctx *Ctx) (*effectsRef, error) {
	b, err := os.ReadFile(filepath.Join(ctx.VerifDir, "ref", "isa_effects.json"))
	if err != nil {
		return nil, err
	}
	r := &effectsRef{}
	return r, json.Unmarshal(b, r)
}

// spDelta evaluates a stack-pointer delta spec for a cell; ok=false for "set".
func spDelta(spec string, m, x int) (int, bool) {
	if spec == "set" {
		return 0, false
	}
	if strings.HasPrefix(spec, "m:") || strings.HasPrefix(spec, "x:") {
		p := strings.Split(spec, ":")
		f := m
		if p[0] == "x" {
			f = x
		}
		s := p[2]
		if f == 1 {
			s = p[1]
		}
		d, _ := strconv.Atoi(s)
		return d, true
	}
	d, _ := strconv.Atoi(spec)
	return d, true
}

type aggMap map[string]*aggEntry
type aggEntry struct {
	ops map[int]bool
	pos string
	ex  string
	n   int
}

func (a aggMap) add(key string, op int, pos, ex string) {
	g := a[key]
	if g == nil {
		g = &aggEntry{ops: map[int]bool{}, pos: pos}
		a[key] = g
	}
	g.ops[op] = true
	g.n++
	if g.ex == "" {
		g.ex = ex
	}
}

func (a aggMap) keys() []string {
	var ks []string
	for k := range a {
		ks = append(ks, k)
	}
	sort.Strings(ks)
	return ks
}

func valDeps(v absint.Val) []*absint.Atom {
	switch x := v.(type) {
	case *absint.Int:
		return absint.LinDeps(x.Lin)
	case *absint.Bool:
		var d []*absint.Atom
		if x.Cmp != nil {
			d = append(d, valDeps(x.Cmp.X)...)
			d = append(d, valDeps(x.Cmp.Y)...)
		}
		return d
	case *absint.Tuple:
		var d []*absint.Atom
		for _, e := range x.E {
			d = append(d, valDeps(e)...)
		}
		return d
	}
	return nil
}

func C01(ctx *Ctx) {
	R := ctx.R
	R.Explanation = "Structural necessary conditions of 'each interpreter follows the WDC model', decided for both packages. (1) decode/handler: the opcode tables (read out of the interpreted initialisers) against the independently authored opcode matrix: index, mnemonic, length, partition of opcodes by addressing mode, one routine per mnemonic; decoded length per (opcode,M,X) = value of stepPC at the dispatch call in the Step cell. (2) mode-exhaustive: no 'unknown mode' arm (a logging call) is live in any cell. (3) authoritative-copy: in no cell does the stale copy of A/X/Y (RA under M=1, RAl/RAh under M=0, RX/RY under X=1, RXl/RYl under X=0) flow into another field, a bus access or a branch. (4) effect-signature (E=0, no interrupt): every CPU field outside the mnemonic's may-change set is provably unchanged, PC' = PC + length for non-transfer opcodes, SP' = SP + k, memory written only by storing mnemonics. (5) flags01: flag bytes stay in {0,1}. Computed values (ALU results, flag values, address arithmetic inside a bank, BCD, pushed bytes) are NOT decided."
	R.Trusted = []string{"go/packages + go/ssa", "absint transfer functions", "ref/isa65816.json and ref/isa_effects.json (authored from the WDC data sheet)", "user callbacks do not modify the CPU"}
	R.Rule("decode", "table entry k has opcode k, the reference mnemonic and length; opcodes share a mode constant exactly when the reference gives them the same (folded) addressing mode; the length Step decodes for (k,M,X) is the architectural one")
	R.Rule("handler", "every entry has a routine; entries with equal reference mnemonic share one routine and different mnemonics have different routines (jmp/jml share)")
	R.Rule("mode-exhaustive", "no call leaving the module other than user callbacks (the logging of an 'unknown mode' arm) is live in any Step cell")
	R.Rule("authoritative-copy", "the non-authoritative copy of A, X or Y never flows into another CPU field, a bus access or a branch condition")
	R.Rule("effect-signature", "in E=0 cells without pending interrupt: fields outside the mnemonic's may-change set are unchanged; PC/SP deltas and memory writes match the reference signature")
	R.Rule("flags01", "every flag byte is 0 or 1 at the end of every cell (given it was at the start)")
	R.Rule("value", "in E=0 cells without pending interrupt the post-state equals the one the WDC model prescribes, as abstract terms over the entry state: authoritative register copies, SP, D, DBR, K, PC, every status flag (as a boolean function of canonical propositions), every byte written to operand or stack and the stack bytes pulled; binary arithmetic only (decimal mode is compared separately)")
	R.Rule("operand-access", "in E=0 cells without pending interrupt the addresses read and written besides instruction bytes and stack traffic are exactly the terms the WDC addressing-mode definitions prescribe (bank-0 wrap of direct-page / stack-relative / (abs) / [abs] pointers, program-bank wrap of (abs,X) pointers, 24-bit effective addresses with the index added across bank boundaries, second data byte at EA+1 mod 2^24)")
	isa, err := loadISA(ctx)
	if err != nil {
		R.Fail("decode", "reference", "", err.Error())
		return
	}
	eff, err := loadEffects(ctx)
	if err != nil {
		R.Fail("effect-signature", "reference", "", err.Error())
		return
	}
	sw := cpuSweep(ctx)
	R.Floor("cpu-cells", 2*6144)
	R.Floor("table-entries", 512)
	book := map[string]bool{}
	for _, b := range eff.Bookkeeping {
		book[b] = true
	}
	for _, rel := range cpuRels {
		m := sw.Models[rel]
		rs := relShort(rel)
		if m.Err != "" {
			R.Fail("decode", rs+":model", "", m.Err)
			continue
		}
		t := m.Table
		pos := ""
		if t.BuildFn != nil {
			pos = ctx.Prog.Pos(t.BuildFn.Pos())
		}
		// ---- decode: table vs reference
		modeToRef := map[uint64]map[string]bool{}
		refToMode := map[string]map[uint64]bool{}
		for k := 0; k < 256; k++ {
			e := t.E[k]
			ref := isa.Ops[k]
			key := fmt.Sprintf("%s:%02X", rs, k)
			R.Count("table-entries", 1)
			switch {
			case !e.Known:
				R.Fail("decode", key, pos, "table entry is not a compile-time constant")
				continue
			case int(e.Opcode) != k:
				R.Fail("decode", key, pos, fmt.Sprintf("entry at index %02X declares opcode %02X", k, e.Opcode))
			case !sameMnemonic(e.Name, ref.Mn):
				R.Fail("decode", key, pos, fmt.Sprintf("mnemonic %q, reference %s %s", e.Name, ref.Mn, ref.Mode))
			case int(e.Size) != ref.Len && !(ref.Mode == "imm8s" && e.Size == 1):
				R.Fail("decode", key, pos, fmt.Sprintf("size %d, reference %s %s has length %d", e.Size, ref.Mn, ref.Mode, ref.Len))
			default:
				R.Pass("decode", key, pos, fmt.Sprintf("%s %s len %d", ref.Mn, ref.Mode, ref.Len))
			}
			fm := foldedMode(ref.Mode)
			if ref.Mode == "imm8s" {
				continue // BRK: implied or immediate are both accepted
			}
			if modeToRef[e.Mode] == nil {
				modeToRef[e.Mode] = map[string]bool{}
			}
			modeToRef[e.Mode][fm] = true
			if refToMode[fm] == nil {
				refToMode[fm] = map[uint64]bool{}
			}
			refToMode[fm][e.Mode] = true
		}
		partOK := true
		for mv, refs := range modeToRef {
			if len(refs) != 1 {
				partOK = false
				var ops []string
				for k := 0; k < 256; k++ {
					if t.E[k].Mode == mv {
						ops = append(ops, fmt.Sprintf("%02X=%s", k, isa.Ops[k].Mode))
					}
				}
				R.Fail("decode", fmt.Sprintf("%s:mode-partition:value-%d", rs, mv), pos, fmt.Sprintf("one mode constant covers opcodes of different addressing modes %v: %s", sortedKeys(refs), strings.Join(ops, " ")))
			}
		}
		for fm, mvs := range refToMode {
			if len(mvs) != 1 {
				partOK = false
				R.Fail("decode", fmt.Sprintf("%s:mode-partition:%s", rs, fm), pos, fmt.Sprintf("opcodes of addressing mode %s are split over %d mode constants", fm, len(mvs)))
			}
		}
		if partOK {
			R.Pass("decode", rs+":mode-partition", pos, fmt.Sprintf("%d mode constants correspond one-to-one to the %d reference modes", len(modeToRef), len(refToMode)))
		}
		// ---- handler
		byMn := map[string]*ssa.Function{}
		byFn := map[*ssa.Function]string{}
		hOK := true
		for k := 0; k < 256; k++ {
			e := t.E[k]
			mn := isa.Ops[k].Mn
			if mn == "jml" {
				mn = "jmp"
			}
			key := fmt.Sprintf("%s:%02X", rs, k)
			if e.Proc == nil {
				R.Fail("handler", key, pos, "entry has no resolvable routine")
				hOK = false
				continue
			}
			if f, ok := byMn[mn]; ok && f != e.Proc {
				R.Fail("handler", key, pos, fmt.Sprintf("%s is dispatched to %s here but to %s elsewhere", mn, fnShort(e.Proc), fnShort(f)))
				hOK = false
			}
			byMn[mn] = e.Proc
			if o, ok := byFn[e.Proc]; ok && o != mn {
				R.Fail("handler", key, pos, fmt.Sprintf("routine %s serves both %s and %s", fnShort(e.Proc), o, mn))
				hOK = false
			}
			byFn[e.Proc] = mn
		}
		if hOK {
			R.Pass("handler", rs, pos, fmt.Sprintf("256 entries, %d routines, one per mnemonic", len(byFn)))
		}
		// ---- cell-based rules
		decodeBad, modeBad, authBad, effBad, flagBad := aggMap{}, aggMap{}, aggMap{}, aggMap{}, aggMap{}
		nEff := 0
		for _, r := range sw.Results[rel] {
			c := r.Cell
			ref := isa.Ops[c.Opcode]
			cellS := c.String()
			// decoded length
			if c.IntrIdx == 0 {
				want := ref.Len
				if ref.Dep == "m" {
					want -= c.M
				}
				if ref.Dep == "x" {
					want -= c.X
				}
				got, _ := r.AtDispatch["stepPC"].(*absint.Int)
				gc, gok := uint64(0), false
				if got != nil {
					gc, gok = got.IsConst()
				}
				if !(gok && int(gc) == want) && !(ref.Mode == "imm8s" && gok && gc == 1) {
					decodeBad.add(fmt.Sprintf("%s:length:%02X", rs, c.Opcode), c.Opcode, ctx.Prog.Pos(m.Step.Pos()),
						fmt.Sprintf("cell %s: Step decodes length %s, reference %d (%s %s)", cellS, fmtVal(r.AtDispatch["stepPC"]), want, ref.Mn, ref.Mode))
				}
			}
			// mode-exhaustive
			for _, e := range r.Events {
				if e.Kind == "ext-call" || e.Kind == "fatal" {
					modeBad.add(fmt.Sprintf("%s:%s:%s", rs, fnShort(e.Fn), e.Callee), c.Opcode, ctx.Prog.Pos(e.Pos), "cell "+cellS+" via "+shortStack(e.Stack))
				}
			}
			// flags01
			for _, f := range m.FlagNames {
				if v, ok := r.Final[f].(*absint.Int); ok && v.Hi > 1 {
					flagBad.add(fmt.Sprintf("%s:%s", rs, f), c.Opcode, "", fmt.Sprintf("cell %s: %s may become %s", cellS, f, v))
				}
			}
			// authoritative copy
			stale := map[string]bool{}
			if c.M == 1 {
				stale["cpu.RA"] = true
			} else {
				stale["cpu.RAl"], stale["cpu.RAh"] = true, true
			}
			if c.X == 1 {
				stale["cpu.RX"], stale["cpu.RY"] = true, true
			} else {
				stale["cpu.RXl"], stale["cpu.RYl"] = true, true
			}
			staleIn := func(v absint.Val) string {
				for _, d := range valDeps(v) {
					if stale[d.Key] {
						return d.Key
					}
				}
				return ""
			}
			via := "Step"
			if r.Dispatched != nil {
				via = r.Dispatched.Name()
			}
			// architectural state at exit = the copies that are authoritative under the
			// *exit* widths. Every leaf of a field's gated term on which the field is
			// (or may be) authoritative at exit must be free of atoms that were stale at
			// entry — including the field's own stale entry value (a width switch that
			// does not rebuild the copy).
			govern := map[string]struct {
				flag string
				auth uint64
			}{"RA": {"M", 0}, "RAl": {"M", 1}, "RAh": {"M", 1}, "RX": {"X", 0}, "RY": {"X", 0}, "RXl": {"X", 1}, "RYl": {"X", 1}}
			// emulation mode forces 8-bit registers: E=1 with M=0 or X=0 is not a valid processor state
			validState := c.E == 0 || (c.M == 1 && c.X == 1)
			for name, fv := range r.Final {
				if !validState {
					break
				}
				iv, isInt := fv.(*absint.Int)
				if !isInt {
					if s := staleIn(fv); s != "" && "cpu."+name != s {
						authBad.add(fmt.Sprintf("%s:%s:%s->%s", rs, via, strings.TrimPrefix(s, "cpu."), name), c.Opcode, "", fmt.Sprintf("cell %s: %s = %s", cellS, name, fmtVal(fv)))
					}
					continue
				}
				g, governed := govern[name]
				for _, lf := range termLeaves(iv.Lin, nil, 64) {
					if governed {
						if fl, ok := r.Final[g.flag].(*absint.Int); ok {
							ex := absint.Restrict(fl.Lin, lf.guards)
							if ex.IsConst() && ex.C != g.auth {
								continue // not authoritative at exit on this path: invisible
							}
							// the exit width may be settled by the path's conditions without being a
							// merge under them (a flag computed first, tested afterwards)
							if !ex.IsConst() && fl.Hi <= 1 {
								bc := &absint.BoolCtx{Conds: r.Conds}
								env := map[string]bool{}
								for k, v := range lf.guards {
									ge := bc.CondExpr(k)
									for ge.Op == "not" {
										ge, v = ge.A[0], !v
									}
									if ge.Op == "var" {
										env[ge.V] = v
									}
								}
								if fe := bc.BitOf(ex, 0).Assign(env); fe.Op == "const" && fe.K != (g.auth == 1) {
									continue
								}
							}
						}
					}
					for _, d := range absint.LinDeps(lf.lin) {
						if stale[d.Key] {
							authBad.add(fmt.Sprintf("%s:%s:%s->%s", rs, via, strings.TrimPrefix(d.Key, "cpu."), name), c.Opcode, "", fmt.Sprintf("cell %s: on the path %v, %s = %s", cellS, lf.guards, name, trunc(lf.lin.Key())))
						}
					}
				}
			}
			for _, a := range r.Accesses {
				for _, v := range []*absint.Int{a.Addr, a.Data} {
					if v == nil || (!a.Write && v == a.Data) {
						continue
					}
					if s := staleIn(v); s != "" {
						authBad.add(fmt.Sprintf("%s:%s:%s->bus", rs, via, strings.TrimPrefix(s, "cpu.")), c.Opcode, ctx.Prog.Pos(a.Pos), fmt.Sprintf("cell %s: bus access uses %s", cellS, v))
					}
				}
			}
			for i, b := range r.Branches {
				if s := staleIn(b); s != "" {
					authBad.add(fmt.Sprintf("%s:%s:%s->branch", rs, r.BranchFns[i].Name(), strings.TrimPrefix(s, "cpu.")), c.Opcode, "", fmt.Sprintf("cell %s: branch on %s", cellS, absint.ValKey(b)))
				}
			}
			// effect signature
			if c.E == 0 && c.IntrIdx == 0 {
				nEff++
				sig, ok := eff.Effects[ref.Mn]
				if !ok {
					effBad.add(rs+":no-signature:"+ref.Mn, c.Opcode, "", "no reference signature")
					continue
				}
				may := map[string]bool{}
				for _, f := range sig.May {
					may[f] = true
				}
				for name, fv := range r.Final {
					if book[name] || may[name] || name == "PC" || name == "SP" {
						continue
					}
					ev := r.Entry[name]
					if _, isInt := fv.(*absint.Int); !isInt {
						if _, isBool := fv.(*absint.Bool); !isBool {
							continue // pointers, maps, callbacks
						}
					}
					if absint.ValKey(ev) != absint.ValKey(fv) {
						effBad.add(fmt.Sprintf("%s:%s:changes-%s", rs, ref.Mn, name), c.Opcode, "", fmt.Sprintf("cell %s: %s: %s -> %s", cellS, name, absint.ValKey(ev), fmtVal(fv)))
					}
				}
				pc0, _ := r.Entry["PC"].(*absint.Int)
				pc1, _ := r.Final["PC"].(*absint.Int)
				if pc0 != nil && pc1 != nil && sig.PC == "next" {
					l := ref.Len
					if ref.Dep == "m" {
						l -= c.M
					}
					if ref.Dep == "x" {
						l -= c.X
					}
					want := linPlus(pc0, l)
					if pc1.Lin.Key() != want {
						effBad.add(fmt.Sprintf("%s:%s:PC", rs, ref.Mn), c.Opcode, "", fmt.Sprintf("cell %s: PC' = %s, want PC+%d", cellS, pc1, l))
					}
				}
				sp0, _ := r.Entry["SP"].(*absint.Int)
				sp1, _ := r.Final["SP"].(*absint.Int)
				if d, fixed := spDelta(sig.SP, c.M, c.X); fixed && sp0 != nil && sp1 != nil {
					if sp1.Lin.Key() != linPlus(sp0, d) {
						effBad.add(fmt.Sprintf("%s:%s:SP", rs, ref.Mn), c.Opcode, "", fmt.Sprintf("cell %s: SP' = %s, want SP%+d", cellS, sp1, d))
					}
				}
				if !sig.Mem {
					for _, a := range r.Accesses {
						if a.Write {
							effBad.add(fmt.Sprintf("%s:%s:writes-memory", rs, ref.Mn), c.Opcode, ctx.Prog.Pos(a.Pos), fmt.Sprintf("cell %s: writes %s", cellS, a.Addr))
						}
					}
				}
			}
		}
		R.Count("effect-cells", nEff)
		emit := func(rule string, a aggMap, okKey, okMsg string) {
			for _, k := range a.keys() {
				g := a[k]
				R.Fail(rule, k, g.pos, fmt.Sprintf("opcodes %s (%d cells); e.g. %s", opSet(g.ops), g.n, g.ex))
			}
			if len(a) == 0 {
				R.Pass(rule, okKey, "", okMsg)
			}
		}
		emit("decode", decodeBad, rs+":length", "decoded length equals the architectural length in all 2048 (opcode,M,X,E) cells")
		emit("mode-exhaustive", modeBad, rs, "no unknown-mode arm live in any cell")
		emit("authoritative-copy", authBad, rs, "no stale register copy flows anywhere")
		emit("effect-signature", effBad, rs, fmt.Sprintf("%d native-mode cells match the reference signatures", nEff))
		emit("flags01", flagBad, rs, "all flag bytes stay in {0,1}")
		checkOperandAccess(ctx, isa, rs, sw.Results[rel])
		checkValues(ctx, isa, m, rs, sw.Results[rel])
	}
	R.Floor("effect-cells", 2*1024)
	R.Analysed["cells"] = "2 packages x 256 opcodes x M,X,E x 3 interrupt states"
}

// linPlus returns the key of v + d (mod 2^W).
func linPlus(v *absint.Int, d int) string {
	o := absint.Ops{In: absint.NewInterner()}
	return o.Add(v, absint.NewConst(v.W, uint64(int64(d)), false)).Lin.Key()
}

type termLeaf struct {
	guards map[string]bool
	lin    *absint.Lin
}

// termLeaves expands the gated merges of a term into its guarded alternatives.
func termLeaves(l *absint.Lin, guards map[string]bool, budget int) []termLeaf {
	if guards == nil {
		guards = map[string]bool{}
	}
	l = absint.Restrict(l, guards)
	for _, t := range l.T {
		if t.A.IteT != nil {
			if _, done := guards[t.A.IteCond]; done {
				continue
			}
			if budget <= 1 {
				break
			}
			var out []termLeaf
			for _, v := range []bool{true, false} {
				g := map[string]bool{}
				for k, x := range guards {
					g[k] = x
				}
				g[t.A.IteCond] = v
				out = append(out, termLeaves(l, g, budget/2)...)
			}
			return out
		}
	}
	return []termLeaf{{guards, l}}
}
