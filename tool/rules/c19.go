package rules

import (
	"fmt"
	"go/token"
	"go/types"
	"sort"
	"strings"

	"golang.org/x/tools/go/ssa"

	"verif/tool/absint"
)

func init() { register("C19", "other", C19) }

// findWriter returns the Emitter's writer: the unexported method taking the bytes to
// emit as a []byte, called by every emit helper.
func findWriter(ems []*emitting) *ssa.Function {
	count := map[*ssa.Function]int{}
	for _, e := range ems {
		for _, r := range e.Runs {
			for _, w := range r.Writers {
				count[w.Fn]++
			}
		}
	}
	var best *ssa.Function
	for f, n := range count {
		if best == nil || n > count[best] {
			best = f
		}
	}
	return best
}

// capacityGuard recognises a guard meaning "need <= cap" (accept=true) or its negation
// (accept=false), however the comparison is arranged (n+len(d) > len(code),
// len(d) <= len(code)-n, ...): the comparison is brought into the form L <= R or L < R
// and R-L compared, as a linear form, with cap-need. needKey / capKey are passed as the
// keys "need" and "cap" would have; the forms themselves are taken from the guard.
type capSpec struct {
	o         absint.Ops
	need, cap *absint.Int
}

func (cs capSpec) guard(g absint.GuardInfo) (accept, ok bool) {
	if g.Cmp == nil || cs.need == nil || cs.cap == nil {
		return false, false
	}
	x, _ := g.Cmp.X.(*absint.Int)
	y, _ := g.Cmp.Y.(*absint.Int)
	if x == nil || y == nil || x.W != y.W || x.W != cs.need.W {
		return false, false
	}
	op := g.Cmp.Op
	if !g.Outcome {
		op = map[string]string{">": "<=", ">=": "<", "<": ">=", "<=": ">", "==": "!=", "!=": "=="}[op]
	}
	var l, r *absint.Int
	strict := false
	switch op {
	case "<=":
		l, r = x, y
	case "<":
		l, r, strict = x, y, true
	case ">=":
		l, r = y, x
	case ">":
		l, r, strict = y, x, true
	default:
		return false, false
	}
	d := cs.o.Sub(r, l).Lin.Key()
	slack := cs.o.Sub(cs.cap, cs.need).Lin.Key()
	over := cs.o.Sub(cs.need, cs.cap).Lin.Key()
	switch {
	case d == slack && !strict: // need <= cap
		return true, true
	case d == over && strict: // cap < need
		return false, true
	}
	return false, false
}

func capacityGuard(g absint.GuardInfo, cs capSpec) (accept, ok bool) { return cs.guard(g) }

// advancedByCopy: n1 is n0 plus what the copy transferred - its result, or the length
// of its source where the capacity guard in force makes the copy complete.
func advancedByCopy(o absint.Ops, n0, n1 *absint.Int, cp absint.Event, cs capSpec) bool {
	if n0 == nil || n1 == nil {
		return false
	}
	if r, ok := cp.Result.(*absint.Int); ok && o.Add(n0, o.Convert(r, n0.W, true, n0.Signed)).Lin.Key() == n1.Lin.Key() {
		return true
	}
	if len(cp.Args) == 2 {
		if src, ok := cp.Args[1].(*absint.Slice); ok && src.Len != nil && o.Add(n0, o.Convert(src.Len, n0.W, true, n0.Signed)).Lin.Key() == n1.Lin.Key() {
			for _, g := range cp.PathL {
				if acc, is := cs.guard(g); is && acc {
					return true
				}
			}
		}
	}
	return false
}

func C19(ctx *Ctx) {
	R := ctx.R
	R.Explanation = "bounded: the writer is interpreted with a symbolic target and payload; its copy and every store it performs carry the guard n+len(d) <= len(code) (the comparison in force on all paths to them), the only other path panics without any store, and with a nil target it returns at once - so n never exceeds the capacity and a refused write changes nothing. order: over the call graph (mod-sets, engine E2), in every function from which the writer is reachable, each instruction that may modify n, address, labels or the dangling-reference maps (directly or through a callee that is not itself safe) is dominated by a call that always passes through the writer; the bytes of the target are stored only by the writer. dry-run: for every emitting method, Label and EmitBytes, the abstract results of the cell without a target equal those of the cell with one for address, tracked flags, label / dangling-map updates and the returned label address (syntactic equality of terms, so they cannot depend on the target, n or the writer's results)."
	R.Trusted = []string{"go/packages + go/ssa", "absint", "mod-set analysis of tool/rules/modset.go", "listing state (lines, baseSet) on a refused EmitBytes is outside the guaranteed set"}
	R.Rule("bounded", "the writer copies and advances n only under n+len(d) <= len(code); otherwise it panics before any store; without a target it does nothing")
	R.Rule("order", "no emitting function can modify n, address, labels or dangling references before the writer has accepted the bytes; only the writer stores into the target")
	R.Rule("dry-run", "an emitter without a target computes the same address, tracked flags and label bookkeeping as one with a target")
	ems, roles := emitAll(ctx)
	if len(roles.Err) > 0 {
		for _, e := range roles.Err {
			R.Fail("bounded", "roles:"+e, "", e)
		}
		return
	}
	writer := findWriter(ems)
	if writer == nil {
		R.Fail("bounded", "writer", "", "no writer method found")
		return
	}
	wpos := ctx.Prog.Pos(writer.Pos())
	S := roles.Struct
	// ---- bounded
	for _, nilTarget := range []bool{false, true} {
		run := runEmitter(ctx, roles, writer, EmitCell{CodeNil: nilTarget})
		cell := "with-target"
		if nilTarget {
			cell = "no-target"
		}
		if len(run.Imprec) > 0 {
			R.Fail("bounded", "writer:"+cell+":analysable", wpos, fmt.Sprintf("not interpretable: %v", run.Imprec))
			continue
		}
		var copies, panics []absint.Event
		for _, e := range run.Events {
			switch e.Kind {
			case "copy":
				copies = append(copies, e)
			case "panic":
				panics = append(panics, e)
			}
		}
		if nilTarget {
			changed := false
			for i := 0; i < S.NumFields(); i++ {
				if absint.ValKey(run.Entry[i]) != absint.ValKey(run.Final[i]) {
					changed = true
				}
			}
			if !run.Returned || len(copies) > 0 || len(panics) > 0 || changed {
				R.Fail("bounded", "writer:no-target", wpos, fmt.Sprintf("without a target the writer must return without effect (returned=%v copies=%d panics=%d changed=%v)", run.Returned, len(copies), len(panics), changed))
			} else {
				R.Pass("bounded", "writer:no-target", wpos, "returns at once, no effect")
			}
			continue
		}
		n0, _ := run.Entry[roles.N].(*absint.Int)
		var dlen *absint.Int
		if len(run.Params) > 0 {
			if sl, ok := run.Params[0].(*absint.Slice); ok {
				dlen = sl.Len
			}
		}
		code, _ := run.Entry[roles.Code].(*absint.Slice)
		if n0 == nil || dlen == nil || code == nil {
			R.Fail("bounded", "writer:shape", wpos, "cannot identify n, the payload length and the target")
			continue
		}
		o := run.IP.Ops
		cs := capSpec{o: o, need: o.Add(n0, dlen), cap: code.Len}
		msg := ""
		if len(copies) != 1 {
			msg = fmt.Sprintf("%d copies, want 1", len(copies))
		}
		for _, c := range copies {
			ok := false
			for _, g := range c.GuardL {
				if acc, is := capacityGuard(g, cs); is && acc {
					ok = true
				}
			}
			if !ok {
				msg = "the copy into the target is not guarded by n+len(d) <= len(code)"
			}
		}
		for _, s := range run.Stores {
			if s.Obj != run.Recv.Obj {
				continue
			}
			ok := false
			for _, g := range s.GuardL {
				if acc, is := capacityGuard(g, cs); is && acc {
					ok = true
				}
			}
			if !ok && s.Fn == writer {
				msg = fmt.Sprintf("a store to the Emitter%s in the writer is not guarded by n+len(d) <= len(code)", absint.PrettyPath(roles.Named, s.Path))
			}
		}
		if len(panics) != 1 {
			msg = fmt.Sprintf("%d refusing paths, want exactly one panic when the bytes do not fit", len(panics))
		}
		// n advances by the copied count only
		n1, _ := run.Final[roles.N].(*absint.Int)
		if len(copies) == 1 && n1 != nil {
			if !advancedByCopy(o, n0, n1, copies[0], cs) {
				msg = fmt.Sprintf("n after the write is %s, want n + copied count", n1)
			}
		}
		if msg != "" {
			R.Fail("bounded", "writer:with-target", wpos, msg)
		} else {
			R.Pass("bounded", "writer:with-target", wpos, "copy and n += copied only under n+len(d) <= len(code); otherwise panic before any store")
		}
	}
	// ---- order (mod-sets + dominance)
	checkEmitOrder(ctx, roles, writer)
	// ---- dry-run
	type mcell struct{ m8, x8, text bool }
	var subjects []*emitting
	subjects = append(subjects, ems...)
	for _, name := range []string{"Label", "EmitBytes", "Comment", "SetBase"} {
		if fn := ctx.Prog.Method("asm", "Emitter", name); fn != nil {
			e := &emitting{Fn: fn}
			for _, c := range allEmitCells() {
				if name == "EmitBytes" && c.GenText {
					continue // the listing loop is covered structurally below
				}
				e.Runs = append(e.Runs, runEmitter(ctx, roles, fn, c))
			}
			subjects = append(subjects, e)
		}
	}
	nDry := 0
	for _, e := range subjects {
		name := e.Fn.Name()
		pos := ctx.Prog.Pos(e.Fn.Pos())
		byCell := map[mcell][2]*EmitRun{}
		for _, r := range e.Runs {
			k := mcell{r.Cell.M8, r.Cell.X8, r.Cell.GenText}
			p := byCell[k]
			if r.Cell.CodeNil {
				p[0] = r
			} else {
				p[1] = r
			}
			byCell[k] = p
		}
		msg := ""
		for k, p := range byCell {
			dry, buf := p[0], p[1]
			if dry == nil || buf == nil {
				continue
			}
			if len(dry.Imprec) > 0 || len(buf.Imprec) > 0 {
				msg = fmt.Sprintf("cell %v: not interpretable: %v %v", k, dry.Imprec, buf.Imprec)
				continue
			}
			// the only panic a target may add is the writer's capacity refusal
			for _, ev := range dry.Events {
				if ev.Kind == "panic" && ev.Fn == writer {
					msg = "the writer panics although there is no target"
				}
			}
			if dry.Returned != buf.Returned {
				msg = fmt.Sprintf("cell %v: accepted without a target = %v, with a target = %v", k, dry.Returned, buf.Returned)
				continue
			}
			if !dry.Returned {
				continue
			}
			nDry++
			for _, f := range append([]int{roles.Address, roles.Tracker, roles.Base}, roles.Dangling...) {
				if absint.ValKey(dry.Final[f]) != absint.ValKey(buf.Final[f]) {
					msg = fmt.Sprintf("cell %v: %s is %s without a target but %s with one", k, roles.fieldName(f), absint.ValKey(dry.Final[f]), absint.ValKey(buf.Final[f]))
				}
			}
			du, bu := mapUpdates(dry), mapUpdates(buf)
			if strings.Join(du, ";") != strings.Join(bu, ";") {
				msg = fmt.Sprintf("cell %v: label bookkeeping differs: %v without a target, %v with one", k, du, bu)
			}
			// ... and none of it may be computed from the number of bytes stored or from
			// the target: that count stands still without a target, so a value built on it
			// equals the with-target value in one call and falls behind it over a program
			nKey := "a." + roles.fieldName(roles.N)
			cKey := "a." + roles.fieldName(roles.Code)
			dependsOnStored := func(v absint.Val) string {
				for _, d := range valDeps(v) {
					if d.Key == nKey || strings.Contains(d.Key, "("+cKey+")") || strings.HasPrefix(d.Key, "len("+cKey) || strings.HasPrefix(d.Key, "cap("+cKey) {
						return d.Key
					}
				}
				return ""
			}
			for _, f := range append([]int{roles.Address, roles.Tracker, roles.Base}, roles.Dangling...) {
				if d := dependsOnStored(buf.Final[f]); d != "" {
					msg = fmt.Sprintf("cell %v: %s is computed from %s, which does not advance without a target", k, roles.fieldName(f), d)
				}
			}
			for _, run := range []*EmitRun{dry, buf} {
				for _, ev := range run.Events {
					if ev.Kind != "map-update" {
						continue
					}
					for _, a := range ev.Args[1:] {
						if d := dependsOnStored(a); d != "" {
							msg = fmt.Sprintf("cell %v: a label or reference is recorded as %s, computed from %s, which does not advance without a target", k, trunc(absint.ValKey(a)), d)
						}
					}
				}
			}
		}
		if msg != "" {
			R.Fail("dry-run", name, pos, msg)
		} else {
			R.Pass("dry-run", name, pos, "same address, tracked flags and label bookkeeping with and without a target")
		}
	}
	R.Count("dry-run-cell-pairs", nDry)
	R.Floor("dry-run-cell-pairs", 300)
	// EmitBytes with listing: address is stored once, outside the loop, as address+len(b)
	if fn := ctx.Prog.Method("asm", "Emitter", "EmitBytes"); fn != nil {
		var stores []*ssa.Store
		for _, b := range fn.Blocks {
			for _, in := range b.Instrs {
				if s, ok := in.(*ssa.Store); ok {
					if fa, ok := s.Addr.(*ssa.FieldAddr); ok && fa.Field == roles.Address && fa.X == fn.Params[0] {
						stores = append(stores, s)
					}
				}
			}
		}
		inLoop := false
		for _, l := range loopsOf(fn) {
			for _, s := range stores {
				if l.Body[s.Block()] {
					inLoop = true
				}
			}
		}
		if len(stores) != 1 || inLoop {
			R.Fail("dry-run", "EmitBytes:address-store", ctx.Prog.Pos(fn.Pos()), fmt.Sprintf("%d stores to the address (inside a loop: %v); want one, after the listing loop", len(stores), inLoop))
		} else {
			R.Pass("dry-run", "EmitBytes:address-store", ctx.Prog.Pos(fn.Pos()), "the address is advanced once, outside the listing loop")
		}
	}
}

func mapUpdates(r *EmitRun) []string {
	var out []string
	for _, e := range r.Events {
		if e.Kind == "map-update" && len(e.Args) == 3 {
			out = append(out, absint.ValKey(e.Args[0])+"["+absint.ValKey(e.Args[1])+"]")
		}
		if e.Kind == "append" && len(e.Args) >= 2 {
			if v, ok := e.Args[len(e.Args)-1].(*absint.Int); ok {
				out = append(out, "append:"+v.Lin.Key())
			}
		}
	}
	return out
}

// checkEmitOrder implements the order rule.
func checkEmitOrder(ctx *Ctx, roles *EmitterRoles, writer *ssa.Function) {
	R := ctx.R
	ms := newModSets(ctx)
	tracked := map[int]string{roles.N: "n", roles.Address: "address", roles.Labels: "labels"}
	for _, d := range roles.Dangling {
		tracked[d] = roles.fieldName(d)
	}
	pk := ctx.Prog.Pkg("asm")
	var funcs []*ssa.Function
	for _, fn := range ctx.Prog.AllFuncs() {
		if fn.Pkg == pk && len(fn.Params) > 0 && types.Identical(fn.Params[0].Type(), types.NewPointer(roles.Named)) {
			funcs = append(funcs, fn)
		}
	}
	// which functions reach the writer
	calls := map[*ssa.Function][]*ssa.Call{}
	for _, fn := range funcs {
		calls[fn] = callsIn(fn, func(*ssa.Function) bool { return true })
	}
	reach := map[*ssa.Function]bool{writer: true}
	for changed := true; changed; {
		changed = false
		for _, fn := range funcs {
			if reach[fn] {
				continue
			}
			for _, c := range calls[fn] {
				if reach[c.Call.StaticCallee()] {
					reach[fn] = true
					changed = true
				}
			}
		}
	}
	// mustW(G): every return of G is dominated by a call to the writer or to a mustW function
	mustW := map[*ssa.Function]bool{writer: true}
	for changed := true; changed; {
		changed = false
		for _, fn := range funcs {
			if mustW[fn] || !reach[fn] {
				continue
			}
			ok := true
			for _, b := range fn.Blocks {
				if _, isRet := b.Instrs[len(b.Instrs)-1].(*ssa.Return); !isRet {
					continue
				}
				dom := false
				for _, c := range calls[fn] {
					if mustW[c.Call.StaticCallee()] && c.Block().Dominates(b) {
						dom = true
					}
				}
				if !dom {
					ok = false
				}
			}
			if ok {
				mustW[fn] = true
				changed = true
			}
		}
	}
	modTracked := func(fn *ssa.Function) []string {
		fields, _ := ms.FieldsOfParam(fn, 0, roles.Named)
		var out []string
		for f, name := range tracked {
			if len(fields[f]) > 0 {
				out = append(out, name)
			}
		}
		sort.Strings(out)
		return out
	}
	// protected(I): dominated by a call to a mustW function placed before it
	protected := func(fn *ssa.Function, in ssa.Instruction) bool {
		for _, c := range calls[fn] {
			if !mustW[c.Call.StaticCallee()] {
				continue
			}
			if c.Block() == in.Block() {
				if instrIndex(c) < instrIndex(in) {
					return true
				}
			} else if c.Block().Dominates(in.Block()) {
				return true
			}
		}
		return false
	}
	safe := map[*ssa.Function]bool{writer: true}
	offending := map[*ssa.Function]string{}
	for round := 0; round < len(funcs)+2; round++ {
		changed := false
		for _, fn := range funcs {
			if safe[fn] {
				continue
			}
			bad := ""
			for _, b := range fn.Blocks {
				for _, in := range b.Instrs {
					what := ""
					switch x := in.(type) {
					case *ssa.Store:
						if fa, ok := x.Addr.(*ssa.FieldAddr); ok && fa.X == fn.Params[0] {
							if n, ok := tracked[fa.Field]; ok {
								what = "stores " + n
							}
						}
					case *ssa.MapUpdate:
						for _, t := range ms.resolve(fn, x.Map, 0) {
							if t.Root == 0 && t.Field != nil {
								if n, ok := tracked[t.Field.F]; ok {
									what = "updates " + n
								}
							}
						}
					case *ssa.Call:
						g := x.Call.StaticCallee()
						if g == nil || g == writer || safe[g] {
							break
						}
						if len(g.Params) > 0 && len(x.Call.Args) > 0 && x.Call.Args[0] == fn.Params[0] {
							if m := modTracked(g); len(m) > 0 {
								what = "calls " + g.Name() + " which modifies " + strings.Join(m, ",")
							}
						}
					}
					if what != "" && !protected(fn, in) {
						bad = fmt.Sprintf("%s at %s before the writer has accepted the bytes", what, ctx.Prog.Pos(in.Pos()))
					}
				}
			}
			if bad == "" {
				safe[fn] = true
				changed = true
			} else {
				offending[fn] = bad
			}
		}
		if !changed {
			break
		}
	}
	n := 0
	for _, fn := range funcs {
		if !reach[fn] || fn == writer {
			continue
		}
		n++
		if safe[fn] {
			R.Pass("order", fn.Name(), ctx.Prog.Pos(fn.Pos()), "bookkeeping only after the writer")
		} else if why := orderSemantic(ctx, roles, fn, tracked); why == "" {
			// the refusal may sit in front of the bookkeeping in another form (a capacity test of its own, a
			// checking helper): decided on the abstract run - no refusal can follow a bookkeeping store
			R.Pass("order", fn.Name(), ctx.Prog.Pos(fn.Pos()), "no refusal is possible once bookkeeping has been stored (abstract run: every panic precedes the first store to n/address/labels/references on its path)")
		} else {
			R.Fail("order", fn.Name(), ctx.Prog.Pos(fn.Pos()), offending[fn]+"; on the abstract run: "+why)
		}
	}
	R.Count("writer-reaching-functions", n)
	R.Floor("writer-reaching-functions", 80)
	// data blocks: an exported method that hands a caller-supplied byte slice to the writer advances n and the
	// address by exactly the length of that slice (instructions: C03/length)
	for _, fn := range funcs {
		if !reach[fn] || fn == writer || fn.Object() == nil || !fn.Object().Exported() || len(fn.Params) != 2 {
			continue
		}
		if sl, ok := fn.Params[1].Type().Underlying().(*types.Slice); !ok || !types.Identical(sl.Elem(), types.Typ[types.Byte]) {
			continue
		}
		checkDataAdvance(ctx, roles, fn)
	}
	// only the writer (and the documented patchers Finalize/Append) store into the target bytes
	for _, fn := range funcs {
		fields, _ := ms.FieldsOfParam(fn, 0, roles.Named)
		direct := false
		for _, e := range fields[roles.Code] {
			if e.Via == "" && (e.What == "element" || e.What == "store" || strings.HasPrefix(e.What, "external:")) {
				direct = true
			}
		}
		if direct && fn != writer && reach[fn] {
			R.Fail("order", "target-written-by:"+fn.Name(), ctx.Prog.Pos(fn.Pos()), "an emitting function stores into the target buffer itself, bypassing the writer's capacity check: "+effectList(ctx, fields[roles.Code]))
		}
	}
}

// orderSemantic interprets fn (loops in arbitrary-iteration mode) and reports a panic that can follow, on a common
// path, a store to one of the tracked bookkeeping fields of the receiver: such a refusal would leave the emitter
// half updated. Two events share a path unless their guards contradict each other.
func orderSemantic(ctx *Ctx, roles *EmitterRoles, fn *ssa.Function, tracked map[int]string) string {
	ip := absint.New()
	ip.TraceStores = true
	var recv *absint.Ptr
	S := roles.Struct
	_, _ = ip.CallFix(fn, func() ([]absint.Val, *absint.State) {
		st := &absint.State{Heap: absint.NewHeap(nil)}
		recv = &absint.Ptr{Nil: absint.TriF, Obj: ip.SymObj("a", roles.Named), T: roles.Named}
		ct := S.Field(roles.Code).Type()
		if cv, ok := ip.Load(st, fieldPtr(recv, ct, roles.Code), ct).(*absint.Slice); ok {
			cv.Nil = absint.TriF
			ip.Store(st, fieldPtr(recv, ct, roles.Code), ct, cv)
		}
		args := []absint.Val{recv}
		for i, p := range fn.Params[1:] {
			name := fmt.Sprintf("p%d", i)
			if w, sg, ok := absint.IntType(p.Type()); ok {
				args = append(args, absint.NewSym(w, ip.In.Atom(name, w, ^uint64(0)>>(64-uint(w))), sg))
			} else if b, ok := p.Type().Underlying().(*types.Basic); ok && b.Info()&types.IsString != 0 {
				args = append(args, &absint.Str{Key: name})
			} else if _, ok := p.Type().Underlying().(*types.Slice); ok {
				sv := ip.Load(st, &absint.Ptr{Obj: ip.SymObj(name, types.NewPointer(p.Type()))}, p.Type())
				if sl, ok := sv.(*absint.Slice); ok {
					sl.Nil = absint.TriF
				}
				args = append(args, sv)
			} else if pt, ok := p.Type().Underlying().(*types.Pointer); ok {
				args = append(args, &absint.Ptr{Nil: absint.TriF, Obj: ip.SymObj(name, pt.Elem()), T: pt.Elem()})
			} else {
				args = append(args, &absint.Top{T: p.Type(), Key: name})
			}
		}
		return args, st
	})
	for _, m := range ip.Imprec {
		if !strings.Contains(m, "unmodelled external") {
			return "not interpretable: " + m
		}
	}
	type eff struct {
		seq    int
		what   string
		pos    token.Pos
		guards []absint.GuardInfo
	}
	var effs []eff
	for _, st := range ip.Stores {
		if st.Obj != recv.Obj || len(st.Path) == 0 {
			continue
		}
		name := strings.TrimPrefix(absint.PrettyPath(roles.Named, st.Path), ".")
		for _, tn := range tracked {
			if name == tn || strings.HasPrefix(name, tn+".") || strings.HasPrefix(name, tn+"[") {
				effs = append(effs, eff{st.Seq, "store to " + tn, st.Pos, st.GuardL})
			}
		}
	}
	for _, ev := range ip.Events {
		if ev.Kind == "map-update" && len(ev.Args) > 0 {
			k := absint.ValKey(ev.Args[0])
			if f := fieldOfKey(S, k, "a"); f >= 0 {
				if tn, ok := tracked[f]; ok {
					effs = append(effs, eff{ev.Seq, "update of " + tn, ev.Pos, ev.PathL})
				}
			}
		}
	}
	compatible := func(a, b []absint.GuardInfo) bool {
		for _, x := range a {
			for _, y := range b {
				if x.Key == y.Key && x.Outcome != y.Outcome {
					return false
				}
			}
		}
		return true
	}
	for _, ev := range ip.Events {
		if ev.Kind != "panic" && ev.Kind != "fatal" {
			continue
		}
		for _, e := range effs {
			if e.seq < ev.Seq && compatible(e.guards, ev.PathL) {
				return fmt.Sprintf("the panic at %s can follow the %s at %s", ctx.Prog.Pos(ev.Pos), e.what, ctx.Prog.Pos(e.pos))
			}
		}
	}
	return ""
}

// checkDataAdvance: after fn(b) returns on an emitter with a target, n' = n + len(b) and address' = address + len(b),
// with the listing on or off (loops in arbitrary-iteration mode; neither cell is written inside them).
func checkDataAdvance(ctx *Ctx, roles *EmitterRoles, fn *ssa.Function) {
	R := ctx.R
	S := roles.Struct
	pos := ctx.Prog.Pos(fn.Pos())
	for _, text := range []bool{false, true} {
		key := fmt.Sprintf("%s:advance:text=%v", fn.Name(), text)
		ip := absint.New()
		var recv *absint.Ptr
		var n0, a0, blen *absint.Int
		_, out := ip.CallFix(fn, func() ([]absint.Val, *absint.State) {
			st := &absint.State{Heap: absint.NewHeap(nil)}
			recv = &absint.Ptr{Nil: absint.TriF, Obj: ip.SymObj("a", roles.Named), T: roles.Named}
			ct := S.Field(roles.Code).Type()
			if cv, ok := ip.Load(st, fieldPtr(recv, ct, roles.Code), ct).(*absint.Slice); ok {
				cv.Nil = absint.TriF
				ip.Store(st, fieldPtr(recv, ct, roles.Code), ct, cv)
			}
			k := absint.TriF
			if text {
				k = absint.TriT
			}
			ip.Store(st, fieldPtr(recv, S.Field(roles.GenText).Type(), roles.GenText), S.Field(roles.GenText).Type(), &absint.Bool{K: k})
			n0, _ = ip.Load(st, fieldPtr(recv, S.Field(roles.N).Type(), roles.N), S.Field(roles.N).Type()).(*absint.Int)
			a0, _ = ip.Load(st, fieldPtr(recv, S.Field(roles.Address).Type(), roles.Address), S.Field(roles.Address).Type()).(*absint.Int)
			pt := fn.Params[1].Type()
			sv := ip.Load(st, &absint.Ptr{Obj: ip.SymObj("b", types.NewPointer(pt))}, pt)
			if sl, ok := sv.(*absint.Slice); ok {
				sl.Nil = absint.TriF
				blen = sl.Len
			}
			return []absint.Val{recv, sv}, st
		})
		var imp []string
		for _, m := range ip.Imprec {
			if !strings.Contains(m, "unmodelled external") {
				imp = append(imp, m)
			}
		}
		if out == nil || len(imp) > 0 || n0 == nil || a0 == nil || blen == nil {
			R.Fail("bounded", key, pos, fmt.Sprintf("not interpretable: %v", imp))
			continue
		}
		o := ip.Ops
		n1, _ := ip.Load(out, fieldPtr(recv, S.Field(roles.N).Type(), roles.N), S.Field(roles.N).Type()).(*absint.Int)
		a1, _ := ip.Load(out, fieldPtr(recv, S.Field(roles.Address).Type(), roles.Address), S.Field(roles.Address).Type()).(*absint.Int)
		var msgs []string
		okN := false
		if n1 != nil {
			wantN := o.Add(n0, o.Convert(blen, n0.W, true, n0.Signed)).Lin.Key()
			okN = n1.Lin.Key() == wantN
			for _, ev := range ip.Events {
				if r, ok := ev.Result.(*absint.Int); ok && ev.Kind == "copy" && o.Add(n0, o.Convert(r, n0.W, true, n0.Signed)).Lin.Key() == n1.Lin.Key() {
					okN = true // n += copy(...): the copied count is the whole block under the capacity guard (bounded)
				}
			}
		}
		if !okN {
			msgs = append(msgs, "n becomes "+fmtVal(n1)+", want n + len(b)")
		}
		if a1 == nil || a1.Lin.Key() != o.Add(a0, o.Convert(blen, a0.W, true, a0.Signed)).Lin.Key() {
			msgs = append(msgs, "address becomes "+fmtVal(a1)+", want address + len(b)")
		}
		if len(msgs) > 0 {
			R.Fail("bounded", key, pos, strings.Join(msgs, "; "))
		} else {
			R.Pass("bounded", key, pos, "n and address advance by len(b)")
		}
	}
}
