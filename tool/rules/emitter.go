package rules

import (
	"fmt"
	"go/types"
	"sort"
	"strings"

	"golang.org/x/tools/go/ssa"

	"verif/tool/absint"
)

// ---------------------------------------------------------------------------
// roles of the Emitter's fields, resolved through its exported API

type EmitterRoles struct {
	Named  *types.Named
	Struct *types.Struct
	// field indices
	Tracker, GenText, Code, N, Address, Base, Labels, Lines int
	Dangling                                                []int // map[string][]uint32 fields
	Err                                                     []string
	Methods                                                 []*ssa.Function        // exported methods, sorted
	WriterFns                                               map[*ssa.Function]bool // methods that copy a []byte argument into the target
}

// fieldOfKey extracts the struct field an entry key like "a.address" (possibly inside
// len(...)) refers to.
func fieldOfKey(st *types.Struct, key, obj string) int {
	i := strings.Index(key, obj+".")
	if i < 0 {
		return -1
	}
	rest := key[i+len(obj)+1:]
	j := 0
	for j < len(rest) && (rest[j] == '_' || rest[j] >= '0' && rest[j] <= '9' || rest[j] >= 'a' && rest[j] <= 'z' || rest[j] >= 'A' && rest[j] <= 'Z') {
		j++
	}
	return fieldIndex(st, rest[:j])
}

func emitterRoles(ctx *Ctx) *EmitterRoles {
	r := &EmitterRoles{Tracker: -1, GenText: -1, Code: -1, N: -1, Address: -1, Base: -1, Labels: -1, Lines: -1}
	pk := ctx.Prog.Pkg("asm")
	if pk == nil || pk.Type("Emitter") == nil {
		r.Err = append(r.Err, "type asm.Emitter not found")
		return r
	}
	r.Named = pk.Type("Emitter").Type().(*types.Named)
	st, ok := r.Named.Underlying().(*types.Struct)
	if !ok {
		r.Err = append(r.Err, "asm.Emitter is not a struct")
		return r
	}
	r.Struct = st
	ip := absint.New()
	recv := &absint.Ptr{Nil: absint.TriF, Obj: ip.SymObj("a", r.Named), T: r.Named}
	// structural roles
	for i := 0; i < st.NumFields(); i++ {
		ft := st.Field(i).Type()
		if ms := types.NewMethodSet(ft); ms.Lookup(nil, "IsM16bit") != nil || types.NewMethodSet(types.NewPointer(ft)).Lookup(nil, "IsM16bit") != nil {
			if _, isInt := ft.Underlying().(*types.Basic); isInt {
				r.Tracker = i
			}
		}
		switch u := ft.Underlying().(type) {
		case *types.Slice:
			if _, ok := u.Elem().Underlying().(*types.Struct); ok {
				r.Lines = i
			}
		case *types.Map:
			if _, ok := u.Elem().Underlying().(*types.Slice); ok {
				r.Dangling = append(r.Dangling, i)
			}
		}
	}
	// constructor: which fields receive the target buffer and the listing switch
	if ctor := ctx.Prog.Func("asm", "NewEmitter"); ctor != nil && len(ctor.Params) == 2 {
		target := ip.SymObj("target", types.NewSlice(types.Typ[types.Byte]))
		_ = target
		tv := &absint.Slice{Nil: absint.TriF, Base: absint.Ptr{Nil: absint.TriF, Obj: ip.SymObj("[target]", types.NewArray(types.Typ[types.Byte], 1<<40))},
			Off: absint.NewConst(64, 0, true), Len: absint.NewSym(64, ip.In.Atom("len(target)", 64, 1<<40), true), Cap: absint.NewSym(64, ip.In.Atom("cap(target)", 64, 1<<40), true), ElemT: types.Typ[types.Byte]}
		gv := &absint.Bool{K: absint.TriTop, Key: "param:generateText"}
		ip.Hooks.ExtCall = func(ip *absint.Interp, st *absint.State, ev *absint.Event) (absint.Val, bool) { return nil, false }
		res, out := ip.Call(ctor, []absint.Val{tv, gv}, nil, &absint.State{Heap: absint.NewHeap(nil)})
		if p, ok := res.(*absint.Ptr); ok && out != nil && p.Obj != nil {
			for i := 0; i < st.NumFields(); i++ {
				v := ip.Load(out, fieldPtr(p, st.Field(i).Type(), i), st.Field(i).Type())
				switch x := v.(type) {
				case *absint.Slice:
					if x.Base.Obj != nil && x.Base.Obj.Name == "[target]" {
						r.Code = i
					}
				case *absint.Bool:
					if x.Key == "param:generateText" {
						r.GenText = i
					}
				}
			}
		}
	} else {
		r.Err = append(r.Err, "asm.NewEmitter(target, generateText) not found")
	}
	// accessors
	getter := func(name string) int {
		fn := ctx.Prog.Method("asm", "Emitter", name)
		if fn == nil || !absint.IsAcyclic(fn) {
			return -1
		}
		ip.Reset()
		res, _ := ip.Call(fn, []absint.Val{recv}, nil, &absint.State{Heap: absint.NewHeap(nil)})
		if res == nil {
			return -1
		}
		return fieldOfKey(st, absint.ValKey(res), "a")
	}
	r.N = getter("Len")
	r.Address = getter("PC")
	r.Base = getter("GetBase")
	if fn := ctx.Prog.Method("asm", "Emitter", "GetLabel"); fn != nil && len(fn.Params) == 2 {
		ip.Reset()
		ip.Call(fn, []absint.Val{recv, &absint.Str{Key: "name"}}, nil, &absint.State{Heap: absint.NewHeap(nil)})
		for _, ev := range ip.Events {
			if ev.Kind == "map-lookup" {
				r.Labels = fieldOfKey(st, absint.ValKey(ev.Args[0]), "a")
			}
		}
	}
	for name, idx := range map[string]int{"tracker": r.Tracker, "generateText": r.GenText, "code": r.Code, "n (Len)": r.N, "address (PC)": r.Address, "base (GetBase)": r.Base, "labels (GetLabel)": r.Labels, "lines": r.Lines} {
		if idx < 0 {
			r.Err = append(r.Err, "cannot resolve the Emitter field playing the role "+name)
		}
	}
	if len(r.Dangling) != 2 {
		r.Err = append(r.Err, fmt.Sprintf("expected two dangling-reference maps, found %d", len(r.Dangling)))
	}
	sort.Strings(r.Err)
	// the writer: the unexported Emitter method(s) taking a []byte whose body copies into
	// the target buffer (wrappers that merely pass the bytes on are not writers)
	r.WriterFns = map[*ssa.Function]bool{}
	if r.Code >= 0 {
		for _, fn := range ctx.Prog.AllFuncs() {
			if fn.Pkg != pk || fn.Signature.Recv() == nil || len(fn.Params) < 2 {
				continue
			}
			if !types.Identical(fn.Params[0].Type(), types.NewPointer(r.Named)) {
				continue
			}
			takesBytes := false
			for _, p := range fn.Params[1:] {
				if sl, ok := p.Type().Underlying().(*types.Slice); ok {
					if b, ok := sl.Elem().Underlying().(*types.Basic); ok && b.Kind() == types.Uint8 {
						takesBytes = true
					}
				}
			}
			if !takesBytes {
				continue
			}
			for _, b := range fn.Blocks {
				for _, in := range b.Instrs {
					c, ok := in.(*ssa.Call)
					if !ok {
						continue
					}
					if bi, ok := c.Call.Value.(*ssa.Builtin); ok && bi.Name() == "copy" && len(c.Call.Args) == 2 {
						if derivesFromField(c.Call.Args[0], r.Named, r.Code, 0) {
							r.WriterFns[fn] = true
						}
					}
				}
			}
		}
	}
	// exported methods
	ms := ctx.Prog.SSA.MethodSets.MethodSet(types.NewPointer(r.Named))
	for i := 0; i < ms.Len(); i++ {
		if f, ok := ms.At(i).Obj().(*types.Func); ok && f.Exported() && f.Pkg() == pk.Pkg {
			if fn := ctx.Prog.SSA.MethodValue(ms.At(i)); fn != nil && fn.Synthetic == "" {
				r.Methods = append(r.Methods, fn)
			}
		}
	}
	sort.Slice(r.Methods, func(i, j int) bool { return r.Methods[i].Name() < r.Methods[j].Name() })
	return r
}

// derivesFromField: v is a slice of / load from field `field` of a *named value.
func derivesFromField(v ssa.Value, named *types.Named, field int, depth int) bool {
	if depth > 6 {
		return false
	}
	switch x := v.(type) {
	case *ssa.Slice:
		return derivesFromField(x.X, named, field, depth+1)
	case *ssa.ChangeType:
		return derivesFromField(x.X, named, field, depth+1)
	case *ssa.UnOp:
		return isFieldLoad(x, named, field)
	case *ssa.Phi:
		for _, e := range x.Edges {
			if derivesFromField(e, named, field, depth+1) {
				return true
			}
		}
	}
	return false
}

func (r *EmitterRoles) fieldName(i int) string {
	if i >= 0 && i < r.Struct.NumFields() {
		return r.Struct.Field(i).Name()
	}
	return fmt.Sprintf("field#%d", i)
}

// ---------------------------------------------------------------------------
// one abstract run of an Emitter method

type EmitCell struct {
	M8, X8  bool // tracked Accumulator8bit / IndexRegister8bit bits set
	CodeNil bool
	GenText bool
}

func (c EmitCell) String() string {
	b := func(v bool, t, f string) string {
		if v {
			return t
		}
		return f
	}
	return b(c.M8, "M8", "M16") + "," + b(c.X8, "X8", "X16") + "," + b(c.CodeNil, "dry", "buf") + "," + b(c.GenText, "text", "notext")
}

type HelperCall struct {
	Fn    *ssa.Function
	Args  []absint.Val
	Bytes []*absint.Int // the [K]byte argument
	Strs  []string      // string arguments in order (known ones)
}

type EmitRun struct {
	Method     *ssa.Function
	Cell       EmitCell
	Params     []absint.Val
	ParamAtoms []*absint.Atom
	Returned   bool
	Events     []absint.Event
	Helpers    []HelperCall
	Writers    []HelperCall // calls of *Emitter methods taking a []byte
	Imprec     []string
	Stores     []absint.StoreEvent
	Final      map[int]absint.Val // field index -> value at return
	Entry      map[int]absint.Val // field index -> value at entry
	IP         *absint.Interp
	Out        *absint.State
	Recv       *absint.Ptr
}

const flagM8, flagX8 = 0x20, 0x10

func runEmitter(ctx *Ctx, roles *EmitterRoles, fn *ssa.Function, cell EmitCell) *EmitRun {
	// the package's own read-only tables (a lookup table of width predicates, say) are part of what a method
	// computes: the run starts from the heap image left by the package initialiser
	w := NewWorld(ctx, "asm")
	ip := w.IP
	run := &EmitRun{Method: fn, Cell: cell, IP: ip, Final: map[int]absint.Val{}, Entry: map[int]absint.Val{}}
	recv := &absint.Ptr{Nil: absint.TriF, Obj: ip.SymObj("a", roles.Named), T: roles.Named}
	run.Recv = recv
	st := w.NewState()
	S := roles.Struct
	// tracked flags: bits 4,5 fixed, the rest symbolic
	tw, _, _ := absint.IntType(S.Field(roles.Tracker).Type())
	tv := absint.NewSym(tw, ip.In.Atom("a.tracker", tw, 0xFF), false)
	var fixed uint64
	if cell.M8 {
		fixed |= flagM8
	}
	if cell.X8 {
		fixed |= flagX8
	}
	tv = ip.Ops.Or(ip.Ops.And(tv, absint.NewConst(tw, ^uint64(0x30), false)), absint.NewConst(tw, fixed, false))
	ip.Store(st, fieldPtr(recv, S.Field(roles.Tracker).Type(), roles.Tracker), S.Field(roles.Tracker).Type(), tv)
	gt := &absint.Bool{K: absint.TriF}
	if cell.GenText {
		gt = &absint.Bool{K: absint.TriT}
	}
	ip.Store(st, fieldPtr(recv, S.Field(roles.GenText).Type(), roles.GenText), S.Field(roles.GenText).Type(), gt)
	ct := S.Field(roles.Code).Type()
	cv := ip.Load(st, fieldPtr(recv, ct, roles.Code), ct).(*absint.Slice)
	if cell.CodeNil {
		cv = &absint.Slice{Nil: absint.TriT, ElemT: cv.ElemT, Off: absint.NewConst(64, 0, true), Len: absint.NewConst(64, 0, true), Cap: absint.NewConst(64, 0, true)}
	} else {
		cv.Nil = absint.TriF
	}
	ip.Store(st, fieldPtr(recv, ct, roles.Code), ct, cv)
	for i := 0; i < S.NumFields(); i++ {
		run.Entry[i] = ip.Load(st, fieldPtr(recv, S.Field(i).Type(), i), S.Field(i).Type())
	}
	// parameters
	args := []absint.Val{recv}
	for i, p := range fn.Params[1:] {
		name := fmt.Sprintf("p%d", i)
		if w, s, ok := absint.IntType(p.Type()); ok {
			a := ip.In.Atom(name, w, ^uint64(0)>>(64-uint(w)))
			run.ParamAtoms = append(run.ParamAtoms, a)
			args = append(args, absint.NewSym(w, a, s))
		} else if b, ok := p.Type().Underlying().(*types.Basic); ok && b.Info()&types.IsString != 0 {
			run.ParamAtoms = append(run.ParamAtoms, nil)
			args = append(args, &absint.Str{Key: name})
		} else if _, ok := p.Type().Underlying().(*types.Slice); ok {
			run.ParamAtoms = append(run.ParamAtoms, nil)
			sv := ip.Load(st, &absint.Ptr{Obj: ip.SymObj(name, types.NewPointer(p.Type()))}, p.Type())
			if sl, ok := sv.(*absint.Slice); ok {
				sl.Nil = absint.TriF
			}
			args = append(args, sv)
		} else {
			run.ParamAtoms = append(run.ParamAtoms, nil)
			args = append(args, &absint.Top{T: p.Type(), Key: name})
		}
	}
	run.Params = args[1:]
	isByteArray := func(t types.Type) (int, bool) {
		a, ok := t.Underlying().(*types.Array)
		if !ok {
			return 0, false
		}
		b, ok := a.Elem().Underlying().(*types.Basic)
		return int(a.Len()), ok && b.Kind() == types.Uint8
	}
	ip.Hooks.Enter = func(ip *absint.Interp, f *ssa.Function, a []absint.Val) {
		if f == fn || f.Signature.Recv() == nil || len(f.Params) == 0 {
			return
		}
		if !types.Identical(f.Params[0].Type(), types.NewPointer(roles.Named)) {
			return
		}
		hc := HelperCall{Fn: f, Args: a}
		kind := 0
		for i, p := range f.Params {
			if i >= len(a) {
				break
			}
			if _, ok := isByteArray(p.Type()); ok {
				kind = 1
				if arr, ok := a[i].(*absint.Array); ok {
					for _, e := range arr.E {
						iv, _ := e.(*absint.Int)
						hc.Bytes = append(hc.Bytes, iv)
					}
				}
			}
			if sl, ok := p.Type().Underlying().(*types.Slice); ok {
				if b, ok := sl.Elem().Underlying().(*types.Basic); ok && b.Kind() == types.Uint8 && kind == 0 {
					kind = 2
				}
			}
			if s, ok := a[i].(*absint.Str); ok {
				if s.Known {
					hc.Strs = append(hc.Strs, s.S)
				} else {
					hc.Strs = append(hc.Strs, "?"+s.Key)
				}
			}
		}
		switch kind {
		case 1:
			run.Helpers = append(run.Helpers, hc)
		case 2:
			if len(roles.WriterFns) == 0 || roles.WriterFns[f] {
				run.Writers = append(run.Writers, hc)
			}
		}
	}
	ip.TraceStores = true
	ip.UnrollLoops = true
	_, out := ip.Call(fn, args, nil, st)
	run.Returned = out != nil
	run.Stores = append([]absint.StoreEvent(nil), ip.Stores...)
	run.Out = out
	run.Events = append([]absint.Event(nil), ip.Events...)
	run.Imprec = append([]string(nil), ip.Imprec...)
	if out != nil {
		for i := 0; i < S.NumFields(); i++ {
			run.Final[i] = ip.Load(out, fieldPtr(recv, S.Field(i).Type(), i), S.Field(i).Type())
		}
	}
	return run
}

// panicsIn lists panic events whose site is inside fn itself.
func (r *EmitRun) panicsIn(fn *ssa.Function) []absint.Event {
	var out []absint.Event
	for _, e := range r.Events {
		if e.Kind == "panic" && e.Fn == fn {
			out = append(out, e)
		}
	}
	return out
}

// refusals lists the panics of a run that ended without reaching any emit helper or the
// writer: a width guard (in the method itself or in a guard helper it calls) refused
// the instruction before anything was emitted.
func (r *EmitRun) refusals() []absint.Event {
	if r.Returned || len(r.Helpers) > 0 || len(r.Writers) > 0 {
		return nil
	}
	var out []absint.Event
	for _, e := range r.Events {
		if e.Kind == "panic" {
			out = append(out, e)
		}
	}
	return out
}

func allEmitCells() []EmitCell {
	var cs []EmitCell
	for i := 0; i < 16; i++ {
		cs = append(cs, EmitCell{M8: i&1 != 0, X8: i&2 != 0, CodeNil: i&4 != 0, GenText: i&8 != 0})
	}
	return cs
}

// ---------------------------------------------------------------------------
// method-name grammar (DESIGN.md appendix B)

type nameInfo struct {
	Mnemonic string
	Class    string // canonical mode, or "imm1"/"imm2" for immediates, "" = default mode of the mnemonic
	Literal  bool   // trailing literal marker (operand given as a number, not a label)
	Err      string
}

func parseMethodName(name string) nameInfo {
	parts := strings.Split(name, "_")
	ni := nameInfo{Mnemonic: strings.ToLower(parts[0])}
	toks := parts[1:]
	if parts[0] != strings.ToUpper(parts[0]) || len(parts[0]) != 3 {
		ni.Err = "not an instruction method name"
		return ni
	}
	// trailing literal markers
	take := func(seq ...string) bool {
		if len(toks) >= len(seq) {
			for i, s := range seq {
				if toks[i] != s {
					return false
				}
			}
			toks = toks[len(seq):]
			return true
		}
		return false
	}
	switch {
	case len(toks) == 0:
		return ni
	case take("imm8", "b"), len(toks) == 1 && take("imm8"):
		ni.Class = "imm1"
	case take("imm16", "w"), take("imm16", "lh"):
		ni.Class = "imm2"
	case take("dp", "x", "ind"):
		ni.Class = "(dp,x)"
	case take("dp", "ind", "long", "y"):
		ni.Class = "[dp],y"
	case take("dp", "ind", "long"):
		ni.Class = "[dp]"
	case take("dp", "ind", "y"):
		ni.Class = "(dp),y"
	case take("dp", "ind"):
		ni.Class = "(dp)"
	case take("dp", "x"):
		ni.Class = "dp,x"
	case take("dp", "y"):
		ni.Class = "dp,y"
	case take("dp"):
		ni.Class = "dp"
	case take("abs", "x", "ind"):
		ni.Class = "(abs,x)"
	case take("abs", "ind", "long"):
		ni.Class = "[abs]"
	case take("abs", "x"):
		ni.Class = "abs,x"
	case take("abs", "y"):
		ni.Class = "abs,y"
	case take("abs"):
		ni.Class = "abs"
	case take("long", "x"):
		ni.Class = "long,x"
	case take("long"), take("lhb"):
		ni.Class = "long"
	case take("indirect"):
		ni.Class = "(abs)"
	case take("sr", "ind", "y"):
		ni.Class = "(sr,s),y"
	case take("sr"):
		ni.Class = "sr,s"
	case take("acc"):
		ni.Class = "acc"
	case take("rel16"):
		ni.Class = "rel16"
	}
	if take("imm16", "w") || take("imm8") {
		ni.Literal = true
	}
	if len(toks) != 0 {
		ni.Err = "uninterpretable mode tokens: " + strings.Join(toks, "_")
	}
	return ni
}

// modeMatches decides whether canonical mode `mode` (of the emitted opcode) is the
// one the method name denotes, given the number of operand bytes the method emits.
func modeMatches(ni nameInfo, mode string, operandBytes int, hasLabel bool, nparams int) bool {
	switch ni.Class {
	case "imm1":
		if mode == "rel8" { // BNE_imm8: literal branch displacement
			return operandBytes == 1
		}
		return operandBytes == 1 && (mode == "imm_m" || mode == "imm_x" || mode == "imm8" || mode == "imm8s")
	case "imm2":
		return operandBytes == 2 && (mode == "imm_m" || mode == "imm_x" || mode == "imm16")
	case "":
		// default mode of the mnemonic
		switch mode {
		case "imp", "acc":
			return nparams == 0
		case "rel8", "rel16":
			return hasLabel
		case "long":
			return ni.Mnemonic == "jsl" || ni.Mnemonic == "jml"
		case "blk":
			return nparams == 2
		case "imm8", "imm8s":
			return nparams == 1
		}
		return false
	}
	return ni.Class == mode
}
