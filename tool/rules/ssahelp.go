package rules

import (
	"go/token"
	"go/types"

	"golang.org/x/tools/go/ssa"
)

// Structural helpers over go/ssa (engine E3): loops, dominance, reachability.

type natLoop struct {
	Header *ssa.BasicBlock
	Body   map[*ssa.BasicBlock]bool // includes header
	Latch  []*ssa.BasicBlock        // sources of back edges
}

// loopsOf finds the natural loops of fn (back edge = edge to a dominator).
func loopsOf(fn *ssa.Function) []*natLoop {
	byHeader := map[*ssa.BasicBlock]*natLoop{}
	var order []*ssa.BasicBlock
	for _, b := range fn.Blocks {
		for _, s := range b.Succs {
			if s.Dominates(b) {
				l := byHeader[s]
				if l == nil {
					l = &natLoop{Header: s, Body: map[*ssa.BasicBlock]bool{s: true}}
					byHeader[s] = l
					order = append(order, s)
				}
				l.Latch = append(l.Latch, b)
				// body: nodes that reach b without passing the header
				var stack []*ssa.BasicBlock
				if !l.Body[b] {
					l.Body[b] = true
					stack = append(stack, b)
				}
				for len(stack) > 0 {
					n := stack[len(stack)-1]
					stack = stack[:len(stack)-1]
					for _, p := range n.Preds {
						if !l.Body[p] {
							l.Body[p] = true
							stack = append(stack, p)
						}
					}
				}
			}
		}
	}
	var out []*natLoop
	for _, h := range order {
		out = append(out, byHeader[h])
	}
	return out
}

// reaches reports whether `to` is reachable from `from` without entering `avoid`.
func reaches(from, to *ssa.BasicBlock, avoid *ssa.BasicBlock) bool {
	seen := map[*ssa.BasicBlock]bool{}
	stack := []*ssa.BasicBlock{from}
	for len(stack) > 0 {
		n := stack[len(stack)-1]
		stack = stack[:len(stack)-1]
		if n == to {
			return true
		}
		if seen[n] || n == avoid {
			continue
		}
		seen[n] = true
		stack = append(stack, n.Succs...)
	}
	return false
}

// callsIn lists call instructions of fn whose static callee satisfies pred.
func callsIn(fn *ssa.Function, pred func(*ssa.Function) bool) []*ssa.Call {
	var out []*ssa.Call
	for _, b := range fn.Blocks {
		for _, in := range b.Instrs {
			if c, ok := in.(*ssa.Call); ok {
				if callee := c.Call.StaticCallee(); callee != nil && pred(callee) {
					out = append(out, c)
				}
			}
		}
	}
	return out
}

func instrIndex(in ssa.Instruction) int {
	for i, x := range in.Block().Instrs {
		if x == in {
			return i
		}
	}
	return -1
}

// hasEffectBetween reports whether an instruction with a possible side effect (call,
// store, map update, …) occurs in block b strictly between indices lo and hi.
func hasEffectBetween(b *ssa.BasicBlock, lo, hi int) ssa.Instruction {
	for i := lo + 1; i < hi && i < len(b.Instrs); i++ {
		switch b.Instrs[i].(type) {
		case *ssa.Call, *ssa.Store, *ssa.MapUpdate, *ssa.Send, *ssa.Go, *ssa.Defer, *ssa.Panic:
			return b.Instrs[i]
		}
	}
	return nil
}

// isFieldLoad reports whether v is a load of field `field` (by index) of a pointer to named.
func isFieldLoad(v ssa.Value, named types.Type, field int) bool {
	u, ok := v.(*ssa.UnOp)
	if !ok || u.Op != token.MUL {
		return false
	}
	fa, ok := u.X.(*ssa.FieldAddr)
	return ok && fa.Field == field && types.Identical(fa.X.Type(), types.NewPointer(named))
}

// storesToField lists, over the whole module, the stores to field `field` of named
// struct type `named` (direct stores through a FieldAddr), and whole-struct stores.
type fieldStore struct {
	Fn    *ssa.Function
	Instr *ssa.Store
	Whole bool
}

func storesToField(ctx *Ctx, named types.Type, field int) []fieldStore {
	var out []fieldStore
	for _, fn := range ctx.Prog.AllFuncs() {
		for _, b := range fn.Blocks {
			for _, in := range b.Instrs {
				s, ok := in.(*ssa.Store)
				if !ok {
					continue
				}
				if fa, ok := s.Addr.(*ssa.FieldAddr); ok && fa.Field == field && types.Identical(fa.X.Type(), types.NewPointer(named)) {
					out = append(out, fieldStore{fn, s, false})
				} else if types.Identical(s.Addr.Type(), types.NewPointer(named)) {
					out = append(out, fieldStore{fn, s, true})
				}
			}
		}
	}
	return out
}

// addrTakenOfField lists FieldAddr instructions of the field whose address is used for
// anything but a direct load or store (so the field could be written indirectly).
func addrEscapesOfField(ctx *Ctx, named types.Type, field int) []ssa.Instruction {
	var out []ssa.Instruction
	for _, fn := range ctx.Prog.AllFuncs() {
		for _, b := range fn.Blocks {
			for _, in := range b.Instrs {
				fa, ok := in.(*ssa.FieldAddr)
				if !ok || fa.Field != field || !types.Identical(fa.X.Type(), types.NewPointer(named)) {
					continue
				}
				for _, ref := range *fa.Referrers() {
					switch r := ref.(type) {
					case *ssa.UnOp:
						if r.Op == token.MUL {
							continue
						}
					case *ssa.Store:
						if r.Addr == fa {
							continue
						}
					case *ssa.DebugRef:
						continue
					}
					out = append(out, ref)
				}
			}
		}
	}
	return out
}

// edgeDominates reports whether every path from the entry to n passes through the
// edge from -> from.Succs[k]. (The successor block alone dominating n is not enough:
// it may have other predecessors that bypass the branch.)
func edgeDominates(from *ssa.BasicBlock, k int, n *ssa.BasicBlock) bool {
	s := from.Succs[k]
	if from.Succs[0] == from.Succs[1] {
		return false
	}
	if !s.Dominates(n) {
		return false
	}
	for _, p := range s.Preds {
		if p == from {
			continue
		}
		if !s.Dominates(p) { // a predecessor that is not inside the region (not a back edge)
			return false
		}
	}
	return true
}
