package rules

import (
	"fmt"
	"strings"

	"golang.org/x/tools/go/ssa"

	"verif/tool/absint"
)

func init() { register("C03", "proof", C03) }

// emitting describes what was learnt about one instruction-emitting method.
type emitting struct {
	Fn      *ssa.Function
	Name    nameInfo
	K       int // bytes emitted (from accepted cells), 0 if never accepted
	Opcode  int
	Runs    []*EmitRun
	IsLabel bool
}

var emitAllCache []*emitting
var emitRolesCache *EmitterRoles

// emitAll runs every exported instruction method of the Emitter in all 16 cells.
func emitAll(ctx *Ctx) ([]*emitting, *EmitterRoles) {
	if emitRolesCache != nil {
		return emitAllCache, emitRolesCache
	}
	roles := emitterRoles(ctx)
	emitRolesCache = roles
	if len(roles.Err) > 0 {
		return nil, roles
	}
	type res struct {
		i int
		e *emitting
	}
	var cands []*ssa.Function
	for _, fn := range roles.Methods {
		if parseMethodName(fn.Name()).Err == "not an instruction method name" {
			continue
		}
		cands = append(cands, fn)
	}
	out := make([]*emitting, len(cands))
	ch := make(chan res)
	sem := make(chan struct{}, 16)
	for i, fn := range cands {
		go func(i int, fn *ssa.Function) {
			sem <- struct{}{}
			defer func() { <-sem }()
			e := &emitting{Fn: fn, Name: parseMethodName(fn.Name()), Opcode: -1}
			for _, c := range allEmitCells() {
				e.Runs = append(e.Runs, runEmitter(ctx, roles, fn, c))
			}
			for _, r := range e.Runs {
				if r.Returned && len(r.Helpers) == 1 {
					e.K = len(r.Helpers[0].Bytes)
					if len(r.Helpers[0].Bytes) > 0 && r.Helpers[0].Bytes[0] != nil {
						if c, ok := r.Helpers[0].Bytes[0].IsConst(); ok {
							e.Opcode = int(c)
						}
					}
				}
			}
			for _, p := range fn.Params[1:] {
				if isStr(p.Type()) {
					e.IsLabel = true
				}
			}
			ch <- res{i, e}
		}(i, fn)
	}
	for range cands {
		r := <-ch
		out[r.i] = r.e
	}
	emitAllCache = out
	return out, roles
}

func C03(ctx *Ctx) {
	R := ctx.R
	R.Explanation = "Every exported instruction method of asm.Emitter is abstractly interpreted with fully symbolic operands (one literal per operand bit) in 16 cells (tracked M/X width bits x nil/non-nil target x listing on/off). The [K]byte handed to the emit helper is read off the abstract state: byte 0 must be the constant opcode the 65816 opcode matrix (ref/isa65816.json, authored independently) assigns to the mnemonic and mode the method is named after, byte j must be exactly bits 8(j-1)..8j-1 of the operand parameter (bit provenance = for all operand values), K must be the architectural length under the width the guard admits, the address advances by K, and the writer is called once with exactly those K bytes."
	R.Trusted = []string{"go/packages + go/ssa (x/tools v0.29.0)", "absint transfer functions", "ref/isa65816.json (opcode matrix authored from the WDC data sheet)", "Go's builtin copy copies min(len(dst),len(src)) bytes"}
	R.Rule("roles", "the Emitter's fields are resolved by role through its exported API (NewEmitter, Len, PC, GetBase, GetLabel, IsM16bit)")
	R.Rule("analysable", "every method named like an instruction is loop-free and interpreted without imprecision in every cell")
	R.Rule("opcode", "byte 0 is a constant k, isa[k].mnemonic is the method's mnemonic and isa[k].mode is the mode its name denotes")
	R.Rule("operand", "byte j>=1 is exactly bits 8(j-1)..8j-1 of the operand parameter (or the j-th split parameter); label methods emit placeholders and record a reference")
	R.Rule("length", "K equals the architectural length under the tracked width of the cell; the address advances by K; the writer is called once with exactly the K bytes; n advances by the copied count (or stays, without a target)")
	R.Rule("guard", "a cell is refused (the method panics before emitting) exactly when its operand size disagrees with the tracked width (see also C07)")
	R.Rule("cpu-agree", "both CPU opcode tables give the emitted opcode the same mnemonic and the same length")
	R.Exhaustive = true
	isa, err := loadISA(ctx)
	if err != nil {
		R.Fail("opcode", "reference", "", "cannot load ISA reference: "+err.Error())
		return
	}
	ems, roles := emitAll(ctx)
	if len(roles.Err) > 0 {
		for _, e := range roles.Err {
			R.Fail("roles", e, "", e)
		}
		return
	}
	R.Pass("roles", "Emitter", "", fmt.Sprintf("tracker=%s generateText=%s code=%s n=%s address=%s base=%s labels=%s lines=%s",
		roles.fieldName(roles.Tracker), roles.fieldName(roles.GenText), roles.fieldName(roles.Code), roles.fieldName(roles.N), roles.fieldName(roles.Address), roles.fieldName(roles.Base), roles.fieldName(roles.Labels), roles.fieldName(roles.Lines)))
	// CPU tables for cpu-agree
	var tabs []*CPUTable
	for _, rel := range cpuRels {
		tabs = append(tabs, extractTable(ctx, NewWorld(ctx, rel), rel))
	}
	R.Floor("emitting-methods", 80)
	R.Floor("emit-helpers", 1)
	helpers := map[*ssa.Function]bool{}
	var names []string
	for _, e := range ems {
		name := e.Fn.Name()
		pos := ctx.Prog.Pos(e.Fn.Pos())
		if e.Name.Err != "" {
			R.Fail("opcode", name+":name", pos, "method name not interpretable: "+e.Name.Err)
			continue
		}
		// analysable
		bad := ""
		for _, r := range e.Runs {
			for _, im := range r.Imprec {
				bad = fmt.Sprintf("cell %s: %s", r.Cell, im)
			}
		}
		if bad != "" {
			R.Fail("analysable", name, pos, bad)
			continue
		}
		nHelpers := 0
		for _, r := range e.Runs {
			nHelpers += len(r.Helpers)
		}
		if nHelpers == 0 {
			// named like an instruction but never reaches an emit helper
			R.Fail("analysable", name, pos, "method is named like an instruction but reaches no emit helper in any cell")
			continue
		}
		R.Count("emitting-methods", 1)
		names = append(names, name)
		R.Pass("analysable", name, pos, "16 cells interpreted")
		if e.K == 0 || e.Opcode < 0 {
			R.Fail("opcode", name, pos, "no cell emits a constant opcode byte")
			continue
		}
		ref := isa.Ops[e.Opcode]
		// opcode: mnemonic and mode
		nparams := len(e.Fn.Params) - 1
		switch {
		case !(e.Name.Mnemonic == ref.Mn || (ref.Mn == "jml" && e.Name.Mnemonic == "jml")):
			R.Fail("opcode", name, pos, fmt.Sprintf("emits opcode $%02X which is %s %s, but the method is named %s", e.Opcode, ref.Mn, ref.Mode, e.Name.Mnemonic))
		case !modeMatches(e.Name, ref.Mode, e.K-1, e.IsLabel, nparams):
			R.Fail("opcode", name, pos, fmt.Sprintf("emits opcode $%02X = %s %s, which is not the addressing mode the name denotes (%q, %d operand bytes)", e.Opcode, ref.Mn, ref.Mode, e.Name.Class, e.K-1))
		default:
			R.Pass("opcode", name, pos, fmt.Sprintf("$%02X = %s %s", e.Opcode, ref.Mn, ref.Mode))
		}
		// per-cell checks
		var opErr, lenErr, guardErr string
		accepted := 0
		for _, r := range e.Runs {
			flag := 0
			switch ref.Dep {
			case "m":
				if r.Cell.M8 {
					flag = 1
				}
			case "x":
				if r.Cell.X8 {
					flag = 1
				}
			}
			wantK := ref.Len - flag
			refusedByGuard := len(r.refusals()) > 0
			if !r.Returned && !refusedByGuard {
				lenErr = fmt.Sprintf("cell %s: no return reachable although no width guard fired", r.Cell)
				continue
			}
			if refusedByGuard != (wantK != e.K) {
				if refusedByGuard {
					guardErr = fmt.Sprintf("cell %s: refused although the %d-byte encoding is what the CPU decodes with these widths", r.Cell, e.K)
				} else {
					guardErr = fmt.Sprintf("cell %s: emits %d bytes but the CPU decodes $%02X as %d bytes with these widths (%s %s shortened by flag %s)", r.Cell, e.K, e.Opcode, wantK, ref.Mn, ref.Mode, ref.Dep)
				}
			}
			if refusedByGuard {
				continue
			}
			accepted++
			if len(r.Helpers) != 1 {
				lenErr = fmt.Sprintf("cell %s: %d emit-helper calls", r.Cell, len(r.Helpers))
				continue
			}
			h := r.Helpers[0]
			helpers[h.Fn] = true
			if len(h.Bytes) != e.K {
				lenErr = fmt.Sprintf("cell %s: emits %d bytes, other cells %d", r.Cell, len(h.Bytes), e.K)
				continue
			}
			if c, ok := h.Bytes[0].IsConst(); !ok || int(c) != e.Opcode {
				opErr = fmt.Sprintf("cell %s: opcode byte is %s", r.Cell, h.Bytes[0])
			}
			if msg := checkOperand(e, r, h); msg != "" {
				opErr = fmt.Sprintf("cell %s: %s", r.Cell, msg)
			}
			if msg := checkLength(roles, e, r, h); msg != "" {
				lenErr = fmt.Sprintf("cell %s: %s", r.Cell, msg)
			}
		}
		if accepted == 0 {
			guardErr = "refused in every cell"
		}
		report := func(rule, msg, okmsg string) {
			if msg != "" {
				R.Fail(rule, name, pos, msg)
			} else {
				R.Pass(rule, name, pos, okmsg)
			}
		}
		report("operand", opErr, "operand bytes are the operand's bits, little-endian, in every accepted cell")
		report("length", lenErr, fmt.Sprintf("K=%d, address += K, one writer call with the K bytes", e.K))
		report("guard", guardErr, fmt.Sprintf("accepted in %d of 16 cells, exactly where the width matches", accepted))
		// cpu-agree
		agree := ""
		for _, t := range tabs {
			if t.Err != "" {
				agree = t.Rel + ": " + t.Err
				continue
			}
			te := t.E[e.Opcode]
			if !te.Known || !sameMnemonic(te.Name, ref.Mn) || int(te.Size) != ref.Len {
				agree = fmt.Sprintf("%s table entry $%02X is %q size %d, reference %s len %d", t.Rel, e.Opcode, te.Name, te.Size, ref.Mn, ref.Len)
			}
		}
		report("cpu-agree", agree, "both CPU tables: same mnemonic and length")
	}
	R.Count("emit-helpers", len(helpers))
	R.Analysed["methods"] = names
	R.Analysed["cells"] = fmt.Sprintf("%d methods x 16 cells", len(names))
	var hn []string
	for h := range helpers {
		hn = append(hn, h.Name())
	}
	R.Analysed["emit_helpers"] = sortedStrings(hn)
}

func sortedStrings(s []string) []string {
	out := append([]string(nil), s...)
	for i := 1; i < len(out); i++ {
		for j := i; j > 0 && out[j] < out[j-1]; j-- {
			out[j], out[j-1] = out[j-1], out[j]
		}
	}
	return out
}

// checkOperand verifies bit provenance of the operand bytes.
func checkOperand(e *emitting, r *EmitRun, h HelperCall) string {
	K := len(h.Bytes)
	if e.IsLabel {
		// placeholders: constants; the reference must be recorded in a dangling map
		for j := 1; j < K; j++ {
			if _, ok := h.Bytes[j].IsConst(); !ok {
				return fmt.Sprintf("label method: operand byte %d is not a placeholder constant", j)
			}
		}
		labelKey := ""
		for _, p := range r.Params {
			if s, ok := p.(*absint.Str); ok {
				labelKey = s.Key
			}
		}
		rec := false
		for _, ev := range r.Events {
			if ev.Kind == "map-update" && ev.Callee == "" && len(ev.Args) == 3 {
				if k, ok := ev.Args[1].(*absint.Str); ok && k.Key == labelKey {
					rec = true
				}
			}
		}
		if !rec {
			return "label method does not record a dangling reference under its label"
		}
		return ""
	}
	// integer parameters
	type pinfo struct {
		a *absint.Atom
		w int
	}
	var ps []pinfo
	for i, p := range r.Params {
		if iv, ok := p.(*absint.Int); ok {
			ps = append(ps, pinfo{r.ParamAtoms[i], iv.W})
		} else {
			return "non-integer operand parameter"
		}
	}
	nb := K - 1
	want := func(j, bit int) (*absint.Atom, int, bool) { // source of bit `bit` of operand byte j (1-based)
		switch {
		case len(ps) == 1 && ps[0].w >= 8*nb:
			return ps[0].a, 8*(j-1) + bit, true
		case len(ps) == nb:
			if ps[j-1].w != 8 {
				return nil, 0, false
			}
			return ps[j-1].a, bit, true
		}
		return nil, 0, false
	}
	if nb == 0 {
		if len(ps) != 0 {
			return "method takes an operand but emits none"
		}
		return ""
	}
	for j := 1; j <= nb; j++ {
		for bit := 0; bit < 8; bit++ {
			a, idx, ok := want(j, bit)
			if !ok {
				return fmt.Sprintf("parameter shape %d params does not fit %d operand bytes", len(ps), nb)
			}
			b := h.Bytes[j].Bits[bit]
			if b.K != absint.BLit || b.A != a || int(b.Idx) != idx || b.Neg {
				return fmt.Sprintf("operand byte %d bit %d is %s, want %s.%d", j, bit, b, a.Key, idx)
			}
		}
	}
	return ""
}

// checkLength verifies the helper's bookkeeping for one accepted cell.
func checkLength(roles *EmitterRoles, e *emitting, r *EmitRun, h HelperCall) string {
	K := len(h.Bytes)
	ip := r.IP
	a0, ok0 := r.Entry[roles.Address].(*absint.Int)
	a1, ok1 := r.Final[roles.Address].(*absint.Int)
	if !ok0 || !ok1 {
		return "address is not an integer"
	}
	if ip.Ops.Add(a0, absint.NewConst(a0.W, uint64(K), false)).Lin.Key() != a1.Lin.Key() {
		return fmt.Sprintf("address after = %s, want address + %d", a1, K)
	}
	if len(r.Writers) != 1 {
		return fmt.Sprintf("%d writer calls, want 1", len(r.Writers))
	}
	// the []byte given to the writer holds exactly the K bytes
	var sl *absint.Slice
	for _, a := range r.Writers[0].Args {
		if s, ok := a.(*absint.Slice); ok {
			sl = s
		}
	}
	if sl == nil {
		return "writer called without a byte slice"
	}
	off, okO := sl.Off.IsConst()
	ln, okL := sl.Len.IsConst()
	if !okO || !okL || off != 0 || int(ln) != K || sl.Base.Obj == nil {
		return fmt.Sprintf("writer receives slice off=%s len=%s, want the whole %d-byte array", sl.Off, sl.Len, K)
	}
	// (contents: the slice aliases the helper's parameter copy; compare element-wise at the copy event or, without a target, by the array argument itself)
	var copies []absint.Event
	for _, ev := range r.Events {
		if ev.Kind == "copy" {
			copies = append(copies, ev)
		}
	}
	n0, _ := r.Entry[roles.N].(*absint.Int)
	n1, _ := r.Final[roles.N].(*absint.Int)
	if n0 == nil || n1 == nil {
		return "n is not an integer"
	}
	if r.Cell.CodeNil {
		if len(copies) != 0 {
			return "copy performed although the target is nil"
		}
		if n0.Lin.Key() != n1.Lin.Key() {
			return "n changes although the target is nil"
		}
		return ""
	}
	if len(copies) != 1 {
		return fmt.Sprintf("%d copies into the target, want 1", len(copies))
	}
	cp := copies[0]
	dst, _ := cp.Args[0].(*absint.Slice)
	src, _ := cp.Args[1].(*absint.Slice)
	code, _ := r.Entry[roles.Code].(*absint.Slice)
	if dst == nil || src == nil || code == nil {
		return "copy arguments are not slices"
	}
	if dst.Base.Obj != code.Base.Obj || dst.Off.Lin.Key() != n0.Lin.Key() {
		return fmt.Sprintf("copy destination is %s, want code[n:]", absint.ValKey(dst))
	}
	if src.Base.Obj != sl.Base.Obj || src.Off.Lin.Key() != "0" || src.Len.Lin.Key() != fmt.Sprintf("%x", K) {
		return fmt.Sprintf("copy source is %s, want all %d bytes", absint.ValKey(src), K)
	}
	// source bytes equal the bytes handed to the helper
	for j := 0; j < K; j++ {
		v := ip.Load(r.Out, elemPtr(&src.Base, src.ElemT, j), src.ElemT)
		iv, ok := v.(*absint.Int)
		if !ok || iv.Lin.Key() != h.Bytes[j].Lin.Key() {
			return fmt.Sprintf("byte %d written is %s, helper received %s", j, absint.ValKey(v), h.Bytes[j])
		}
	}
	if !advancedByCopy(ip.Ops, n0, n1, cp, capSpec{o: ip.Ops, need: ip.Ops.Add(n0, absint.NewConst(n0.W, uint64(K), n0.Signed)), cap: code.Len}) {
		return fmt.Sprintf("n after = %s, want n + copied count", n1)
	}
	return ""
}

var _ = strings.TrimSpace
