package rules

import (
	"fmt"
	"go/token"
	"go/types"
	"strings"

	"golang.org/x/tools/go/ssa"

	"verif/tool/load"
)

// Engine E2 (DESIGN.md §3.2) in the form needed by the rules: a forward taint
// propagation over SSA def-use chains from a set of seed values that denote shared
// storage (addresses of package-level variables, or a parameter when a callee is
// summarised), reporting every instruction that may write through a tainted
// reference or let it escape.

type sinkKind string

const (
	sinkStore   sinkKind = "store"        // store / map update / copy / delete through the reference
	sinkEscape  sinkKind = "escape"       // reference stored into the heap, captured, sent, returned
	sinkCallee  sinkKind = "callee-write" // passed to a callee that writes through it
	sinkUnknown sinkKind = "unknown-call" // passed to a callee that cannot be summarised
)

type sink struct {
	Kind  sinkKind
	Instr ssa.Instruction
	What  string
	Seed  ssa.Value
}

// refLike reports whether a value of type t can carry a reference through which
// shared storage could be written (function values cannot be written through).
func refLike(t types.Type, depth int) bool {
	if depth > 6 {
		return true
	}
	// sentinel error values offer no way to modify what they point to
	if types.Identical(t, types.Universe.Lookup("error").Type()) {
		return false
	}
	switch u := t.Underlying().(type) {
	case *types.Pointer, *types.Slice, *types.Map, *types.Chan, *types.Interface:
		return true
	case *types.Struct:
		for i := 0; i < u.NumFields(); i++ {
			if refLike(u.Field(i).Type(), depth+1) {
				return true
			}
		}
	case *types.Array:
		return refLike(u.Elem(), depth+1)
	case *types.Tuple:
		for i := 0; i < u.Len(); i++ {
			if refLike(u.At(i).Type(), depth+1) {
				return true
			}
		}
	}
	return false
}

// zeroSizePointee: a pointer to (or interface over) a type without any storage
// cannot be used to share mutable state.
func zeroSizePointee(t types.Type) bool {
	p, ok := t.Underlying().(*types.Pointer)
	if !ok {
		return false
	}
	s, ok := p.Elem().Underlying().(*types.Struct)
	return ok && s.NumFields() == 0
}

type taintAnalysis struct {
	ctx      *Ctx
	paramMem map[string][]sink // summary cache: fn + "#" + param index
	paramRet map[string]bool   // the callee may return a reference derived from that parameter
	inProg   map[string]bool
}

func newTaint(ctx *Ctx) *taintAnalysis {
	return &taintAnalysis{ctx: ctx, paramMem: map[string][]sink{}, paramRet: map[string]bool{}, inProg: map[string]bool{}}
}

// read-only externals: they do not write through their reference arguments (other
// than a destination that is not one of our seeds) and keep no reference.
func externalReadOnly(name string) bool {
	for _, p := range []string{"fmt.", "log.", "strconv.", "errors.", "strings.", "bytes.NewReader", "bytes.NewBuffer", "(*bytes.Reader).", "(*bytes.Buffer).Write", "(*bytes.Buffer).Bytes",
		"(*strings.Builder).", "encoding/binary.Read", "encoding/binary.Write", "(encoding/binary.littleEndian).", "reflect.", "(reflect.Value).", "(*reflect.rtype).", "io."} {
		if strings.HasPrefix(name, p) {
			return true
		}
	}
	return false
}

// run propagates taint from seeds inside fn and returns the sinks.
func (ta *taintAnalysis) run(fn *ssa.Function, seeds []ssa.Value) []sink {
	tainted := map[ssa.Value]ssa.Value{} // value -> originating seed
	holder := map[ssa.Value]bool{}       // addresses inside a non-escaping local that merely holds a shared reference
	var work []ssa.Value
	add := func(v, seed ssa.Value) {
		if _, ok := tainted[v]; !ok {
			tainted[v] = seed
			work = append(work, v)
		}
	}
	for _, s := range seeds {
		add(s, s)
	}
	var sinks []sink
	report := func(k sinkKind, in ssa.Instruction, what string, seed ssa.Value) {
		sinks = append(sinks, sink{k, in, what, seed})
	}
	// globals are operands, not instructions: scan for uses
	seedSet := map[ssa.Value]bool{}
	for _, s := range seeds {
		seedSet[s] = true
	}
	uses := map[ssa.Value][]ssa.Instruction{}
	for _, b := range fn.Blocks {
		for _, in := range b.Instrs {
			var ops [16]*ssa.Value
			for _, op := range in.Operands(ops[:0]) {
				if op != nil && *op != nil {
					uses[*op] = append(uses[*op], in)
				}
			}
		}
	}
	localNoEscape := func(addr ssa.Value) bool {
		// stores into a local allocation that stays in this function (varargs arrays,
		// spilled parameters) do not publish the reference
		for {
			switch x := addr.(type) {
			case *ssa.IndexAddr:
				addr = x.X
				continue
			case *ssa.FieldAddr:
				addr = x.X
				continue
			case *ssa.Alloc:
				return !x.Heap || allocIsLocalOnly(x)
			}
			return false
		}
	}
	for len(work) > 0 {
		v := work[len(work)-1]
		work = work[:len(work)-1]
		seed := tainted[v]
		for _, in := range uses[v] {
			switch x := in.(type) {
			case *ssa.FieldAddr:
				if x.X == v {
					if holder[v] {
						holder[x] = true
					}
					add(x, seed)
				}
			case *ssa.IndexAddr:
				if x.X == v {
					if holder[v] {
						holder[x] = true
					}
					add(x, seed)
				}
			case *ssa.Slice:
				if x.X == v {
					add(x, seed)
				}
			case *ssa.ChangeType:
				add(x, seed)
			case *ssa.Convert:
				if refLike(x.Type(), 0) {
					add(x, seed)
				}
			case *ssa.MakeInterface:
				add(x, seed)
			case *ssa.ChangeInterface:
				add(x, seed)
			case *ssa.TypeAssert:
				add(x, seed)
			case *ssa.Extract:
				if refLike(x.Type(), 0) {
					add(x, seed)
				}
			case *ssa.Phi:
				add(x, seed)
			case *ssa.Field:
				if refLike(x.Type(), 0) {
					add(x, seed)
				}
			case *ssa.Index:
				if x.X == v && refLike(x.Type(), 0) {
					add(x, seed)
				}
			case *ssa.Lookup:
				if x.X == v && refLike(x.Type(), 0) {
					add(x, seed)
				}
			case *ssa.UnOp:
				if x.Op == token.MUL && refLike(x.Type(), 0) {
					add(x, seed) // a reference loaded from shared storage is itself shared
				}
				if x.Op == token.ARROW && x.X == v {
					report(sinkStore, x, "receive from a shared channel (a queue every caller sees)", seed)
				}
			case *ssa.Range:
				add(x, seed)
			case *ssa.Next:
				if refLike(x.Type(), 0) {
					add(x, seed)
				}
			case *ssa.Store:
				if x.Addr == v && !holder[v] {
					report(sinkStore, x, "store through "+v.Name(), seed)
				}
				if x.Val == v && refLike(v.Type(), 0) && !zeroSizePointee(v.Type()) {
					if localNoEscape(x.Addr) {
						// track the local: loads from it yield the reference again
						if a := rootAlloc(x.Addr); a != nil {
							holder[a] = true
							add(a, seed)
						}
					} else {
						report(sinkEscape, x, "reference stored into memory that outlives the call", seed)
					}
				}
			case *ssa.MapUpdate:
				if x.Map == v {
					report(sinkStore, x, "map update", seed)
				} else if refLike(v.Type(), 0) {
					report(sinkEscape, x, "reference stored into a map", seed)
				}
			case *ssa.Send:
				if x.Chan == v {
					report(sinkStore, x, "send on a shared channel (a queue every caller sees)", seed)
				} else {
					report(sinkEscape, x, "reference sent on a channel", seed)
				}
			case *ssa.Select:
				for _, stt := range x.States {
					if stt.Chan == v {
						report(sinkStore, x, "communication on a shared channel (a queue every caller sees)", seed)
					} else if stt.Send == v {
						report(sinkEscape, x, "reference sent on a channel", seed)
					}
				}
			case *ssa.Go:
				report(sinkEscape, x, "reference passed to a goroutine", seed)
			case *ssa.Defer:
				ta.call(fn, x, &x.Call, v, seed, report)
			case *ssa.MakeClosure:
				report(sinkEscape, x, "reference captured by a closure", seed)
			case *ssa.Return:
				if refLike(v.Type(), 0) && !zeroSizePointee(v.Type()) {
					if mi, ok := v.(*ssa.MakeInterface); !(ok && zeroSizePointee(mi.X.Type())) {
						report(sinkEscape, x, "reference returned to the caller", seed)
					}
				}
			case *ssa.Call:
				if ta.call(fn, x, &x.Call, v, seed, report) && refLike(x.Type(), 0) {
					add(x, seed) // the callee hands the reference back: the result is the same storage
				}
			}
		}
	}
	return sinks
}

func rootAlloc(addr ssa.Value) *ssa.Alloc {
	for {
		switch x := addr.(type) {
		case *ssa.IndexAddr:
			addr = x.X
		case *ssa.FieldAddr:
			addr = x.X
		case *ssa.Alloc:
			return x
		default:
			return nil
		}
	}
}

// allocIsLocalOnly: a heap-allocated local whose address is only used for element
// addressing, loads, stores into it, and as a slice handed to fmt-like varargs.
func allocIsLocalOnly(a *ssa.Alloc) bool {
	for _, ref := range *a.Referrers() {
		switch r := ref.(type) {
		case *ssa.IndexAddr, *ssa.FieldAddr, *ssa.UnOp, *ssa.DebugRef:
		case *ssa.Store:
			if r.Val == a {
				return false
			}
		case *ssa.Slice:
			for _, rr := range *r.Referrers() {
				c, ok := rr.(*ssa.Call)
				if !ok {
					return false
				}
				callee := c.Call.StaticCallee()
				if callee == nil || !externalReadOnly(callee.String()) {
					return false
				}
			}
		default:
			return false
		}
	}
	return true
}

// call handles v being passed to a callee; it reports whether the call's result may be a reference to the same
// storage (the callee returns its parameter, or is an external read-only function returning a reference).
func (ta *taintAnalysis) call(fn *ssa.Function, in ssa.Instruction, c *ssa.CallCommon, v, seed ssa.Value, report func(sinkKind, ssa.Instruction, string, ssa.Value)) (resultShared bool) {
	// calling a tainted function value is not a write
	if c.Value == v && !c.IsInvoke() {
		if _, isFn := v.Type().Underlying().(*types.Signature); isFn {
			return
		}
	}
	if b, ok := c.Value.(*ssa.Builtin); ok {
		switch b.Name() {
		case "len", "cap", "print", "println", "panic", "min", "max":
			return
		case "copy":
			if len(c.Args) > 0 && c.Args[0] == v {
				report(sinkStore, in, "copy into the shared storage", seed)
			}
			return
		case "delete", "clear":
			report(sinkStore, in, b.Name()+" on the shared storage", seed)
			return
		case "append":
			if len(c.Args) > 0 && c.Args[0] == v {
				report(sinkStore, in, "append to a shared slice (may write its spare capacity)", seed)
			}
			return
		}
		report(sinkUnknown, in, "builtin "+b.Name(), seed)
		return
	}
	// position of v among the callee's parameters
	var idxs []int
	off := 0
	if c.IsInvoke() {
		if c.Value == v {
			idxs = append(idxs, 0)
		}
		off = 1
	}
	for i, a := range c.Args {
		if a == v {
			idxs = append(idxs, i+off)
		}
	}
	if len(idxs) == 0 {
		return
	}
	var callees []*ssa.Function
	switch {
	case c.IsInvoke():
		// io.Writer.Write must not modify or retain its argument (io contract)
		if c.Method.Name() == "Write" && c.Method.Pkg() != nil && c.Method.Pkg().Path() == "io" {
			return
		}
		callees = ta.implementations(c)
		if len(callees) == 0 {
			if c.Method.Pkg() != nil && !strings.HasPrefix(c.Method.Pkg().Path(), load.ModulePath) {
				if externalReadOnly(c.Method.Pkg().Path() + ".") {
					return
				}
			}
			report(sinkUnknown, in, "dynamic call of "+c.Method.FullName()+" with no in-module implementation", seed)
			return
		}
	case c.StaticCallee() != nil:
		callees = []*ssa.Function{c.StaticCallee()}
	default:
		report(sinkUnknown, in, "call through a function value", seed)
		return
	}
	for _, callee := range callees {
		if !load.InModule(callee) || len(callee.Blocks) == 0 {
			if externalReadOnly(callee.String()) {
				// a read-only library function may still return a view of its argument (bytes.TrimSpace, ...)
				if val, ok := in.(ssa.Value); ok {
					switch val.Type().Underlying().(type) {
					case *types.Slice, *types.Pointer, *types.Map:
						resultShared = true
					}
				}
				continue
			}
			report(sinkUnknown, in, "passed to "+callee.String(), seed)
			continue
		}
		for _, pi := range idxs {
			if pi >= len(callee.Params) {
				continue
			}
			for _, s := range ta.paramSummary(callee, pi) {
				report(sinkCallee, in, fmt.Sprintf("passed to %s which does: %s at %s", fnShort(callee), s.What, ta.ctx.Prog.Pos(s.Instr.Pos())), seed)
			}
			if ta.paramReturned(callee, pi) {
				resultShared = true
			}
		}
	}
	return resultShared
}

// implementations resolves an interface method call to the module's methods (CHA).
func (ta *taintAnalysis) implementations(c *ssa.CallCommon) []*ssa.Function {
	var out []*ssa.Function
	iface, ok := c.Value.Type().Underlying().(*types.Interface)
	if !ok {
		return nil
	}
	for _, pk := range ta.ctx.Prog.Pkgs {
		sp := ta.ctx.Prog.ByPkg[pk.PkgPath]
		for _, m := range sp.Members {
			t, ok := m.(*ssa.Type)
			if !ok {
				continue
			}
			for _, recv := range []types.Type{t.Type(), types.NewPointer(t.Type())} {
				if !types.Implements(recv, iface) {
					continue
				}
				ms := ta.ctx.Prog.SSA.MethodSets.MethodSet(recv)
				if sel := ms.Lookup(c.Method.Pkg(), c.Method.Name()); sel != nil {
					if f := ta.ctx.Prog.SSA.MethodValue(sel); f != nil {
						out = append(out, f)
					}
				}
			}
		}
	}
	return out
}

// paramSummary: what callee may do through parameter pi (writes / escapes).
func (ta *taintAnalysis) paramSummary(callee *ssa.Function, pi int) []sink {
	key := fmt.Sprintf("%s#%d", callee.String(), pi)
	if s, ok := ta.paramMem[key]; ok {
		return s
	}
	if ta.inProg[key] {
		return nil // recursion: assume the cycle adds nothing new
	}
	if !refLike(callee.Params[pi].Type(), 0) {
		ta.paramMem[key] = nil
		return nil
	}
	ta.inProg[key] = true
	s := ta.run(callee, []ssa.Value{callee.Params[pi]})
	delete(ta.inProg, key)
	// returning the parameter itself (builder style `return b`) is not an escape of shared state by the callee:
	// the caller's result is then a reference to the same storage (paramReturned) and is followed there
	var out []sink
	for _, x := range s {
		if _, isRet := x.Instr.(*ssa.Return); isRet {
			ta.paramRet[key] = true
			continue
		}
		out = append(out, x)
	}
	ta.paramMem[key] = out
	return out
}

// paramReturned reports whether callee may return a reference derived from its parameter pi.
func (ta *taintAnalysis) paramReturned(callee *ssa.Function, pi int) bool {
	ta.paramSummary(callee, pi)
	return ta.paramRet[fmt.Sprintf("%s#%d", callee.String(), pi)]
}

// isInitFunc: package initialisers run before any other code of the package.
func isInitFunc(fn *ssa.Function) bool {
	if fn.Synthetic == "package initializer" {
		return true
	}
	return fn.Parent() == nil && fn.Signature.Recv() == nil && (fn.Name() == "init" || strings.HasPrefix(fn.Name(), "init#"))
}

// globalsOf lists the package-level variables of the module.
func globalsOf(ctx *Ctx) []*ssa.Global {
	var out []*ssa.Global
	for _, pk := range ctx.Prog.Pkgs {
		sp := ctx.Prog.ByPkg[pk.PkgPath]
		for _, m := range sp.Members {
			if g, ok := m.(*ssa.Global); ok && g.Name() != "init$guard" {
				out = append(out, g)
			}
		}
	}
	for i := 1; i < len(out); i++ {
		for j := i; j > 0 && out[j].String() < out[j-1].String(); j-- {
			out[j], out[j-1] = out[j-1], out[j]
		}
	}
	return out
}
