package rules

import (
	"fmt"
	"go/token"
	"go/types"
	"os"
	"sort"
	"strings"

	"golang.org/x/tools/go/ssa"

	"verif/tool/absint"
)

func init() { register("C15", "other", C15) }

type lineRec struct {
	Type   uint64
	K      int
	Helper string
}

func C15(ctx *Ctx) {
	R := ctx.R
	R.Explanation = "record: every emit helper is interpreted in the listing cells; the record it appends has the helper's own line type, byteCount = the number of bytes it hands to the writer, and address = the address before the advance. Both listing writers are interpreted for an arbitrary record (loop-carried state unknown) with the formatter calls recorded as guarded render events: in the arm of line type T the bytes rendered are code[address-base + j] for j = 0..K_T-1, each once and in order, where K_T is what the helpers record for T; the data-block arm ranges over code[offs : offs+byteCount]; the text writer shows the record's own address. db-chunk: EmitBytes, interpreted for an arbitrary iteration, appends data-block records whose byteCount is 16 inside the chunking branch and at most 15 (= len&15) for the remainder. pure: the mod-sets of the two writers contain no Emitter field."
	R.Trusted = []string{"go/packages + go/ssa", "absint (arbitrary-iteration mode)", "strconv.AppendInt formats as documented", "records partition the buffer over whole call histories only if helpers are the sole source of records (C19/order)"}
	R.Rule("record", "each helper records (its line type, byteCount = bytes emitted, address before the advance); each writer arm renders exactly code[address-base .. +K) of its line type, once, in order; the text writer shows the record's address")
	R.Rule("db-chunk", "every data-block record appended by EmitBytes describes at most the 16 bytes of its own line (16 for full lines, len&15 for the last)")
	R.Rule("db-address", "the data-block record starts at the emitter's address and is re-addressed only after a full line ending at byte i, to entry address + i + 1; so line k of a data block starts at entry address + 16k")
	R.Rule("pure", "WriteTextTo / WriteHexTo modify no field of the Emitter")
	R.Rule("directive-lines", "a method that takes a string and lists it (comment, label) appends, with the listing on, exactly one record of its own type carrying that string and the current address, and nothing with the listing off; each listing writer renders that string in the arm of that type, and the base address in the arm of the base record")
	R.Rule("base-directive", "the method that sets the base stores the new base and address and arms the directive for every argument (also one equal to the current base); the directive helper lists one base record with that address exactly when armed and disarms it")
	checkXbuf(ctx)
	ems, roles := emitAll(ctx)
	if len(roles.Err) > 0 {
		for _, e := range roles.Err {
			R.Fail("record", "roles:"+e, "", e)
		}
		return
	}
	// ---- helper records
	lineT, _ := roles.Struct.Field(roles.Lines).Type().Underlying().(*types.Slice)
	lineS, _ := lineT.Elem().Underlying().(*types.Struct)
	if lineS == nil {
		R.Fail("record", "lines", "", "the listing is not a slice of structs")
		return
	}
	fType, fAddr, fCount := fieldIndex(lineS, "asmLineType"), fieldIndex(lineS, "address"), fieldIndex(lineS, "byteCount")
	if fType < 0 || fAddr < 0 || fCount < 0 {
		// renamed fields: the line type is the only field of a named integer type, the address the only uint32,
		// the byte count the only int
		fType, fAddr, fCount = -1, -1, -1
		nT, nA, nC := 0, 0, 0
		for i := 0; i < lineS.NumFields(); i++ {
			ft := lineS.Field(i).Type()
			if _, isNamed := ft.(*types.Named); isNamed {
				if _, _, isInt := absint.IntType(ft); isInt {
					fType, nT = i, nT+1
				}
				continue
			}
			if b, ok := ft.(*types.Basic); ok {
				switch b.Kind() {
				case types.Uint32:
					fAddr, nA = i, nA+1
				case types.Int:
					fCount, nC = i, nC+1
				}
			}
		}
		if nT != 1 || nA != 1 || nC != 1 {
			fType = -1
		}
	}
	if fType < 0 || fAddr < 0 || fCount < 0 {
		R.Fail("record", "line-fields", "", "listing records lack asmLineType / address / byteCount")
		return
	}
	checkBaseDirective(ctx, roles, lineS, fAddr, fCount)
	directives := checkDirectiveRecords(ctx, roles, lineS, fType, fAddr)
	byType := map[uint64]lineRec{}
	helperBad := map[string]string{}
	helperOK := map[string]bool{}
	for _, e := range ems {
		for _, r := range e.Runs {
			if !r.Cell.GenText || !r.Returned || len(r.Helpers) != 1 {
				continue
			}
			h := r.Helpers[0]
			hn := h.Fn.Name()
			K := len(h.Bytes)
			var rec *absint.Struct
			nApp := 0
			for _, ev := range r.Events {
				if ev.Kind == "append" && len(ev.Args) == 2 {
					if s, ok := ev.Args[1].(*absint.Struct); ok && s.T == lineS {
						// records appended while the helper runs (by it or by what it
						// calls), other than the base directive, which carries no bytes
						inHelper := ev.Fn == h.Fn
						for _, fr := range ev.Stack {
							if fr == h.Fn.String() {
								inHelper = true
							}
						}
						bc, _ := s.F[fCount].(*absint.Int)
						if bc != nil {
							if c, isC := bc.IsConst(); isC && c == 0 && ev.Fn != h.Fn {
								inHelper = false
							}
						}
						if inHelper {
							rec = s
							nApp++
						}
					}
				}
			}
			if nApp != 1 || rec == nil {
				helperBad[hn] = fmt.Sprintf("%d listing records appended per call, want 1 (method %s, cell %s)", nApp, e.Fn.Name(), r.Cell)
				continue
			}
			tv, _ := rec.F[fType].(*absint.Int)
			av, _ := rec.F[fAddr].(*absint.Int)
			cv, _ := rec.F[fCount].(*absint.Int)
			a0, _ := r.Entry[roles.Address].(*absint.Int)
			tc, okT := uint64(0), false
			if tv != nil {
				tc, okT = tv.IsConst()
			}
			cc, okC := uint64(0), false
			if cv != nil {
				cc, okC = cv.IsConst()
			}
			switch {
			case !okT:
				helperBad[hn] = "line type is not a constant"
			case !okC || int(cc) != K:
				helperBad[hn] = fmt.Sprintf("records byteCount %s but hands %d bytes to the writer", fmtVal(rec.F[fCount]), K)
			case av == nil || a0 == nil || av.Lin.Key() != a0.Lin.Key():
				helperBad[hn] = fmt.Sprintf("records address %s, want the address before the advance %s", fmtVal(rec.F[fAddr]), fmtVal(r.Entry[roles.Address]))
			default:
				if old, ok := byType[tc]; ok && (old.K != K || old.Helper != hn) {
					helperBad[hn] = fmt.Sprintf("line type %d is recorded by %s with %d bytes and by %s with %d", tc, old.Helper, old.K, hn, K)
				} else {
					byType[tc] = lineRec{tc, K, hn}
					helperOK[hn] = true
				}
			}
		}
	}
	var hns []string
	for h := range helperOK {
		hns = append(hns, h)
	}
	for h := range helperBad {
		if !helperOK[h] {
			hns = append(hns, h)
		}
	}
	sort.Strings(hns)
	for _, h := range hns {
		if msg, bad := helperBad[h]; bad {
			R.Fail("record", "helper:"+h, "", msg)
		} else {
			R.Pass("record", "helper:"+h, "", "type, byteCount = bytes emitted, address before the advance")
		}
	}
	R.Count("emit-helpers", len(hns))
	R.Floor("emit-helpers", 1)
	// ---- writers
	ms := newModSets(ctx)
	for _, name := range []string{"WriteTextTo", "WriteHexTo"} {
		fn := ctx.Prog.Method("asm", "Emitter", name)
		if fn == nil {
			R.Fail("record", name, "", "(*Emitter)."+name+" not found")
			continue
		}
		pos := ctx.Prog.Pos(fn.Pos())
		fields, other := ms.FieldsOfParam(fn, 0, roles.Named)
		if len(fields) > 0 || len(other) > 0 {
			for f, es := range fields {
				R.Fail("pure", name+":modifies-"+roles.fieldName(f), pos, effectList(ctx, es))
			}
			if len(other) > 0 {
				R.Fail("pure", name+":other-effects", pos, effectList(ctx, other))
			}
		} else {
			R.Pass("pure", name, pos, "empty mod-set on the Emitter")
		}
		checkListingWriter(ctx, roles, fn, byType, lineS, fType, fAddr, fCount)
		checkDirectiveArms(ctx, roles, fn, directives, lineS.Field(fType).Name(), lineS.Field(fAddr).Name())
	}
	// ---- EmitBytes chunks
	checkDbChunks(ctx, roles, lineS, fType, fAddr, fCount)
}

type renderedByte struct {
	idx    *absint.Int
	guards map[string]bool
	gl     []absint.GuardInfo
}

func checkListingWriter(ctx *Ctx, roles *EmitterRoles, fn *ssa.Function, byType map[uint64]lineRec, lineS *types.Struct, fType, fAddr, fCount int) {
	R := ctx.R
	pos := ctx.Prog.Pos(fn.Pos())
	name := fn.Name()
	typeName, addrName := lineS.Field(fType).Name(), lineS.Field(fAddr).Name()
	ip := absint.New()
	ip.TraceDyn = true
	var recv *absint.Ptr
	var renders []RenderEvent
	ip.Hooks.OverrideCall = func(ip *absint.Interp, st *absint.State, f *ssa.Function, a []absint.Val) (absint.Val, bool) {
		if f.Pkg != nil && strings.HasSuffix(f.Pkg.Pkg.Path(), "/xbuf") && f.Signature.Recv() != nil {
			renders = append(renders, RenderEvent{Sink: "xbuf." + f.Name(), Vals: a[1:], Guards: ip.PathGuards(st), Pos: ip.CurPos()})
			if f.Signature.Results().Len() == 1 {
				return a[0], true
			}
			return nil, true
		}
		return nil, false
	}
	ip.Hooks.UnknownCall = func(ip *absint.Interp, st *absint.State, ev *absint.Event) (absint.Val, bool) {
		return nil, true // w.Write: the caller's writer
	}
	_, out := ip.CallFix(fn, func() ([]absint.Val, *absint.State) {
		renders = nil
		recv = &absint.Ptr{Nil: absint.TriF, Obj: ip.SymObj("a", roles.Named), T: roles.Named}
		w := &absint.Iface{Dyn: types.NewPointer(types.NewNamed(types.NewTypeName(0, nil, "userWriter", nil), types.NewStruct(nil, nil), nil)), V: &absint.Top{Key: "w"}}
		return []absint.Val{recv, w}, &absint.State{Heap: absint.NewHeap(nil)}
	})
	var imp []string
	for _, m := range ip.Imprec {
		if !strings.Contains(m, "unmodelled external") && !strings.Contains(m, "invoke on unknown") {
			imp = append(imp, m)
		}
	}
	if out == nil || len(imp) > 0 {
		R.Fail("record", name+":analysable", pos, fmt.Sprintf("not interpretable: %v", imp))
		return
	}
	for _, ev := range ip.Events {
		if ev.Kind == "index-range" {
			R.Fail("record", name+":index", ctx.Prog.Pos(ev.Pos), "an index is certainly outside its "+ev.Callee+": rendering such a line panics")
		}
	}
	checkListingLoop(ctx, fn)
	// arm of an event: the line-type comparison that is true among its guards
	armOf := func(g map[string]bool) (uint64, bool) {
		for k, v := range g {
			if !v || !strings.Contains(k, "]."+typeName+"==") {
				continue
			}
			// key looks like (0+mem0([a.lines])[..].asmLineType==N)  — take the constant
			i := strings.LastIndex(k, "==")
			var n uint64
			if _, err := fmt.Sscanf(strings.TrimSuffix(k[i+2:], ")"), "%x", &n); err == nil {
				return n, true
			}
		}
		return 0, false
	}
	if len(renders) > 0 && os.Getenv("SVDEBUG") != "" {
		for i, e := range renders {
			if i%7 == 0 {
				fmt.Println("RENDER", e.Sink, e.Guards)
				for _, v := range e.Vals {
					fmt.Println("    ", absint.ValKey(v))
				}
			}
		}
	}
	type armData struct {
		bytes []renderedByte
		addrs []string
		paths []map[string]bool // guards of every render event of the arm: the paths through it
	}
	// byteOf recognises a rendered byte of the target buffer and recovers its index term
	collectInto := func(xip *absint.Interp, ad *armData, e RenderEvent) {
		for _, v := range e.Vals {
			iv, ok := v.(*absint.Int)
			if !ok {
				continue
			}
			k := iv.Lin.Key()
			if iv.W == 8 && strings.Contains(k, "([a.code])[") {
				var idx *absint.Int
				for _, d := range xip.Events {
					if d.Kind == "dyn-load" {
						if di, ok := d.Args[0].(*absint.Int); ok && strings.HasSuffix(k, "["+di.Lin.Key()+"]") && strings.Contains(absint.ValKey(d.Args[1]), "a.code") {
							idx = di
						}
					}
				}
				ad.bytes = append(ad.bytes, renderedByte{idx: idx, guards: e.Guards})
			}
			if iv.W == 32 && strings.HasSuffix(k, "]."+addrName) {
				ad.addrs = append(ad.addrs, k)
			}
		}
	}
	arms := map[uint64]*armData{}
	for _, e := range renders {
		t, ok := armOf(e.Guards)
		if !ok {
			continue
		}
		ad := arms[t]
		if ad == nil {
			ad = &armData{}
			arms[t] = ad
		}
		collectInto(ip, ad, e)
		ad.paths = append(ad.paths, e.Guards)
	}
	var judgeFn func(xip *absint.Interp, ad *armData, rec lineRec) string
	nExtent := 0
	// singleLine interprets the writer on a listing of exactly one record of type t with byte count rec.K (other
	// fields symbolic), every loop unrolled. Sound for the whole listing only if lines are rendered independently:
	// the loop over the lines carries nothing but its index and the error from one line to the next.
	singleLine := func(t uint64, rec lineRec) string {
		for _, L := range loopsOf(fn) {
			outer := true
			for _, L2 := range loopsOf(fn) {
				if L2 != L && L2.Body[L.Header] {
					outer = false
				}
			}
			if !outer {
				continue
			}
			for _, in := range L.Header.Instrs {
				ph, ok := in.(*ssa.Phi)
				if !ok {
					continue
				}
				if _, _, isInt := absint.IntType(ph.Type()); isInt {
					continue
				}
				if ph.Type().String() == "error" {
					continue
				}
				return "the loop over the lines carries " + ph.Comment + " from one line to the next"
			}
		}
		xip := absint.New()
		xip.UnrollLoops = true
		xip.TraceDyn = true
		var xr []RenderEvent
		xip.Hooks.OverrideCall = func(ip *absint.Interp, st *absint.State, f *ssa.Function, a []absint.Val) (absint.Val, bool) {
			if f.Pkg != nil && strings.HasSuffix(f.Pkg.Pkg.Path(), "/xbuf") && f.Signature.Recv() != nil {
				xr = append(xr, RenderEvent{Sink: "xbuf." + f.Name(), Vals: a[1:], Guards: ip.PathGuards(st), Pos: ip.CurPos()})
				if f.Signature.Results().Len() == 1 {
					return a[0], true
				}
				return nil, true
			}
			return nil, false
		}
		nw := 0
		xip.Hooks.UnknownCall = func(ip *absint.Interp, st *absint.State, ev *absint.Event) (absint.Val, bool) {
			// w.Write: the caller's writer; its error result gets an identity so that the test on it can be followed both ways
			nw++
			if ci, ok := ev.Instr.(ssa.CallInstruction); ok {
				if res := ci.Common().Signature().Results(); res.Len() == 2 {
					return &absint.Tuple{E: []absint.Val{&absint.Top{T: res.At(0).Type(), Key: fmt.Sprintf("wn#%d", nw)}, &absint.Top{T: res.At(1).Type(), Key: fmt.Sprintf("werr#%d", nw)}}}, true
				}
			}
			return nil, true
		}
		S := roles.Struct
		xrecv := &absint.Ptr{Nil: absint.TriF, Obj: xip.SymObj("a", roles.Named), T: roles.Named}
		st := &absint.State{Heap: absint.NewHeap(nil)}
		lt := S.Field(roles.Lines).Type()
		lv, _ := xip.Load(st, fieldPtr(xrecv, lt, roles.Lines), lt).(*absint.Slice)
		if lv == nil {
			return "cannot build a one-line listing"
		}
		one := *lv
		one.Nil = absint.TriF
		one.Off = absint.NewConst(64, 0, true)
		one.Len = absint.NewConst(64, 1, true)
		one.Cap = absint.NewConst(64, 1, true)
		xip.Store(st, fieldPtr(xrecv, lt, roles.Lines), lt, &one)
		ep := elemPtr(&one.Base, one.ElemT, 0)
		tt, ct := lineS.Field(fType).Type(), lineS.Field(fCount).Type()
		tw, _, _ := absint.IntType(tt)
		cw, cs, _ := absint.IntType(ct)
		xip.Store(st, fieldPtr(ep, tt, fType), tt, absint.NewConst(tw, t, false))
		xip.Store(st, fieldPtr(ep, ct, fCount), ct, absint.NewConst(cw, uint64(rec.K), cs))
		w := &absint.Iface{Dyn: types.NewPointer(types.NewNamed(types.NewTypeName(0, nil, "userWriter", nil), types.NewStruct(nil, nil), nil)), V: &absint.Top{Key: "w"}}
		_, xout := xip.Call(fn, []absint.Val{xrecv, w}, nil, st)
		for _, m := range xip.Imprec {
			if !strings.Contains(m, "unmodelled external") && !strings.Contains(m, "invoke on unknown") {
				return "not interpretable: " + m
			}
		}
		if xout == nil {
			return "the writer does not return for a one-line listing"
		}
		ad := &armData{}
		for _, e := range xr {
			collectInto(xip, ad, e)
			ad.paths = append(ad.paths, e.Guards)
		}
		if msg := judgeFn(xip, ad, rec); msg != "" {
			return msg
		}
		// extent: with this record the last thing in a full buffer, a window of the target that reaches beyond the
		// record's own bytes is a slice out of range - rendering the listing would panic
		if len(ad.bytes) > 0 && ad.bytes[0].idx != nil {
			first := ad.bytes[0].idx
			for _, b := range ad.bytes {
				if b.idx != nil {
					if d, ok := xip.Ops.Sub(b.idx, first).IsConst(); ok && int64(d) < 0 {
						first = b.idx
					}
				}
			}
			for _, ev := range xip.Events {
				if ev.Kind != "slice-op" {
					continue
				}
				src, rs := ev.Args[0].(*absint.Slice), ev.Args[1].(*absint.Slice)
				if !strings.Contains(absint.ValKey(&src.Base), "a.code") || src.Off == nil || rs.Off == nil || rs.Len == nil {
					continue
				}
				nExtent++
				lo, okLo := xip.Ops.Sub(xip.Ops.Convert(rs.Off, first.W, true, first.Signed), first).IsConst()
				ln, okLn := rs.Len.IsConst()
				if !okLo || !okLn {
					continue // a window not expressed relative to the record: not judged here
				}
				if int64(lo) < 0 || int64(lo)+int64(ln) > int64(rec.K) {
					return fmt.Sprintf("takes code[record+%d : record+%d] while the record has %d byte(s): past the end of a full buffer this is out of range (at %s)", int64(lo), int64(lo)+int64(ln), rec.K, ctx.Prog.Pos(ev.Pos))
				}
			}
		}
		return ""
	}
	judge := func(xip *absint.Interp, ad *armData, rec lineRec) string {
		// one rendering per consistent path (label arms branch on undefined labels)
		sigs := map[string]map[string]bool{}
		// the paths through the arm are those of all its render events, not only of the bytes: a sub-arm (the
		// warning form of a label line) that prints text but no bytes is a path, too
		var allGuards []map[string]bool
		for _, b := range ad.bytes {
			allGuards = append(allGuards, b.guards)
		}
		// a path is a maximal guard set: keep the render events whose guards are not contained in another's
		for _, g := range ad.paths {
			maximal := true
			for _, h := range ad.paths {
				if len(h) > len(g) {
					sub := true
					for k, v := range g {
						if hv, ok := h[k]; !ok || hv != v {
							sub = false
						}
					}
					if sub {
						maximal = false
					}
				}
			}
			if maximal {
				allGuards = append(allGuards, g)
			}
		}
		for _, g := range allGuards {
			var ks []string
			for k, v := range g {
				ks = append(ks, fmt.Sprintf("%s=%v", k, v))
			}
			sort.Strings(ks)
			sigs[strings.Join(ks, "&")] = g
		}
		msg := ""
		if len(ad.bytes) == 0 && rec.K > 0 {
			msg = fmt.Sprintf("renders no byte of the target buffer (the helper %s emits %d): the line does not show what Bytes() holds", rec.Helper, rec.K)
		}
		for _, g := range sigs {
			var seq []renderedByte
			for _, b := range ad.bytes {
				ok := true
				for k, v := range b.guards {
					if gv, has := g[k]; has && gv != v {
						ok = false
					}
				}
				if ok {
					seq = append(seq, b)
				}
			}
			// loop form: one rendering site inside `for i := range d` with d = code[x : x+K]
			// stands for the K bytes code[x+i], i = 0..K-1 (the loop test in force bounds i by
			// the constant length of d)
			if len(seq) == 1 && rec.K >= 1 && seq[0].idx != nil {
				if exp, ok := expandLoopRender(xip, seq[0], rec.K); ok {
					seq = exp
				}
			}
			if len(seq) != rec.K {
				msg = fmt.Sprintf("renders %d bytes of the buffer, the helper %s emits %d", len(seq), rec.Helper, rec.K)
				continue
			}
			for j, b := range seq {
				if b.idx == nil {
					msg = "a rendered byte has no identifiable index"
					continue
				}
				want := xip.Ops.Add(seq[0].idx, absint.NewConst(seq[0].idx.W, uint64(j), true)).Lin.Key()
				if b.idx.Lin.Key() != want {
					msg = fmt.Sprintf("byte %d rendered is code[%s], want code[%s]", j, b.idx.Lin.Key(), want)
				}
			}
			// first index = address - base of the record
			if len(seq) > 0 && seq[0].idx != nil {
				k0 := seq[0].idx.Lin.Key()
				if !(strings.Contains(k0, "."+addrName) && strings.Contains(k0, "-1*a.base")) {
					msg = fmt.Sprintf("the first byte rendered is code[%s], not code[record.address - base]", k0)
				}
			}
		}
		if name == "WriteTextTo" && len(ad.addrs) == 0 {
			msg = "the text line does not show the record's address"
		}
		return msg
	}
	judgeFn = judge
	_ = fAddr
	var types_ []uint64
	for t := range byType {
		types_ = append(types_, t)
	}
	sort.Slice(types_, func(i, j int) bool { return types_[i] < types_[j] })
	for _, t := range types_ {
		rec := byType[t]
		key := fmt.Sprintf("%s:line-type-%d(%s)", name, t, rec.Helper)
		ad := arms[t]
		if ad == nil {
			if m2 := singleLine(t, rec); m2 == "" {
				R.Pass("record", key, pos, fmt.Sprintf("renders code[address-base .. +%d) once, in order (one line of this type rendered with its loops unrolled)", rec.K))
			} else {
				R.Fail("record", key, pos, "the writer has no arm for this line type: its bytes never appear in the listing; one line alone: "+m2)
			}
			continue
		}
		msg := judge(ip, ad, rec)
		if msg == "" {
			// the extent of the windows taken is judged on one line alone (where that reading applies)
			if m2 := singleLine(t, rec); strings.HasPrefix(m2, "takes code[") {
				msg = m2
				R.Fail("record", key, pos, msg)
				continue
			}
		}
		if msg != "" {
			// merged arms, helpers looping over a slice whose length is the record's byte count: decide the same
			// obligations on the rendering of one line of this very type and count
			if m2 := singleLine(t, rec); m2 == "" {
				R.Pass("record", key, pos, fmt.Sprintf("renders code[address-base .. +%d) once, in order (one line of this type rendered with its loops unrolled)", rec.K))
				continue
			} else {
				msg += "; one line alone: " + m2
			}
		}
		if msg != "" {
			R.Fail("record", key, pos, msg)
		} else {
			R.Pass("record", key, pos, fmt.Sprintf("renders code[address-base .. +%d) once, in order", rec.K))
		}
	}
	R.Count("writer-arms", len(arms))
	R.Count("target-windows-judged:"+name, nExtent)
}

// expandLoopRender recognises a byte rendered at code[x + i] where i is the counter of a
// loop whose test in force is i < K, and returns the K renderings it stands for.
func expandLoopRender(ip *absint.Interp, b renderedByte, K int) ([]renderedByte, bool) {
	var lv *absint.Atom
	for _, d := range absint.LinDeps(b.idx.Lin) {
		if strings.HasPrefix(d.Key, "loopvar:") {
			if lv != nil {
				return nil, false
			}
			lv = d
		}
	}
	if os.Getenv("SVDEBUG") != "" {
		fmt.Println("LOOPRENDER idx", b.idx.Lin.Key(), "lv", lv != nil)
		for k, v := range b.guards {
			fmt.Println("    guard", trunc(k), v)
		}
	}
	if lv == nil {
		return nil, false
	}
	w := b.idx.W
	lvInt := absint.NewSym(w, lv, true)
	for _, off := range []uint64{0, 1} { // index loops count from the variable itself, range loops from variable+1
		i := ip.Ops.Add(lvInt, absint.NewConst(w, off, true))
		bound := fmt.Sprintf("(%s<%x)", i.Lin.Key(), K)
		if v, ok := b.guards[bound]; !ok || !v {
			continue
		}
		base := ip.Ops.Sub(b.idx, i)
		for _, d := range absint.LinDeps(base.Lin) {
			if d == lv {
				return nil, false
			}
		}
		var out []renderedByte
		for j := 0; j < K; j++ {
			out = append(out, renderedByte{idx: ip.Ops.Add(base, absint.NewConst(w, uint64(j), true)), guards: b.guards})
		}
		return out, true
	}
	return nil, false
}

// xbufSink treats the xbuf.B methods as sinks (they only append what they are given,
// see xbuf.go) wherever the text they build is not what a rule looks at.
func xbufSink(ip *absint.Interp, st *absint.State, f *ssa.Function, a []absint.Val) (absint.Val, bool) {
	if f.Pkg != nil && strings.HasSuffix(f.Pkg.Pkg.Path(), "/xbuf") && f.Signature.Recv() != nil {
		// the buffer grows by the number of bytes the method appends (what xbuf-meaning
		// establishes); its contents are not modelled
		if p, ok := a[0].(*absint.Ptr); ok && p.Obj != nil && len(f.Params) > 0 {
			if pt, ok := f.Params[0].Type().Underlying().(*types.Pointer); ok {
				if sl, ok := ip.Load(st, p, pt.Elem()).(*absint.Slice); ok && sl.Len != nil {
					var add *absint.Int
					k := func(n uint64) *absint.Int { return absint.NewConst(sl.Len.W, n, sl.Len.Signed) }
					switch f.Name() {
					case "C":
						add = k(1)
					case "X02":
						add = k(2)
					case "X04":
						add = k(4)
					case "X06":
						add = k(6)
					case "S":
						if s, ok := a[1].(*absint.Str); ok && s.Known {
							add = k(uint64(len(s.S)))
						}
					case "Sb":
						if s, ok := a[1].(*absint.Slice); ok && s.Len != nil && s.Len.W == sl.Len.W {
							add = s.Len
						}
					}
					ns := *sl
					ns.Nil = absint.TriF
					if add != nil {
						ns.Len = ip.Ops.Add(sl.Len, add)
					} else {
						ns.Len = absint.NewTopInt(ip.In, sl.Len.W, sl.Len.Signed, "xbuf-len")
					}
					ns.Cap = ip.Ops.Join(sl.Cap, ns.Len)
					ip.Store(st, p, pt.Elem(), &ns)
				}
			}
		}
		if f.Signature.Results().Len() == 1 && len(a) > 0 {
			return a[0], true
		}
		return nil, true
	}
	return nil, false
}

func checkDbChunksInductive(ctx *Ctx, roles *EmitterRoles, lineS *types.Struct, fType, fAddr, fCount int, R *oblRecorder) {
	fn := ctx.Prog.Method("asm", "Emitter", "EmitBytes")
	if fn == nil {
		R.Fail("db-chunk", "EmitBytes", "", "(*Emitter).EmitBytes not found")
		return
	}
	pos := ctx.Prog.Pos(fn.Pos())
	ip := absint.New()
	ip.TraceStores = true
	ip.Hooks.OverrideCall = xbufSink
	var recv *absint.Ptr
	S := roles.Struct
	_, out := ip.CallFix(fn, func() ([]absint.Val, *absint.State) {
		recv = &absint.Ptr{Nil: absint.TriF, Obj: ip.SymObj("a", roles.Named), T: roles.Named}
		st := &absint.State{Heap: absint.NewHeap(nil)}
		ip.Store(st, fieldPtr(recv, S.Field(roles.GenText).Type(), roles.GenText), S.Field(roles.GenText).Type(), &absint.Bool{K: absint.TriT})
		bt := types.NewSlice(types.Typ[types.Byte])
		b := ip.Load(st, &absint.Ptr{Obj: ip.SymObj("b", types.NewPointer(bt))}, bt)
		return []absint.Val{recv, b}, st
	})
	var imp []string
	for _, m := range ip.Imprec {
		if !strings.Contains(m, "unmodelled external") {
			imp = append(imp, m)
		}
	}
	if out == nil || len(imp) > 0 {
		R.Fail("db-chunk", "EmitBytes:analysable", pos, fmt.Sprintf("not interpretable: %v", imp))
		return
	}
	loops := loopsOf(fn)
	// db-address: the record variable starts at the emitter's address; inside the loop
	// it is re-addressed only when a full line has just been appended (i&15 == 15), to
	// entry address + i + 1. By induction line k starts at entry address + 16k.
	entryAddr := ip.Load(&absint.State{Heap: absint.NewHeap(nil)}, fieldPtr(recv, S.Field(roles.Address).Type(), roles.Address), S.Field(roles.Address).Type())
	ea, _ := entryAddr.(*absint.Int)
	nFirst, nNext := 0, 0
	for _, se := range ip.Stores {
		if se.Fn != fn || se.Obj == nil || se.Obj.Kind != absint.ObjFresh || len(se.Path) != 1 || se.Path[0].Field != fAddr {
			continue
		}
		if st, ok := se.Obj.T.Underlying().(*types.Struct); !ok || st != lineS {
			continue
		}
		p := ctx.Prog.Pos(se.Pos)
		v, _ := se.V.(*absint.Int)
		if v == nil || ea == nil {
			R.Fail("db-address", "EmitBytes:line-address", p, "record address is not an integer")
			continue
		}
		// which loop guards are in force
		var idx *absint.Int
		for _, g := range se.GuardL {
			if g.Cmp != nil && g.Cmp.Op == "<" && g.Outcome {
				if y, ok := g.Cmp.Y.(*absint.Int); ok && y.Lin != nil && y.Lin.Key() == "0+len(b)" {
					if x, ok := g.Cmp.X.(*absint.Int); ok && x.Lin != nil && strings.HasSuffix(x.Lin.Key(), "rangeindex") && strings.HasPrefix(x.Lin.Key(), "1+loopvar:") {
						idx = x
					}
				}
			}
		}
		if idx == nil {
			// before the loop (or after it)
			inLoop := false
			for _, g := range se.GuardL {
				if strings.Contains(g.Key, "loopvar:") {
					inLoop = true
				}
			}
			if inLoop {
				R.Fail("db-address", "EmitBytes:next-line", p, "the record is re-addressed in a loop position the rule cannot place: "+trunc(fmtVal(v)))
				continue
			}
			nFirst++
			if v.Lin == nil || v.Lin.Key() != ea.Lin.Key() {
				R.Fail("db-address", "EmitBytes:first-line", p, fmt.Sprintf("the first data line records address %s, want the emitter's address %s", trunc(fmtVal(v)), ea.Lin.Key()))
			} else {
				R.Pass("db-address", "EmitBytes:first-line", p, "address = "+ea.Lin.Key())
			}
			continue
		}
		nNext++
		// under "byte i completes a line": i mod 16 == 15, however it is spelled
		full := false
		k15 := absint.NewConst(idx.W, 15, idx.Signed)
		if wantProp, wantVal := propName("==", ip.Ops.And(idx, k15), k15); wantProp != "" {
			props := guardProps(&absint.BoolCtx{Conds: ip.In.Conds}, se.GuardL)
			if v, ok := props[wantProp]; ok && v == wantVal {
				full = true
			}
		}
		want := ip.Ops.Add(ip.Ops.Add(ea, ip.Ops.Convert(idx, 32, true, false)), absint.NewConst(32, 1, false))
		switch {
		case !full:
			R.Fail("db-address", "EmitBytes:next-line", p, "the record is re-addressed at a byte that does not complete a line of 16")
		case v.Lin == nil || want.Lin == nil || v.Lin.Key() != want.Lin.Key():
			R.Fail("db-address", "EmitBytes:next-line", p, fmt.Sprintf("after the line ending at byte i the next line records address %s, want %s (entry address + i + 1)", trunc(fmtVal(v)), want.Lin.Key()))
		default:
			R.Pass("db-address", "EmitBytes:next-line", p, "after a full line ending at byte i: address = entry address + i + 1 = "+want.Lin.Key())
		}
	}
	if nFirst == 0 || nNext == 0 {
		R.Fail("db-address", "EmitBytes:stores", pos, fmt.Sprintf("found %d initial and %d in-loop assignments of the data record's address, want at least one of each", nFirst, nNext))
	}
	n := 0
	for _, ev := range ip.Events {
		if ev.Kind != "append" || len(ev.Args) != 2 || ev.Fn != fn {
			continue
		}
		rec, ok := ev.Args[1].(*absint.Struct)
		if !ok || rec.T != lineS {
			continue
		}
		n++
		inLoop := false
		for _, l := range loops {
			if ev.Instr != nil && l.Body[ev.Instr.Block()] {
				inLoop = true
			}
		}
		cv, _ := rec.F[fCount].(*absint.Int)
		key := "EmitBytes:remainder-line"
		if inLoop {
			key = "EmitBytes:full-line"
		}
		p := ctx.Prog.Pos(ev.Pos)
		switch {
		case cv == nil:
			R.Fail("db-chunk", key, p, "byteCount is not an integer")
		case inLoop:
			if c, ok := cv.IsConst(); !ok || c != 16 {
				R.Fail("db-chunk", key, p, fmt.Sprintf("a line appended after every 16th byte records byteCount %s, want 16", cv))
			} else {
				R.Pass("db-chunk", key, p, "byteCount 16")
			}
		default:
			if cv.Hi > 15 {
				R.Fail("db-chunk", key, p, fmt.Sprintf("the last line records byteCount %s (up to %d), but it holds fewer than 16 bytes", trunc(cv.Lin.Key()), cv.Hi))
			} else {
				R.Pass("db-chunk", key, p, "byteCount "+cv.Lin.Key()+" <= 15")
			}
		}
	}
	if n < 2 {
		R.Fail("db-chunk", "EmitBytes:appends", pos, fmt.Sprintf("%d data-block records appended, want one per full line and one for the remainder", n))
	}
}

// oblRecorder collects obligations so that a caller can decide how to report them.
type oblRecorder struct {
	items []oblItem
}
type oblItem struct {
	ok                   bool
	rule, key, pos, text string
}

func (r *oblRecorder) Fail(rule, key, pos, text string) {
	r.items = append(r.items, oblItem{false, rule, key, pos, text})
}
func (r *oblRecorder) Pass(rule, key, pos, text string) {
	r.items = append(r.items, oblItem{true, rule, key, pos, text})
}

// checkDbChunks decides how EmitBytes splits a data block into listing records. The
// inductive rules (checkDbChunksInductive) prove, for the loop as written today, that
// line k of any block starts at entry address + 16k and carries its own byte count. A
// differently written loop (one record per chunk of a counted outer loop, ...) is not
// matched by them; then the records are computed outright for every block length up to
// dbBoundedMax (the interpretation follows the single path a constant length leaves,
// bytes symbolic) and must tile the block: first record at the entry address, each next
// one where the previous ended, counts adding up to the length.
const dbBoundedMax = 80

func checkDbChunks(ctx *Ctx, roles *EmitterRoles, lineS *types.Struct, fType, fAddr, fCount int) {
	R := ctx.R
	rec := &oblRecorder{}
	checkDbChunksInductive(ctx, roles, lineS, fType, fAddr, fCount, rec)
	indOK := true
	for _, it := range rec.items {
		if !it.ok {
			indOK = false
		}
	}
	fn := ctx.Prog.Method("asm", "Emitter", "EmitBytes")
	bad, pos := "", ""
	if fn != nil {
		pos = ctx.Prog.Pos(fn.Pos())
		bad = dbBoundedTiling(ctx, roles, lineS, fType, fAddr, fCount, fn)
	}
	switch {
	case bad != "":
		// wrong at a concrete length: report that, and what the inductive rules said
		R.Fail("db-chunk", "EmitBytes:tiling", pos, bad)
		for _, it := range rec.items {
			if !it.ok {
				R.Fail(it.rule, it.key, it.pos, it.text)
			}
		}
	case indOK:
		for _, it := range rec.items {
			R.Pass(it.rule, it.key, it.pos, it.text)
		}
		R.Pass("db-chunk", "EmitBytes:tiling", pos, fmt.Sprintf("block lengths 0..%d: the records tile the block (and, by the inductive rules, so do those of every length)", dbBoundedMax))
	default:
		var why []string
		for _, it := range rec.items {
			if !it.ok {
				why = append(why, it.key+": "+it.text)
			}
		}
		R.Pass("db-chunk", "EmitBytes:tiling", pos, fmt.Sprintf("block lengths 0..%d: the records tile the block; the loop is not in the form the inductive rules recognise, so longer blocks are not decided (%s)", dbBoundedMax, trunc(strings.Join(why, "; "))))
	}
}

// dbBoundedTiling computes the data records of EmitBytes for each constant block length.
func dbBoundedTiling(ctx *Ctx, roles *EmitterRoles, lineS *types.Struct, fType, fAddr, fCount int, fn *ssa.Function) string {
	S := roles.Struct
	for LL := 0; LL <= 2*dbBoundedMax+1; LL++ {
		// every length with the emitter's other boolean switches (base directive already
		// emitted or not) both ways; no target buffer, so that capacity plays no part
		L, switches := LL/2, LL%2 == 1
		ip := absint.New()
		ip.UnrollLoops = true
		forked := false
		ip.Hooks.Branch = func(*absint.Interp, *absint.Bool, *ssa.If) { forked = true }
		ip.Hooks.OverrideCall = xbufSink
		// strings.Builder: only its length matters (and only where the code asks for it)
		blen := map[string]int{}
		known := map[string]bool{}
		ip.Hooks.ExtCall = func(ip *absint.Interp, st *absint.State, ev *absint.Event) (absint.Val, bool) {
			if !strings.HasPrefix(ev.Callee, "(*strings.Builder).") || len(ev.Args) == 0 {
				return nil, false
			}
			id := absint.ValKey(ev.Args[0])
			if _, seen := known[id]; !seen {
				known[id] = true
			}
			add := func(n int, ok bool) {
				if ok {
					blen[id] += n
				} else {
					known[id] = false
				}
			}
			switch ev.Callee[len("(*strings.Builder)."):] {
			case "Reset":
				blen[id], known[id] = 0, true
				return nil, true
			case "WriteString":
				if s, ok := ev.Args[1].(*absint.Str); ok && s.Known {
					add(len(s.S), true)
				} else {
					add(0, false)
				}
				return &absint.Tuple{E: []absint.Val{absint.NewConst(64, 0, true), &absint.Top{Key: "nil"}}}, true
			case "Write":
				if sl, ok := ev.Args[1].(*absint.Slice); ok {
					if n, isC := sl.Len.IsConst(); isC {
						add(int(n), true)
					} else {
						add(0, false)
					}
				} else {
					add(0, false)
				}
				return &absint.Tuple{E: []absint.Val{absint.NewConst(64, 0, true), &absint.Top{Key: "nil"}}}, true
			case "WriteByte":
				add(1, true)
				return &absint.Top{Key: "nil"}, true
			case "WriteRune":
				add(0, false)
				return &absint.Tuple{E: []absint.Val{absint.NewConst(64, 0, true), &absint.Top{Key: "nil"}}}, true
			case "Len":
				if known[id] {
					return absint.NewConst(64, uint64(blen[id]), true), true
				}
				return nil, false
			case "String":
				return &absint.Str{}, true
			case "Grow":
				return nil, true
			}
			return nil, false
		}
		recv := &absint.Ptr{Nil: absint.TriF, Obj: ip.SymObj("a", roles.Named), T: roles.Named}
		st := &absint.State{Heap: absint.NewHeap(nil)}
		ip.Store(st, fieldPtr(recv, S.Field(roles.GenText).Type(), roles.GenText), S.Field(roles.GenText).Type(), &absint.Bool{K: absint.TriT})
		for fi := 0; fi < S.NumFields(); fi++ {
			if bt, ok := S.Field(fi).Type().Underlying().(*types.Basic); ok && bt.Kind() == types.Bool && fi != roles.GenText {
				k := absint.TriF
				if switches {
					k = absint.TriT
				}
				ip.Store(st, fieldPtr(recv, S.Field(fi).Type(), fi), S.Field(fi).Type(), &absint.Bool{K: k})
			}
		}
		ct := S.Field(roles.Code).Type()
		if cv, ok := ip.Load(st, fieldPtr(recv, ct, roles.Code), ct).(*absint.Slice); ok {
			ip.Store(st, fieldPtr(recv, ct, roles.Code), ct, &absint.Slice{Nil: absint.TriT, ElemT: cv.ElemT, Off: absint.NewConst(64, 0, true), Len: absint.NewConst(64, 0, true), Cap: absint.NewConst(64, 0, true)})
		}
		bt := types.NewSlice(types.Typ[types.Byte])
		bv, _ := ip.Load(st, &absint.Ptr{Obj: ip.SymObj("b", types.NewPointer(bt))}, bt).(*absint.Slice)
		if bv == nil {
			return "cannot build a symbolic data block"
		}
		bv.Nil = absint.TriF
		bv.Len = absint.NewConst(64, uint64(L), true)
		bv.Cap = absint.NewConst(64, uint64(L), true)
		entry, _ := ip.Load(st, fieldPtr(recv, S.Field(roles.Address).Type(), roles.Address), S.Field(roles.Address).Type()).(*absint.Int)
		_, out := ip.Call(fn, []absint.Val{recv, bv}, nil, st)
		var imp []string
		for _, m := range ip.Imprec {
			if !strings.Contains(m, "unmodelled external") {
				imp = append(imp, m)
			}
		}
		if len(imp) > 0 || forked || entry == nil {
			return fmt.Sprintf("block length %d: the records cannot be computed (%v, undecided branch: %v)", L, imp, forked)
		}
		if out == nil {
			continue // refused (does not fit): nothing recorded is part of the program
		}
		next := uint64(0)
		for _, ev := range ip.Events {
			if ev.Kind != "append" || len(ev.Args) != 2 {
				continue
			}
			r, ok := ev.Args[1].(*absint.Struct)
			if !ok || r.T != lineS {
				continue
			}
			cnt, _ := r.F[fCount].(*absint.Int)
			adr, _ := r.F[fAddr].(*absint.Int)
			if cnt == nil || adr == nil {
				return fmt.Sprintf("block length %d: a record without address or count", L)
			}
			c, isC := cnt.IsConst()
			if !isC {
				return fmt.Sprintf("block length %d: a record's byte count is not determined by the length (%s)", L, trunc(cnt.Lin.Key()))
			}
			if c == 0 {
				continue // directive records (base) carry no bytes
			}
			off, isC := ip.Ops.Sub(adr, entry).IsConst()
			if !isC {
				return fmt.Sprintf("block length %d: a record's address is %s, not the entry address plus a constant", L, trunc(adr.Lin.Key()))
			}
			if off != next {
				return fmt.Sprintf("block length %d: a record starts at entry+%d, the previous one ended at entry+%d", L, off, next)
			}
			next += c
		}
		if next != uint64(L) {
			return fmt.Sprintf("block length %d: the records cover %d bytes", L, next)
		}
	}
	return ""
}

// checkBaseDirective: "base directives appear where they were issued". The flag that arms the directive is the
// boolean field the base setter stores true into.
func checkBaseDirective(ctx *Ctx, roles *EmitterRoles, lineS *types.Struct, fAddr, fCount int) {
	R := ctx.R
	S := roles.Struct
	named := roles.Named
	// the setter: an exported method with one integer parameter that stores the base field
	var setters []*ssa.Function
	ms := ctx.Prog.SSA.MethodSets.MethodSet(types.NewPointer(named))
	for i := 0; i < ms.Len(); i++ {
		fn := ctx.Prog.SSA.MethodValue(ms.At(i))
		if fn == nil || fn.Blocks == nil || !ms.At(i).Obj().Exported() || len(fn.Params) != 2 {
			continue
		}
		if _, _, isInt := absint.IntType(fn.Params[1].Type()); !isInt {
			continue
		}
		for _, b := range fn.Blocks {
			for _, in := range b.Instrs {
				if st, ok := in.(*ssa.Store); ok {
					if fa, ok := st.Addr.(*ssa.FieldAddr); ok && fa.Field == roles.Base && fa.X == ssa.Value(fn.Params[0]) {
						setters = append(setters, fn)
					}
				}
			}
		}
	}
	R.Count("base-setters", len(setters))
	if len(setters) == 0 {
		R.Pass("base-directive", "none", "", "no exported method sets the base: nothing to list")
		return
	}
	armed := -1
	for _, fn := range setters {
		pos := ctx.Prog.Pos(fn.Pos())
		key := "setter:" + fn.Name()
		ip := absint.New()
		recv := &absint.Ptr{Nil: absint.TriF, Obj: ip.SymObj("a", named), T: named}
		st := &absint.State{Heap: absint.NewHeap(nil)}
		w, sg, _ := absint.IntType(fn.Params[1].Type())
		arg := absint.NewSym(w, ip.In.Atom("newbase", w, ^uint64(0)>>(64-uint(w))), sg)
		_, out := ip.Call(fn, []absint.Val{recv, arg}, nil, st)
		if out == nil || len(ip.Imprec) > 0 {
			R.Fail("base-directive", key, pos, fmt.Sprintf("not interpretable: %v", ip.Imprec))
			continue
		}
		var msgs []string
		for _, f := range []int{roles.Base, roles.Address} {
			v, _ := ip.Load(out, fieldPtr(recv, S.Field(f).Type(), f), S.Field(f).Type()).(*absint.Int)
			if v == nil || v.Lin.Key() != arg.Lin.Key() {
				msgs = append(msgs, fmt.Sprintf("%s becomes %s, want the argument for every argument", roles.fieldName(f), fmtVal(ip.Load(out, fieldPtr(recv, S.Field(f).Type(), f), S.Field(f).Type()))))
			}
		}
		nTrue := 0
		for f := 0; f < S.NumFields(); f++ {
			if bt, ok := S.Field(f).Type().Underlying().(*types.Basic); !ok || bt.Kind() != types.Bool || f == roles.GenText {
				continue
			}
			if bv, ok := ip.Load(out, fieldPtr(recv, S.Field(f).Type(), f), S.Field(f).Type()).(*absint.Bool); ok && bv.K == absint.TriT {
				nTrue++
				armed = f
			}
		}
		if nTrue != 1 {
			msgs = append(msgs, fmt.Sprintf("%d boolean fields are true after the call whatever the state before, want exactly one (the directive is armed unconditionally)", nTrue))
		}
		if len(msgs) > 0 {
			R.Fail("base-directive", key, pos, strings.Join(msgs, "; "))
		} else {
			R.Pass("base-directive", key, pos, "base = address = argument, directive armed, for every argument and state")
		}
	}
	if armed < 0 {
		return
	}
	// the helper that lists the directive: the module method without parameters that clears the armed flag
	for i := 0; i < ms.Len(); i++ {
		fn := ctx.Prog.SSA.MethodValue(ms.At(i))
		if fn == nil || fn.Blocks == nil || len(fn.Params) != 1 {
			continue
		}
		clears := false
		for _, b := range fn.Blocks {
			for _, in := range b.Instrs {
				if st, ok := in.(*ssa.Store); ok {
					if fa, ok := st.Addr.(*ssa.FieldAddr); ok && fa.Field == armed && fa.X == ssa.Value(fn.Params[0]) {
						clears = true
					}
				}
			}
		}
		if !clears {
			continue
		}
		pos := ctx.Prog.Pos(fn.Pos())
		checkListerCalled(ctx, roles, fn)
		for _, on := range []bool{true, false} {
			key := fmt.Sprintf("lister:%s:armed=%v", fn.Name(), on)
			ip := absint.New()
			recv := &absint.Ptr{Nil: absint.TriF, Obj: ip.SymObj("a", named), T: named}
			st := &absint.State{Heap: absint.NewHeap(nil)}
			k := absint.TriF
			if on {
				k = absint.TriT
			}
			ip.Store(st, fieldPtr(recv, S.Field(armed).Type(), armed), S.Field(armed).Type(), &absint.Bool{K: k})
			ip.Store(st, fieldPtr(recv, S.Field(roles.GenText).Type(), roles.GenText), S.Field(roles.GenText).Type(), &absint.Bool{K: absint.TriT})
			base0, _ := ip.Load(st, fieldPtr(recv, S.Field(roles.Base).Type(), roles.Base), S.Field(roles.Base).Type()).(*absint.Int)
			addr0, _ := ip.Load(st, fieldPtr(recv, S.Field(roles.Address).Type(), roles.Address), S.Field(roles.Address).Type()).(*absint.Int)
			_, out := ip.Call(fn, []absint.Val{recv}, nil, st)
			if out == nil || len(ip.Imprec) > 0 {
				R.Fail("base-directive", key, pos, fmt.Sprintf("not interpretable: %v", ip.Imprec))
				continue
			}
			var recs []*absint.Struct
			for _, ev := range ip.Events {
				if ev.Kind == "append" && len(ev.Args) == 2 {
					if sv, ok := ev.Args[1].(*absint.Struct); ok && sv.T == lineS {
						recs = append(recs, sv)
					}
				}
			}
			after, _ := ip.Load(out, fieldPtr(recv, S.Field(armed).Type(), armed), S.Field(armed).Type()).(*absint.Bool)
			msg := ""
			switch {
			case !on && len(recs) != 0:
				msg = "a base record is listed although no base was set since the last one"
			case on && len(recs) != 1:
				msg = fmt.Sprintf("%d records listed for an armed directive, want 1", len(recs))
			case on:
				av, _ := recs[0].F[fAddr].(*absint.Int)
				cv, _ := recs[0].F[fCount].(*absint.Int)
				// (between setting the base and the next emission nothing moves the address: either field is the base)
				if av == nil || base0 == nil || addr0 == nil || (av.Lin.Key() != base0.Lin.Key() && av.Lin.Key() != addr0.Lin.Key()) {
					msg = "the base record does not carry the base address: " + fmtVal(recs[0].F[fAddr])
				} else if c, isC := cv.IsConst(); cv == nil || !isC || c != 0 {
					msg = "the base record claims bytes of the program"
				} else if after == nil || after.K != absint.TriF {
					msg = "the directive stays armed after it was listed: it would be listed again"
				}
			}
			if msg != "" {
				R.Fail("base-directive", key, pos, msg)
			} else {
				R.Pass("base-directive", key, pos, map[bool]string{true: "one base record with the base address, then disarmed", false: "nothing listed"}[on])
			}
		}
	}
}

// checkListingLoop: every line is written. The loop over the lines is left early only when the caller's writer
// reported an error: an edge out of the loop other than the loop test's is the non-nil edge of a nil test of an
// error value.
func checkListingLoop(ctx *Ctx, fn *ssa.Function) {
	R := ctx.R
	name := fn.Name()
	loops := loopsOf(fn)
	n := 0
	for _, L := range loops {
		outer := true
		for _, L2 := range loops {
			if L2 != L && L2.Body[L.Header] {
				outer = false
			}
		}
		if !outer {
			continue
		}
		n++
		msg := ""
		for b := range L.Body {
			for si, sc := range b.Succs {
				if L.Body[sc] || b == L.Header {
					continue
				}
				okExit := false
				if iff, isIf := b.Instrs[len(b.Instrs)-1].(*ssa.If); isIf {
					if cmp, isB := iff.Cond.(*ssa.BinOp); isB && (cmp.Op == token.NEQ || cmp.Op == token.EQL) {
						if c, isC := cmp.Y.(*ssa.Const); isC && c.Value == nil && cmp.X.Type().String() == "error" {
							nonNilEdge := 0
							if cmp.Op == token.EQL {
								nonNilEdge = 1
							}
							okExit = si == nonNilEdge
						}
					}
				}
				if !okExit {
					msg = fmt.Sprintf("the loop over the lines can be left at %s for a reason other than a write error: the lines after it are not written", ctx.Prog.Pos(b.Instrs[len(b.Instrs)-1].Pos()))
				}
			}
			if _, isRet := b.Instrs[len(b.Instrs)-1].(*ssa.Return); isRet {
				msg = "the loop over the lines returns from inside"
			}
		}
		if msg != "" {
			R.Fail("record", name+":every-line", ctx.Prog.Pos(fn.Pos()), msg)
		} else {
			R.Pass("record", name+":every-line", ctx.Prog.Pos(fn.Pos()), "the loop over the lines ends early only on a write error")
		}
	}
	_ = n
}

// checkListerCalled: "at the positions where they were issued" - every function that appends a record of its own to
// the listing has called the directive helper on the same emitter before (so a pending base directive is listed
// in front of that record, whatever kind of record it is).
func checkListerCalled(ctx *Ctx, roles *EmitterRoles, lister *ssa.Function) {
	R := ctx.R
	n := 0
	sites := staticCallSites(ctx.Prog.AllFuncs())
	// listerBefore: the lister is called on recv before instruction `at` of fn - in fn itself or, for an unexported
	// helper all of whose callers are known, in every caller before it calls the helper with the same emitter
	var listerBefore func(fn *ssa.Function, at ssa.Instruction, recv ssa.Value, depth int) bool
	listerBefore = func(fn *ssa.Function, at ssa.Instruction, recv ssa.Value, depth int) bool {
		for _, b2 := range fn.Blocks {
			for _, in2 := range b2.Instrs {
				c2, ok := in2.(*ssa.Call)
				if !ok || c2.Call.StaticCallee() != lister || len(c2.Call.Args) == 0 || c2.Call.Args[0] != recv {
					continue
				}
				if b2 == at.Block() && instrIndex(c2) < instrIndex(at) || b2 != at.Block() && b2.Dominates(at.Block()) {
					return true
				}
			}
		}
		if depth >= 3 || sites.asValue[fn] || len(sites.sites[fn]) == 0 || (fn.Object() != nil && fn.Object().Exported()) || len(fn.Params) == 0 || recv != ssa.Value(fn.Params[0]) {
			return false
		}
		for _, cs := range sites.sites[fn] {
			if len(cs.Call.Args) == 0 || !listerBefore(cs.Parent(), cs, cs.Call.Args[0], depth+1) {
				return false
			}
		}
		return true
	}
	for _, fn := range ctx.Prog.AllFuncs() {
		if fn == lister || fn.Blocks == nil || len(fn.Params) == 0 || !types.Identical(fn.Params[0].Type(), types.NewPointer(roles.Named)) {
			continue
		}
		recv := fn.Params[0]
		for _, b := range fn.Blocks {
			for _, in := range b.Instrs {
				c, ok := in.(*ssa.Call)
				if !ok {
					continue
				}
				bi, isB := c.Call.Value.(*ssa.Builtin)
				if !isB || bi.Name() != "append" || len(c.Call.Args) != 2 {
					continue
				}
				ld, isLd := c.Call.Args[0].(*ssa.UnOp)
				if !isLd {
					continue
				}
				fa, isFA := ld.X.(*ssa.FieldAddr)
				if !isFA || fa.Field != roles.Lines || fa.X != ssa.Value(recv) {
					continue
				}
				sl, isSl := c.Call.Args[1].(*ssa.Slice)
				if !isSl {
					continue // another list spread into this one (Append)
				}
				if al, isAl := sl.X.(*ssa.Alloc); !isAl || al.Comment != "varargs" {
					continue
				}
				n++
				called := listerBefore(fn, c, recv, 0)
				key := "lister-called:" + fn.Name()
				if called {
					R.Pass("base-directive", key, ctx.Prog.Pos(c.Pos()), "a pending base directive is listed before this record")
				} else {
					R.Fail("base-directive", key, ctx.Prog.Pos(c.Pos()), "a record is appended to the listing without listing a pending base directive first ("+lister.Name()+" is not called before it): the directive would appear later than where it was issued, or never")
				}
			}
		}
	}
	R.Count("record-appending-sites", n)
}

// checkDirectiveRecords: the recording side of comments and labels. Returns line type -> name of the record field
// that carries the payload (plus the base record's type -> "address").
func checkDirectiveRecords(ctx *Ctx, roles *EmitterRoles, lineS *types.Struct, fType, fAddr int) map[uint64]string {
	R := ctx.R
	out := map[uint64]string{}
	ms := ctx.Prog.SSA.MethodSets.MethodSet(types.NewPointer(roles.Named))
	n := 0
	for i := 0; i < ms.Len(); i++ {
		fn := ctx.Prog.SSA.MethodValue(ms.At(i))
		if fn == nil || fn.Blocks == nil || !ms.At(i).Obj().Exported() || len(fn.Params) != 2 {
			continue
		}
		if b, ok := fn.Params[1].Type().Underlying().(*types.Basic); !ok || b.Info()&types.IsString == 0 {
			continue
		}
		// structurally: appends a record of its own to the listing
		appends := false
		for _, b := range fn.Blocks {
			for _, in := range b.Instrs {
				if c, ok := in.(*ssa.Call); ok {
					if bi, isB := c.Call.Value.(*ssa.Builtin); isB && bi.Name() == "append" && len(c.Call.Args) == 2 {
						if ld, ok := c.Call.Args[0].(*ssa.UnOp); ok {
							if fa, ok := ld.X.(*ssa.FieldAddr); ok && fa.Field == roles.Lines {
								appends = true
							}
						}
					}
				}
			}
		}
		if !appends {
			continue
		}
		n++
		pos := ctx.Prog.Pos(fn.Pos())
		key := "record:" + fn.Name()
		msg := ""
		for _, text := range []bool{true, false} {
			run := runEmitter(ctx, roles, fn, EmitCell{GenText: text, M8: true, X8: true})
			if len(run.Imprec) > 0 {
				msg = fmt.Sprintf("not interpretable: %v", run.Imprec)
				break
			}
			var recs []*absint.Struct
			for _, ev := range run.Events {
				if ev.Kind == "append" && len(ev.Args) == 2 {
					if sv, ok := ev.Args[1].(*absint.Struct); ok && sv.T == lineS && ev.Fn == fn {
						recs = append(recs, sv)
					}
				}
			}
			if !text {
				if len(recs) != 0 {
					msg = "a record is appended although the listing is off"
				}
				continue
			}
			if !run.Returned {
				continue // (a refusing path, e.g. a label defined twice)
			}
			if len(recs) != 1 {
				msg = fmt.Sprintf("%d records of its own appended with the listing on, want 1", len(recs))
				continue
			}
			tv, _ := recs[0].F[fType].(*absint.Int)
			tc, okT := uint64(0), false
			if tv != nil {
				tc, okT = tv.IsConst()
			}
			av, _ := recs[0].F[fAddr].(*absint.Int)
			a0, _ := run.Entry[roles.Address].(*absint.Int)
			pf := ""
			for f := 0; f < lineS.NumFields(); f++ {
				if sv, ok := recs[0].F[f].(*absint.Str); ok && sv.Key == "p0" {
					pf = lineS.Field(f).Name()
				}
			}
			switch {
			case !okT:
				msg = "the record's line type is not a constant"
			case pf == "":
				msg = "the record does not carry the string it was given"
			case av == nil || a0 == nil || av.Lin.Key() != a0.Lin.Key():
				msg = "the record does not carry the current address"
			default:
				out[tc] = pf
			}
		}
		if msg != "" {
			R.Fail("directive-lines", key, pos, msg)
		} else {
			R.Pass("directive-lines", key, pos, "one record of its own type with the string and the current address when the listing is on, none when it is off")
		}
	}
	R.Count("string-listing-methods", n)
	return out
}

// checkDirectiveArms: the rendering side. In the arm of each directive type the writer renders the record's payload.
func checkDirectiveArms(ctx *Ctx, roles *EmitterRoles, fn *ssa.Function, directives map[uint64]string, typeName, addrName string) {
	R := ctx.R
	if len(directives) == 0 {
		return
	}
	ip := absint.New()
	var renders []RenderEvent
	ip.Hooks.OverrideCall = func(ip *absint.Interp, st *absint.State, f *ssa.Function, a []absint.Val) (absint.Val, bool) {
		if f.Pkg != nil && strings.HasSuffix(f.Pkg.Pkg.Path(), "/xbuf") && f.Signature.Recv() != nil {
			renders = append(renders, RenderEvent{Sink: "xbuf." + f.Name(), Vals: a[1:], Guards: ip.PathGuards(st), Pos: ip.CurPos()})
			if f.Signature.Results().Len() == 1 {
				return a[0], true
			}
			return nil, true
		}
		return nil, false
	}
	ip.Hooks.UnknownCall = func(ip *absint.Interp, st *absint.State, ev *absint.Event) (absint.Val, bool) { return nil, true }
	ip.Hooks.ExtCall = func(ip *absint.Interp, st *absint.State, ev *absint.Event) (absint.Val, bool) {
		if strings.HasPrefix(ev.Callee, "fmt.Fprint") || strings.HasPrefix(ev.Callee, "fmt.Append") {
			renders = append(renders, RenderEvent{Sink: ev.Callee, Vals: ev.Args, Guards: ip.PathGuards(st), Pos: ev.Pos})
		}
		return nil, false
	}
	_, out := ip.CallFix(fn, func() ([]absint.Val, *absint.State) {
		renders = nil
		recv := &absint.Ptr{Nil: absint.TriF, Obj: ip.SymObj("a", roles.Named), T: roles.Named}
		w := &absint.Iface{Dyn: types.NewPointer(types.NewNamed(types.NewTypeName(0, nil, "userWriter", nil), types.NewStruct(nil, nil), nil)), V: &absint.Top{Key: "w"}}
		return []absint.Val{recv, w}, &absint.State{Heap: absint.NewHeap(nil)}
	})
	if out == nil {
		return // reported by the record rule
	}
	var ts []uint64
	for t := range directives {
		ts = append(ts, t)
	}
	sort.Slice(ts, func(i, j int) bool { return ts[i] < ts[j] })
	for _, t := range ts {
		field := directives[t]
		key := fmt.Sprintf("%s:line-type-%d(%s)", fn.Name(), t, field)
		found := false
		for _, e := range renders {
			inArm := false
			for k, v := range e.Guards {
				if v && strings.HasSuffix(k, fmt.Sprintf("].%s==%x)", typeName, t)) {
					inArm = true
				}
			}
			if !inArm {
				continue
			}
			for _, v := range e.Vals {
				switch x := v.(type) {
				case *absint.Str:
					if strings.HasSuffix(x.Key, "."+field) || strings.HasSuffix(x.Key, "]."+field) {
						found = true
					}
				case *absint.Int:
					if field == "address" && strings.HasSuffix(x.Lin.Key(), "]."+addrName) {
						found = true
					}
				}
			}
		}
		if found {
			R.Pass("directive-lines", key, ctx.Prog.Pos(fn.Pos()), "the arm of this line type renders the record's "+field)
		} else {
			R.Fail("directive-lines", key, ctx.Prog.Pos(fn.Pos()), "no arm of this line type renders the record's "+field+": the directive does not appear in the listing")
		}
	}
}
