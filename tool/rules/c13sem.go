package rules

import (
	"fmt"
	"go/types"
	"strings"

	"golang.org/x/tools/go/ssa"

	"verif/tool/absint"
)

// Semantic forms of the C13 loop rules. The SSA-shape rules of c13.go recognise the
// loops as written today; when one of them does not apply (a counted loop over a
// position, hoisted bounds, % instead of &), these decide the same obligations on
// the abstract result instead: the function is interpreted for an arbitrary iteration
// with induction variables (a counter every back edge advances by c is init + c*T),
// so index, address and bounds are terms over start, end and the iteration count T,
// and the guards in force are compared as linear forms / canonical propositions.

// iterTerm splits v = base + T (T an iteration-count atom, coefficient one).
func iterTerm(o absint.Ops, v *absint.Int) (base *absint.Int, t *absint.Atom, ok bool) {
	// a narrower unsigned counter used as an index: the widened value of the counter
	if len(v.Lin.T) == 1 && v.Lin.C == 0 && v.Lin.T[0].K == 1 {
		if a := v.Lin.T[0].A; strings.HasPrefix(a.Op, "zext") && len(a.Args) == 1 {
			return iterTerm(o, absint.LinInt(a.Args[0]))
		}
	}
	for _, tm := range v.Lin.T {
		if strings.HasPrefix(tm.A.Key, "iter:") {
			if t != nil || tm.K != 1 {
				return nil, nil, false
			}
			t = tm.A
		}
	}
	if t == nil {
		return nil, nil, false
	}
	return o.Sub(v, absint.NewSym(v.W, t, v.Signed)), t, true
}

// guardProps renders the guards as canonical propositions with their truth values.
func guardProps(bc *absint.BoolCtx, gl []absint.GuardInfo) map[string]bool {
	out := map[string]bool{}
	for _, g := range gl {
		if g.Cmp == nil {
			out["cond:"+g.Key] = g.Outcome
			continue
		}
		e := bc.CmpExpr(g.Cmp)
		val := g.Outcome
		for e.Op == "not" {
			e, val = e.A[0], !val
		}
		if e.Op == "var" {
			out[e.V] = val
		}
	}
	return out
}

func propOf(bc *absint.BoolCtx, op string, x, y *absint.Int) (string, bool) {
	e := bc.CmpExpr(&absint.CmpInfo{Op: op, X: x, Y: y})
	val := true
	for e.Op == "not" {
		e, val = e.A[0], !val
	}
	if e.Op != "var" {
		return "", false
	}
	return e.V, val
}

// attachSemantic: Attach stores mem at table[start>>4 + T] while that index is <= end>>4,
// only on paths where start and end passed the alignment tests.
func attachSemantic(ctx *Ctx, attach *ssa.Function, busT types.Type) []string {
	var bad []string
	ip := absint.New()
	ip.InductionVars = true
	ip.TraceDyn, ip.TraceReturns = true, true
	var start, end *absint.Int
	var mem absint.Val
	_, out := ip.CallFix(attach, func() ([]absint.Val, *absint.State) {
		b := &absint.Ptr{Nil: absint.TriF, Obj: ip.SymObj("b", busT), T: busT}
		mem = &absint.Top{T: attach.Params[1].Type(), Key: "mem"}
		start = absint.NewSym(32, ip.In.Atom("start", 32, 0xFFFFFFFF), false)
		end = absint.NewSym(32, ip.In.Atom("end", 32, 0xFFFFFFFF), false)
		return []absint.Val{b, mem, &absint.Str{Key: "name"}, start, end}, &absint.State{Heap: absint.NewHeap(nil)}
	})
	for _, m := range ip.Imprec {
		if !strings.Contains(m, "unmodelled external") {
			bad = append(bad, "not interpretable: "+m)
		}
	}
	if out == nil || len(bad) > 0 {
		return append(bad, "Attach has no returning path")
	}
	o := ip.Ops
	bc := &absint.BoolCtx{Conds: ip.In.Conds, O: &o}
	k32 := func(v uint64) *absint.Int { return absint.NewConst(32, v, false) }
	// accepted spellings of the alignment facts
	var startOK, endOK []string
	if p, v := propOf(bc, "==", o.And(start, k32(15)), k32(0)); v {
		startOK = append(startOK, p)
	}
	if p, v := propOf(bc, "==", o.And(end, k32(15)), k32(15)); v {
		endOK = append(endOK, p)
	}
	if p, v := propOf(bc, "==", o.And(o.Add(end, k32(1)), k32(15)), k32(0)); v {
		endOK = append(endOK, p)
	}
	// one test for both: (start | end+1) & 15 == 0 holds exactly when both are aligned
	if p, v := propOf(bc, "==", o.And(o.Or(start, o.Add(end, k32(1))), k32(15)), k32(0)); v {
		startOK = append(startOK, p)
		endOK = append(endOK, p)
	}
	if p, v := propOf(bc, "==", o.Or(o.And(start, k32(15)), o.And(o.Add(end, k32(1)), k32(15))), k32(0)); v {
		startOK = append(startOK, p)
		endOK = append(endOK, p)
	}
	holds := func(props map[string]bool, names []string) bool {
		for _, n := range names {
			if v, ok := props[n]; ok && v {
				return true
			}
		}
		return false
	}
	nStores := 0
	for _, ev := range ip.Events {
		if ev.Kind != "dyn-store" || len(ev.Args) != 3 {
			continue
		}
		nStores++
		if absint.ValKey(ev.Args[2]) != absint.ValKey(mem) {
			bad = append(bad, "a table store does not store the mem parameter: "+absint.ValKey(ev.Args[2]))
			continue
		}
		idx, _ := ev.Args[0].(*absint.Int)
		if idx == nil {
			bad = append(bad, "table index is not an integer")
			continue
		}
		base, _, ok := iterTerm(o, idx)
		first := o.Shr(start, k32(4), false)
		if ok && base.W != first.W {
			first = o.Convert(first, base.W, false, base.Signed)
		}
		if !ok || base.Lin.Key() != first.Lin.Key() {
			bad = append(bad, fmt.Sprintf("the stored index is %s, not start>>4 plus the iteration count", idx.Lin.Key()))
			continue
		}
		last := o.Convert(o.Shr(end, k32(4), false), idx.W, false, idx.Signed)
		up, _, _ := boundGuards(o, ev.PathL, o.Sub(idx, last), -1<<62, 0)
		if !up {
			// the test may be made on the narrower counter itself
			if len(idx.Lin.T) == 1 && strings.HasPrefix(idx.Lin.T[0].A.Op, "zext") && len(idx.Lin.T[0].A.Args) == 1 {
				c := absint.LinInt(idx.Lin.T[0].A.Args[0])
				up, _, _ = boundGuards(o, ev.PathL, o.Sub(c, o.Shr(end, k32(4), false)), -1<<31, 0)
			}
		}
		if !up {
			bad = append(bad, "the store is not under index <= end>>4")
		}
		props := guardProps(bc, ev.PathL)
		if !holds(props, startOK) || !holds(props, endOK) {
			bad = append(bad, "the store is not under both alignment tests (start%16 == 0, end%16 == 15)")
		}
	}
	if nStores == 0 {
		bad = append(bad, "no table store found")
	}
	// a return on a path where an alignment test failed yields a non-nil error
	for _, ev := range ip.Events {
		if ev.Kind != "return" || ev.Fn != attach || len(ev.Args) == 0 {
			continue
		}
		props := guardProps(bc, ev.PathL)
		failed := false
		for _, n := range append(append([]string{}, startOK...), endOK...) {
			if v, ok := props[n]; ok && !v {
				failed = true
			}
		}
		if failed && errNilness(ev.Args[0], ev.PathL) != absint.TriF {
			bad = append(bad, "a misaligned range does not return a non-nil error")
		}
	}
	return bad
}

// dumpSemantic: every backend read of EaDump is at an address a = start + p on
// table[a>>4] under a <= end, and its result is stored at data[p].
func dumpSemantic(ctx *Ctx, dump *ssa.Function, busT types.Type) []string {
	var bad []string
	ip := absint.New()
	ip.InductionVars = true
	ip.TraceDyn, ip.TraceReturns = true, true
	var start, end *absint.Int
	type rd struct {
		addr, slot *absint.Int
		res        *absint.Int
		gl         []absint.GuardInfo
	}
	var reads []rd
	nRead := 0
	ip.Hooks.SlotIsNil = func(*absint.Slot) absint.Tri { return absint.TriTop }
	ip.Hooks.SlotCall = func(ip *absint.Interp, st *absint.State, ev *absint.Event) absint.Val {
		a, _ := ev.Args[0].(*absint.Int)
		nRead++
		r := absint.NewSym(8, ip.In.Atom(fmt.Sprintf("read#%d", nRead), 8, 0xFF), false)
		reads = append(reads, rd{a, ev.Slot.Index, r, ip.PathGuardList(st)})
		return r
	}
	_, out := ip.CallFix(dump, func() ([]absint.Val, *absint.State) {
		reads, nRead = nil, 0
		b := &absint.Ptr{Nil: absint.TriF, Obj: ip.SymObj("b", busT), T: busT}
		start = absint.NewSym(32, ip.In.Atom("start", 32, 0xFFFFFFFF), false)
		end = absint.NewSym(32, ip.In.Atom("end", 32, 0xFFFFFFFF), false)
		st := &absint.State{Heap: absint.NewHeap(nil)}
		bt := types.NewSlice(types.Typ[types.Byte])
		data := ip.Load(st, &absint.Ptr{Obj: ip.SymObj("data", types.NewPointer(bt))}, bt)
		if sl, ok := data.(*absint.Slice); ok {
			sl.Nil = absint.TriF
		}
		return []absint.Val{b, start, end, data}, st
	})
	for _, m := range ip.Imprec {
		if !strings.Contains(m, "unmodelled external") {
			bad = append(bad, "not interpretable: "+m)
		}
	}
	if out == nil || len(bad) > 0 {
		return append(bad, "EaDump has no returning path")
	}
	o := ip.Ops
	if len(reads) == 0 {
		return []string{"no backend read found"}
	}
	for _, r := range reads {
		if r.addr == nil {
			bad = append(bad, "backend read without an address")
			continue
		}
		want := o.Convert(o.Shr(r.addr, absint.NewConst(r.addr.W, 4, false), false), 64, false, true).Lin.Key()
		if r.slot == nil || r.slot.Lin.Key() != want {
			bad = append(bad, "a backend is not selected by (a>>4) of the address it is given")
		}
		up, _, _ := boundGuards(o, r.gl, o.Sub(r.addr, end), -1<<31, 0)
		if !up {
			// the comparison may have been made at another width
			a64, e64 := o.Convert(r.addr, 64, false, true), o.Convert(end, 64, false, true)
			up2, _, _ := boundGuards(o, r.gl, o.Sub(a64, e64), -1<<62, 0)
			if !up2 {
				// or the position p = a - start is bounded by end - start, with start <= end
				// established beforehand (so that neither difference wraps)
				if pb, pt, ok := iterTerm(o, r.addr); ok && pb.Lin.Key() == start.Lin.Key() {
					p64 := absint.NewSym(64, pt, false)
					span := o.Convert(o.Sub(end, start), 64, false, false)
					upP, _, _ := boundGuards(o, r.gl, o.Sub(p64, span), -1<<62, 0)
					ordered, _, _ := boundGuards(o, r.gl, o.Sub(start, end), -1<<31, 0)
					up2 = upP && ordered
				}
			}
			if !up2 {
				bad = append(bad, "a read is not under a <= end")
			}
		}
		// its result goes to data[a - start]
		stored := false
		for _, ev := range ip.Events {
			if ev.Kind != "dyn-store" || len(ev.Args) != 3 {
				continue
			}
			v, _ := ev.Args[2].(*absint.Int)
			idx, _ := ev.Args[0].(*absint.Int)
			if v == nil || idx == nil {
				continue
			}
			// the byte may come back through a helper's result, merged with the value it
			// returns for an unattached address: look at it under the guards of the store
			gm := map[string]bool{}
			for _, g := range ev.PathL {
				gm[g.Key] = g.Outcome
			}
			if absint.Restrict(v.Lin, gm).Key() != r.res.Lin.Key() {
				continue
			}
			stored = true
			pos := o.Convert(o.Sub(r.addr, start), idx.W, false, idx.Signed)
			if pos.Lin.Key() != idx.Lin.Key() {
				// a - start computed in 32 bits and the position in another width agree when both
				// are the same iteration count
				pb, pt, ok1 := iterTerm(o, idx)
				ab, at, ok2 := iterTerm(o, r.addr)
				if !(ok1 && ok2 && pt == at && pb.Lin.Key() == "0" && ab.Lin.Key() == start.Lin.Key()) {
					bad = append(bad, fmt.Sprintf("the byte read at %s is stored at data[%s], not data[a-start]", r.addr.Lin.Key(), idx.Lin.Key()))
				}
			}
		}
		if !stored {
			bad = append(bad, "a byte read from a backend is not stored into data")
		}
	}
	return bad
}
