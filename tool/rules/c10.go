package rules

import (
	"fmt"
	"go/types"
	"strings"

	"golang.org/x/tools/go/ssa"

	"verif/tool/absint"
)

func init() { register("C10", "other", C10) }

func C10(ctx *Ctx) {
	R := ctx.R
	R.Explanation = "ROM.BusReader / BusWriter are interpreted in two cells (offset < $8000 and offset = $8000+a with bank and a symbolic) and busWriter.Write with a symbolic writer and payload. window: the slice handed to bytes.NewReader is Contents[B+a : B+$8000) with B = bank<<15 (linear forms), the writer is built with the same start, end B+$8000 and zero progress, and Write copies into Contents[start+o : end). io-contract: on the path of Write that returns a nil error the guard in force bounds len(p) by the remaining window (so copy cannot be short), the progress counter advances by the copied count, and on the refusing path nothing changes. always-error: offsets below $8000 yield the always-error reader/writer, whose methods return (0, io.ErrUnexpectedEOF) and touch nothing."
	R.Trusted = []string{"go/packages + go/ssa", "absint linear forms and intervals", "bytes.Reader returns exactly the bytes of the slice it is given and then io.EOF", "copy copies min(len(dst),len(src)) bytes", "bus addresses are 24 bits, len(p) < 2^31"}
	R.Rule("window", "reader and writer address exactly Contents[bank<<15 + (offset-$8000) : bank<<15 + $8000)")
	R.Rule("io-contract", "Write stores all of p or reports an error: the guard dominating copy implies len(p) <= end-(start+o); o advances by the copied count; a refused write changes nothing")
	R.Rule("always-error", "for offsets below $8000 BusReader/BusWriter return the always-error object whose Read/Write return (0, io.ErrUnexpectedEOF) without any effect")
	pk := ctx.Prog.Pkg("")
	rt := pk.Type("ROM")
	if rt == nil {
		R.Fail("window", "ROM", "", "type snes.ROM not found")
		return
	}
	rn := rt.Type().(*types.Named)
	// ---- BusReader / BusWriter in two cells
	for _, name := range []string{"BusReader", "BusWriter"} {
		fn := ctx.Prog.Method("", "ROM", name)
		if fn == nil {
			R.Fail("window", name, "", "(*ROM)."+name+" not found")
			continue
		}
		R.Count("functions", 1)
		pos := ctx.Prog.Pos(fn.Pos())
		for _, high := range []bool{false, true} {
			ip := absint.New()
			r := &absint.Ptr{Nil: absint.TriF, Obj: ip.SymObj("r", rn), T: rn}
			bank := absint.NewSym(32, ip.In.Atom("bank", 8, 0xFF), false)
			a := absint.NewSym(32, ip.In.Atom("a", 15, 0x7FFF), false)
			off := a
			if high {
				off = ip.Ops.Add(absint.NewConst(32, 0x8000, false), a)
			}
			addr := ip.Ops.Or(ip.Ops.Shl(bank, absint.NewConst(32, 16, false)), off)
			var readerSlice *absint.Slice
			ip.Hooks.ExtCall = func(ip *absint.Interp, st *absint.State, ev *absint.Event) (absint.Val, bool) {
				if ev.Callee == "bytes.NewReader" && len(ev.Args) == 1 {
					readerSlice, _ = ev.Args[0].(*absint.Slice)
					return &absint.Top{Key: "bytes.Reader"}, true
				}
				return nil, false
			}
			st := &absint.State{Heap: absint.NewHeap(nil)}
			var undecided []string
			ip.Hooks.Branch = func(_ *absint.Interp, cond *absint.Bool, _ *ssa.If) {
				undecided = append(undecided, absint.ValKey(cond))
			}
			res, out := ip.Call(fn, []absint.Val{r, addr}, nil, st)
			cell := "offset<$8000"
			if high {
				cell = "offset>=$8000"
			}
			// every offset of the half is treated alike: a test that the half does not decide singles out some
			// addresses (offset $8000 itself, say) for the other treatment
			if len(undecided) > 0 {
				R.Fail("window", name+":"+cell+":uniform", pos, fmt.Sprintf("the treatment of an address in this half depends on %s: some offsets of the half are handled like the other half", trunc(undecided[0])))
				continue
			}
			if out == nil || len(ip.Imprec) > 0 {
				R.Fail("window", name+":"+cell+":analysable", pos, fmt.Sprintf("not interpretable: %v", ip.Imprec))
				continue
			}
			o := ip.Ops
			B := o.Shl(bank, absint.NewConst(32, 15, false))
			wantStartV := o.Convert(o.Add(B, a), 64, false, true)
			wantEndV := o.Convert(o.Add(B, absint.NewConst(32, 0x8000, false)), 64, false, true)
			wantStart, wantEnd := wantStartV.Lin.Key(), wantEndV.Lin.Key()
			oneShortV := o.Convert(o.Add(B, absint.NewConst(32, 0x7FFF, false)), 64, false, true)
			// equal terms, or - for another spelling of the same arithmetic - equal provenance of every bit
			same := func(v, want *absint.Int) bool {
				return v != nil && (v.Lin.Key() == want.Lin.Key() || absint.SameBits(v, want))
			}
			if !high {
				// must be the always-error object
				ok := false
				desc := absint.ValKey(res)
				if ifc, isI := res.(*absint.Iface); isI && ifc.Dyn != nil {
					if checkAlwaysError(ctx, ifc.Dyn, name) {
						ok = true
					}
					desc = ifc.Dyn.String()
				}
				if ok {
					R.Pass("always-error", name+":"+cell, pos, "returns "+desc)
				} else {
					R.Fail("always-error", name+":"+cell, pos, "does not return an object whose Read/Write always fail with io.ErrUnexpectedEOF: "+desc)
				}
				continue
			}
			if name == "BusReader" {
				switch {
				case readerSlice == nil || !strings.Contains(absint.ValKey(&readerSlice.Base), "r.Contents"):
					R.Fail("window", "BusReader:slice", pos, "the reader is not built over a slice of Contents")
				default:
					s, e := readerSlice.Off.Lin.Key(), o.Add(readerSlice.Off, readerSlice.Len).Lin.Key()
					if !same(readerSlice.Off, wantStartV) {
						R.Fail("window", "BusReader:start", pos, fmt.Sprintf("window starts at %s, want %s", s, wantStart))
					} else {
						R.Pass("window", "BusReader:start", pos, "bank<<15 + (offset-$8000)")
					}
					if got := o.Add(readerSlice.Off, readerSlice.Len); same(got, oneShortV) {
						R.Fail("window", "BusReader:end", pos, fmt.Sprintf("window ends (exclusive) at bank<<15|$7FFF, one short of the bank's end %s: the last byte of the bank cannot be read", wantEnd))
					} else if !same(got, wantEndV) {
						R.Fail("window", "BusReader:end", pos, fmt.Sprintf("window ends (exclusive) at %s, want %s: the last byte(s) of the bank cannot be read", e, wantEnd))
					} else {
						R.Pass("window", "BusReader:end", pos, "bank<<15 + $8000")
					}
				}
				continue
			}
			// BusWriter: inspect the constructed writer
			var wp *absint.Ptr
			if ifc, ok := res.(*absint.Iface); ok {
				wp, _ = ifc.V.(*absint.Ptr)
			}
			if wp == nil || wp.Obj == nil {
				R.Fail("window", "BusWriter:object", pos, "does not return a writer object")
				continue
			}
			wt, _ := wp.T.Underlying().(*types.Struct)
			roles := writerRoles(ctx, wp.T)
			if wt == nil || roles == nil {
				R.Fail("window", "BusWriter:roles", pos, "cannot resolve the writer's start / end / progress fields from its Write method")
				continue
			}
			getV := func(i int) *absint.Int {
				v, _ := ip.Load(out, fieldPtr(wp, wt.Field(i).Type(), i), wt.Field(i).Type()).(*absint.Int)
				if v == nil {
					return nil
				}
				return o.Convert(v, 64, false, true)
			}
			get := func(i int) string {
				if v := getV(i); v != nil {
					return v.Lin.Key()
				}
				return "?"
			}
			if s := get(roles.start); !same(getV(roles.start), wantStartV) {
				R.Fail("window", "BusWriter:start", pos, fmt.Sprintf("writer starts at %s, want %s", s, wantStart))
			} else {
				R.Pass("window", "BusWriter:start", pos, "bank<<15 + (offset-$8000)")
			}
			if e := get(roles.end); same(getV(roles.end), oneShortV) {
				R.Fail("window", "BusWriter:end", pos, fmt.Sprintf("writer window ends (exclusive) at bank<<15|$7FFF, one short of the bank's end %s: the last byte of the bank cannot be written", wantEnd))
			} else if !same(getV(roles.end), wantEndV) {
				R.Fail("window", "BusWriter:end", pos, fmt.Sprintf("writer window ends (exclusive) at %s, want %s: the last byte(s) of the bank cannot be written", e, wantEnd))
			} else {
				R.Pass("window", "BusWriter:end", pos, "bank<<15 + $8000")
			}
			if roles.start == roles.prog {
				R.Pass("window", "BusWriter:progress", pos, "the writer keeps one cursor (start + progress); it starts at the window start")
			} else if p := get(roles.prog); p != "0" {
				R.Fail("window", "BusWriter:progress", pos, "the writer does not start with zero progress: "+p)
			} else {
				R.Pass("window", "BusWriter:progress", pos, "0")
			}
			// the writer must write into the same ROM
			rv, _ := ip.Load(out, fieldPtr(wp, wt.Field(roles.rom).Type(), roles.rom), wt.Field(roles.rom).Type()).(*absint.Ptr)
			if rv == nil || rv.Obj != r.Obj {
				R.Fail("window", "BusWriter:target", pos, "the writer is not bound to the receiver ROM")
			} else {
				R.Pass("window", "BusWriter:target", pos, "bound to the receiver ROM")
			}
			checkWriterWrite(ctx, wp.T, roles)
		}
	}
	R.Floor("functions", 2)
}

type wRoles struct{ start, end, prog, rom int }

// writerRoles resolves the fields of the bus writer by what its Write method does
// with them: copy(dst = X.Contents[prog+start : end], p); prog += n.
func writerRoles(ctx *Ctx, t types.Type) *wRoles {
	run := runWriterWrite(ctx, t)
	if run == nil || run.copy == nil {
		return nil
	}
	st := t.Underlying().(*types.Struct)
	dst, _ := run.copy.Args[0].(*absint.Slice)
	if dst == nil {
		return nil
	}
	r := &wRoles{start: -1, end: -1, prog: -1, rom: -1}
	// progress: the integer field that changes
	for i := 0; i < st.NumFields(); i++ {
		if absint.ValKey(run.entry[i]) != absint.ValKey(run.final[i]) {
			r.prog = i
		}
		if _, ok := st.Field(i).Type().Underlying().(*types.Pointer); ok {
			r.rom = i
		}
	}
	for _, d := range absint.LinDeps(dst.Off.Lin) {
		if i := fieldIndex(st, strings.TrimPrefix(d.Key, "w.")); i >= 0 && i != r.prog {
			r.start = i
		}
	}
	end := run.ip.Ops.Add(dst.Off, dst.Len)
	for _, d := range absint.LinDeps(end.Lin) {
		if i := fieldIndex(st, strings.TrimPrefix(d.Key, "w.")); i >= 0 && i != r.prog && i != r.start {
			r.end = i
		}
	}
	if r.start < 0 && r.prog >= 0 {
		// cursor form: one field holds start+progress, the position of the next byte
		only := true
		for _, d := range absint.LinDeps(dst.Off.Lin) {
			if i := fieldIndex(st, strings.TrimPrefix(d.Key, "w.")); i != r.prog {
				only = false
			}
		}
		if only {
			r.start = r.prog
		}
	}
	if r.start < 0 || r.end < 0 || r.prog < 0 || r.rom < 0 {
		return nil
	}
	return r
}

type writeRun struct {
	ip     *absint.Interp
	fn     *ssa.Function
	copy   *absint.Event
	copies int
	entry  []absint.Val
	final  []absint.Val
	res    absint.Val
	w      *absint.Ptr
	out    *absint.State
	plen   *absint.Int
}

func runWriterWrite(ctx *Ctx, t types.Type) *writeRun {
	named, ok := t.(*types.Named)
	if !ok {
		return nil
	}
	ms := ctx.Prog.SSA.MethodSets.MethodSet(types.NewPointer(named))
	sel := ms.Lookup(named.Obj().Pkg(), "Write")
	if sel == nil {
		return nil
	}
	fn := ctx.Prog.SSA.MethodValue(sel)
	if fn == nil || !absint.IsAcyclic(fn) {
		return nil
	}
	st := named.Underlying().(*types.Struct)
	ip := absint.New()
	run := &writeRun{ip: ip, fn: fn}
	w := &absint.Ptr{Nil: absint.TriF, Obj: ip.SymObj("w", named), T: named}
	run.w = w
	s0 := &absint.State{Heap: absint.NewHeap(nil)}
	for i := 0; i < st.NumFields(); i++ {
		run.entry = append(run.entry, ip.Load(s0, fieldPtr(w, st.Field(i).Type(), i), st.Field(i).Type()))
	}
	pt := types.NewSlice(types.Typ[types.Byte])
	p := ip.Load(s0, &absint.Ptr{Obj: ip.SymObj("p", types.NewPointer(pt))}, pt).(*absint.Slice)
	p.Len = absint.NewSym(64, ip.In.Atom("len(p)", 64, 1<<31-1), true)
	run.plen = p.Len
	res, out := ip.Call(fn, []absint.Val{w, p}, nil, s0)
	if out == nil || len(ip.Imprec) > 0 {
		return nil
	}
	run.res, run.out = res, out
	for i := range ip.Events {
		if ip.Events[i].Kind == "copy" {
			run.copies++
			run.copy = &ip.Events[i]
		}
	}
	for i := 0; i < st.NumFields(); i++ {
		run.final = append(run.final, ip.Load(out, fieldPtr(w, st.Field(i).Type(), i), st.Field(i).Type()))
	}
	return run
}

func checkWriterWrite(ctx *Ctx, t types.Type, roles *wRoles) {
	R := ctx.R
	run := runWriterWrite(ctx, t)
	if run == nil || run.copies != 1 {
		R.Fail("io-contract", "Write:analysable", "", "the writer's Write is not interpretable or does not copy exactly once")
		return
	}
	pos := ctx.Prog.Pos(run.fn.Pos())
	st := t.Underlying().(*types.Struct)
	ip := run.ip
	o := ip.Ops
	dst, _ := run.copy.Args[0].(*absint.Slice)
	src, _ := run.copy.Args[1].(*absint.Slice)
	// destination window: ROM contents of the bound ROM, [start+o, end)
	start, _ := run.entry[roles.start].(*absint.Int)
	end, _ := run.entry[roles.end].(*absint.Int)
	prog, _ := run.entry[roles.prog].(*absint.Int)
	cursor := o.Add(prog, start)
	if roles.start == roles.prog {
		cursor = prog // one field holds start+progress
	}
	wantOff := o.Convert(cursor, 64, false, true).Lin.Key()
	wantEnd := o.Convert(end, 64, false, true).Lin.Key()
	if !strings.Contains(absint.ValKey(&dst.Base), "Contents") || dst.Off.Lin.Key() != wantOff || o.Add(dst.Off, dst.Len).Lin.Key() != wantEnd {
		R.Fail("window", "Write:destination", pos, fmt.Sprintf("copies into %s, want Contents[start+o : end)", absint.ValKey(dst)))
	} else {
		R.Pass("window", "Write:destination", pos, "Contents[start+o : end)")
	}
	if src == nil || src.Len.Lin.Key() != run.plen.Lin.Key() || src.Off.Lin.Key() != "0" {
		R.Fail("io-contract", "Write:source", pos, "the source of the copy is not the whole payload p")
	} else {
		R.Pass("io-contract", "Write:source", pos, "copies from the whole payload")
	}
	// the guard in force at the copy must bound len(p) by the remaining window
	remaining := o.Sub(end, cursor) // uint32 arithmetic as in the writer
	remKey := remaining.Lin.Key()
	lenKeys := map[string]bool{run.plen.Lin.Key(): true, o.Convert(run.plen, 32, true, false).Lin.Key(): true}
	implied := false
	var seen []string
	for _, g := range run.copy.GuardL {
		if g.Cmp == nil {
			continue
		}
		x, _ := g.Cmp.X.(*absint.Int)
		y, _ := g.Cmp.Y.(*absint.Int)
		if x == nil || y == nil {
			continue
		}
		seen = append(seen, fmt.Sprintf("(%s %s %s)=%v", x.Lin.Key(), g.Cmp.Op, y.Lin.Key(), g.Outcome))
		xl, yl := lenKeys[x.Lin.Key()], lenKeys[y.Lin.Key()]
		xr, yr := x.Lin.Key() == remKey, y.Lin.Key() == remKey
		op := g.Cmp.Op
		if !g.Outcome {
			op = map[string]string{">": "<=", ">=": "<", "<": ">=", "<=": ">", "==": "!=", "!=": "=="}[op]
		}
		// len <= remaining  (or len < remaining, or remaining >= len, remaining > len)
		if xl && yr && (op == "<=" || op == "<" || op == "==") {
			implied = true
		}
		if xr && yl && (op == ">=" || op == ">" || op == "==") {
			implied = true
		}
	}
	if implied {
		R.Pass("io-contract", "Write:no-short-copy", pos, "guard implies len(p) <= end-(start+o)")
	} else {
		R.Fail("io-contract", "Write:no-short-copy", pos, fmt.Sprintf("no guard in force at the copy bounds len(p) by the remaining window end-(start+o) = %s; guards: %v — a payload longer than the window is partially stored and reported as success", remKey, seen))
	}
	// exact fit: the write is accepted exactly when len(p) <= remaining (a strict test refuses a payload that
	// fills the window to its last byte)
	strict := false
	for _, g := range run.copy.GuardL {
		if g.Cmp == nil {
			continue
		}
		x, _ := g.Cmp.X.(*absint.Int)
		y, _ := g.Cmp.Y.(*absint.Int)
		if x == nil || y == nil {
			continue
		}
		op := g.Cmp.Op
		if !g.Outcome {
			op = map[string]string{">": "<=", ">=": "<", "<": ">=", "<=": ">", "==": "!=", "!=": "=="}[op]
		}
		if (lenKeys[x.Lin.Key()] && y.Lin.Key() == remKey && op == "<") || (x.Lin.Key() == remKey && lenKeys[y.Lin.Key()] && op == ">") {
			strict = true
		}
	}
	if strict {
		R.Fail("io-contract", "Write:exact-fit", pos, "a payload of exactly the remaining window is refused (the test is len(p) < remaining): the last byte of the window can never be written together with its predecessors")
	} else if implied {
		R.Pass("io-contract", "Write:exact-fit", pos, "accepted exactly when len(p) <= remaining")
	}
	// what Write reports: the count of the copy and no error when accepted, zero and an error when refused
	if tp, ok := run.res.(*absint.Tuple); ok && len(tp.E) == 2 {
		acc := map[string]bool{}
		rej := map[string]bool{}
		for k, v := range run.copy.Guards {
			acc[k] = v
			rej[k] = !v
		}
		msg := ""
		if nv, ok := tp.E[0].(*absint.Int); ok {
			cres, _ := run.copy.Result.(*absint.Int)
			if cres != nil && len(run.copy.Guards) > 0 {
				if got := absint.Restrict(nv.Lin, acc).Key(); got != o.Convert(cres, nv.W, true, nv.Signed).Lin.Key() {
					msg = "an accepted write reports " + trunc(got) + ", not the number of bytes copied"
				}
				if len(rej) == 1 {
					if got := absint.Restrict(nv.Lin, rej).Key(); got != "0" {
						msg = "a refused write reports " + trunc(got) + " bytes written"
					}
				}
			}
		}
		// the error: nil exactly on the accepting side
		errKey := absint.ValKey(tp.E[1])
		if et, ok := tp.E[1].(*absint.Top); ok {
			switch {
			case et.Key == "nil":
				msg = "Write never reports an error: a refused write looks like a successful empty one"
			case et.NilIf != nil:
				key, neg := absint.GateOf(et.NilIf)
				want, ok := acc[key]
				if !ok || want == neg {
					msg = "the error is nil under " + key + ", which is not the accepting side of the capacity test"
				}
			case strings.Contains(errKey, "ite["):
				// keyed merge: leave to the reader of the message
			}
		}
		if msg != "" {
			R.Fail("io-contract", "Write:result", pos, msg+" (result "+trunc(fmtVal(run.res))+")")
		} else {
			R.Pass("io-contract", "Write:result", pos, "accepted: (bytes copied, nil); refused: (0, error)")
		}
	}
	// progress advance and refusal path
	fin, _ := run.final[roles.prog].(*absint.Int)
	cres, _ := run.copy.Result.(*absint.Int)
	okAdv := false
	if fin != nil && cres != nil {
		adv := o.Add(prog, o.Convert(cres, 32, true, false)).Lin.Key()
		g := map[string]bool{}
		for k, v := range run.copy.Guards {
			g[k] = v
		}
		if absint.Restrict(fin.Lin, g).Key() == adv {
			okAdv = true
		}
		// on the other side of every guard nothing changes
		for k, v := range run.copy.Guards {
			ng := map[string]bool{k: !v}
			if absint.Restrict(fin.Lin, ng).Key() != prog.Lin.Key() {
				okAdv = false
			}
		}
	}
	if okAdv {
		R.Pass("io-contract", "Write:progress", pos, "o advances by the copied count when the write is accepted and is unchanged when it is refused")
	} else {
		R.Fail("io-contract", "Write:progress", pos, fmt.Sprintf("progress after Write is %s", fmtVal(run.final[roles.prog])))
	}
	// refused writes copy nothing: the copy is only reachable under the accepting guard (by construction of Guards)
	for i := 0; i < st.NumFields(); i++ {
		if i == roles.prog {
			continue
		}
		if absint.ValKey(run.entry[i]) != absint.ValKey(run.final[i]) {
			R.Fail("io-contract", "Write:changes-"+st.Field(i).Name(), pos, "Write modifies a field other than its progress counter")
		}
	}
}

// checkAlwaysError: Read and Write of dyn return (0, io.ErrUnexpectedEOF) and do nothing.
func checkAlwaysError(ctx *Ctx, dyn types.Type, who string) bool {
	R := ctx.R
	ok := true
	found := 0
	ms := ctx.Prog.SSA.MethodSets.MethodSet(dyn)
	for i := 0; i < ms.Len(); i++ {
		n := ms.At(i).Obj().Name()
		if n != "Read" && n != "Write" {
			continue
		}
		fn := ctx.Prog.SSA.MethodValue(ms.At(i))
		if fn == nil {
			continue
		}
		found++
		ip := absint.New()
		ip.TraceStores = true
		var recv absint.Val
		if pt, isPtr := dyn.Underlying().(*types.Pointer); isPtr {
			recv = &absint.Ptr{Nil: absint.TriF, Obj: ip.SymObj("recv", pt.Elem()), T: pt.Elem()}
		} else {
			recv = ip.Load(&absint.State{Heap: absint.NewHeap(nil)}, &absint.Ptr{Obj: ip.SymObj("recv", dyn)}, dyn)
		}
		pt := types.NewSlice(types.Typ[types.Byte])
		p := ip.Load(&absint.State{Heap: absint.NewHeap(nil)}, &absint.Ptr{Obj: ip.SymObj("p", types.NewPointer(pt))}, pt)
		res, out := ip.Call(fn, []absint.Val{recv, p}, nil, &absint.State{Heap: absint.NewHeap(nil)})
		key := fmt.Sprintf("%s.%s", strings.TrimPrefix(dyn.String(), "*github.com/alttpo/snes."), n)
		tp, _ := res.(*absint.Tuple)
		good := out != nil && tp != nil && len(tp.E) == 2 && absint.ValKey(tp.E[0]) == "0" && strings.HasSuffix(absint.ValKey(tp.E[1]), "io.ErrUnexpectedEOF")
		nEff := 0
		for _, e := range ip.Events {
			if e.Kind != "panic" {
				nEff++
			}
		}
		if !good || len(ip.Stores) > 0 || nEff > 0 || len(ip.Imprec) > 0 {
			ok = false
			R.Fail("always-error", key, ctx.Prog.Pos(fn.Pos()), fmt.Sprintf("returns %s with %d stores / %d effects %v; want (0, io.ErrUnexpectedEOF) and no effect", absint.ValKey(res), len(ip.Stores), nEff, ip.Imprec))
		} else if who == "BusReader" {
			R.Pass("always-error", key, ctx.Prog.Pos(fn.Pos()), "(0, io.ErrUnexpectedEOF), no effect")
		}
	}
	return ok && found == 2
}
