package rules

import (
	"fmt"
	"go/types"
	"sort"
	"strings"

	"golang.org/x/tools/go/ssa"

	"verif/tool/absint"
)

func init() { register("C16", "other", C16) }

func isRefType(t types.Type) bool {
	switch t.Underlying().(type) {
	case *types.Map, *types.Slice, *types.Pointer, *types.Chan:
		return true
	}
	return false
}

func C16(ctx *Ctx) {
	R := ctx.R
	R.Explanation = "coverage: W = the Emitter fields that any exported method other than Clone/Append may modify (mod-sets over the call graph). Clone, interpreted with its loops in arbitrary-iteration mode, must give every field of the new value either the source's own value of that field, or - by design - the target parameter (code), zero (n, lines), or a fresh map filled from a range over the same source field; Append must give every field of W except the code header and base a value derived from the same field of the argument (equal term, a copy from e.code[0:e.n] advancing n by the copied count, an append of e.lines, or a map filled from a range over e's map). no-alias: no reference-typed field receives the other emitter's reference; slices stored as map values come from make + copy. guard: every store, map update, copy and append in Append is under the passing edge of a.n+e.n > len(a.code), whose other edge panics."
	R.Trusted = []string{"go/packages + go/ssa", "absint (arbitrary-iteration mode)", "mod-sets", "Go's range over a map visits every entry"}
	R.Rule("coverage", "Clone initialises every field from the same field of the source (code <- parameter, n <- 0, lines <- nil, maps deep-copied); Append transfers every field the emitting API can modify (except code header and base) from the same field of the appended emitter")
	R.Rule("no-alias", "neither Clone nor Append makes two emitters share a map or slice")
	R.Rule("guard", "Append modifies nothing unless a.n+e.n <= len(a.code); otherwise it panics first")
	_, roles := emitAll(ctx)
	if len(roles.Err) > 0 {
		for _, e := range roles.Err {
			R.Fail("coverage", "roles:"+e, "", e)
		}
		return
	}
	S := roles.Struct
	R.Count("emitter-fields", S.NumFields())
	R.Floor("emitter-fields", 11)
	// ---- W
	ms := newModSets(ctx)
	W := map[int][]string{}
	for _, m := range roles.Methods {
		switch m.Name() {
		case "Clone", "Append", "WriteTextTo", "WriteHexTo":
			continue
		}
		fields, _ := ms.FieldsOfParam(m, 0, roles.Named)
		for f := range fields {
			W[f] = append(W[f], m.Name())
		}
	}
	var wn []string
	for f := range W {
		wn = append(wn, roles.fieldName(f))
	}
	sort.Strings(wn)
	R.Analysed["W"] = wn
	// ---- Clone
	clone := ctx.Prog.Method("asm", "Emitter", "Clone")
	if clone == nil {
		R.Fail("coverage", "Clone", "", "(*Emitter).Clone not found")
	} else {
		cpos := ctx.Prog.Pos(clone.Pos())
		ip := absint.New()
		var a *absint.Ptr
		var target absint.Val
		entry := map[int]absint.Val{}
		res, out := ip.CallFix(clone, func() ([]absint.Val, *absint.State) {
			a = &absint.Ptr{Nil: absint.TriF, Obj: ip.SymObj("a", roles.Named), T: roles.Named}
			st := &absint.State{Heap: absint.NewHeap(nil)}
			bt := types.NewSlice(types.Typ[types.Byte])
			target = ip.Load(st, &absint.Ptr{Obj: ip.SymObj("target", types.NewPointer(bt))}, bt)
			for i := 0; i < S.NumFields(); i++ {
				entry[i] = ip.Load(st, fieldPtr(a, S.Field(i).Type(), i), S.Field(i).Type())
			}
			return []absint.Val{a, target}, st
		})
		ep, _ := res.(*absint.Ptr)
		if out == nil || ep == nil || ep.Obj == nil || len(ip.Imprec) > 0 {
			R.Fail("coverage", "Clone:analysable", cpos, fmt.Sprintf("not interpretable: %v", ip.Imprec))
		} else {
			for i := 0; i < S.NumFields(); i++ {
				fname := roles.fieldName(i)
				ft := S.Field(i).Type()
				v := ip.Load(out, fieldPtr(ep, ft, i), ft)
				vk, sk := absint.ValKey(v), absint.ValKey(entry[i])
				isZero := vk == "0" || vk == "false" || vk == "nil[]" || vk == "top:nil" || vk == "\"\""
				isFresh := strings.HasPrefix(vk, "top:makemap#") || strings.Contains(vk, "makeslice:")
				switch {
				case i == roles.Code:
					if vk != absint.ValKey(target) {
						R.Fail("coverage", "Clone:"+fname, cpos, "the clone's target is "+vk+", want the parameter")
					} else {
						R.Pass("coverage", "Clone:"+fname, cpos, "the new target buffer")
					}
				case i == roles.N || i == roles.Lines:
					if !isZero {
						R.Fail("coverage", "Clone:"+fname, cpos, "starts as "+vk+", want empty")
					} else {
						R.Pass("coverage", "Clone:"+fname, cpos, "starts empty by design")
					}
				case isRefType(ft):
					if vk == sk {
						R.Fail("no-alias", "Clone:"+fname, cpos, "the clone shares the source's "+fname)
						break
					}
					if !isFresh {
						R.Fail("coverage", "Clone:"+fname, cpos, "is "+vk+", want a fresh copy of the source's "+fname)
						break
					}
					// filled from a range over the same source field, values not aliased
					filled, aliased, partial := false, "", ""
					for _, ev := range ip.Events {
						if ev.Kind != "map-update" || len(ev.Args) != 3 || absint.ValKey(ev.Args[0]) != vk {
							continue
						}
						if strings.Contains(absint.ValKey(ev.Args[1]), "a."+fname+")") {
							filled = true
							// every entry, with its own value
							for _, g := range ev.GuardL {
								if !(strings.HasSuffix(g.Key, ".ok") && strings.Contains(g.Key, "next#")) {
									partial = fmt.Sprintf("only when %s is %v", g.Key, g.Outcome)
								}
							}
							if _, isSl := ev.Args[2].(*absint.Slice); !isSl {
								if k := absint.ValKey(ev.Args[2]); !strings.Contains(k, "a."+fname+")") {
									partial = "with the value " + k + " instead of the entry's own"
								}
							}
						}
						if sl, ok := ev.Args[2].(*absint.Slice); ok {
							if sl.Base.Obj == nil || !strings.Contains(sl.Base.Obj.Name, "makeslice:") {
								aliased = absint.ValKey(sl)
							} else {
								// the fresh slice must be filled by copy from the ranged value
								cp := false
								for _, c := range ip.Events {
									if c.Kind == "copy" {
										d, _ := c.Args[0].(*absint.Slice)
										sr, _ := c.Args[1].(*absint.Slice)
										if d != nil && sr != nil && d.Base.Obj == sl.Base.Obj && strings.Contains(absint.ValKey(sr), "a."+fname+")") {
											cp = true
										}
									}
									// ... or by appending the ranged value to the fresh (empty) slice
									if c.Kind == "append" && len(c.Args) == 2 {
										d, _ := c.Args[0].(*absint.Slice)
										sr, _ := c.Args[1].(*absint.Slice)
										if d != nil && sr != nil && d.Base.Obj == sl.Base.Obj && strings.Contains(absint.ValKey(sr), "a."+fname+")") {
											if l, isC := d.Len.IsConst(); isC && l == 0 {
												cp = true
											}
										}
									}
								}
								if !cp {
									aliased = "not filled by copy from the source's slice"
								}
							}
						}
					}
					if !filled {
						R.Fail("coverage", "Clone:"+fname, cpos, "the fresh map is not filled from a range over the source's "+fname)
					} else if partial != "" {
						R.Fail("coverage", "Clone:"+fname, cpos, "entries of the source's "+fname+" are copied "+partial)
					} else if aliased != "" {
						R.Fail("no-alias", "Clone:"+fname, cpos, "a slice stored in the clone's map aliases the source: "+aliased)
					} else {
						R.Pass("coverage", "Clone:"+fname, cpos, "fresh map filled from the source's "+fname)
						R.Pass("no-alias", "Clone:"+fname, cpos, "no shared reference")
					}
				default:
					if vk != sk {
						why := "is " + vk + ", want the source's value " + sk
						if len(W[i]) > 0 {
							why += fmt.Sprintf(" (the field is modified by %s)", strings.Join(W[i][:min(3, len(W[i]))], ","))
						}
						R.Fail("coverage", "Clone:"+fname, cpos, why)
					} else {
						R.Pass("coverage", "Clone:"+fname, cpos, "copied from the source")
					}
				}
			}
		}
	}
	// ---- Append
	app := ctx.Prog.Method("asm", "Emitter", "Append")
	if app == nil {
		R.Fail("coverage", "Append", "", "(*Emitter).Append not found")
		return
	}
	apos := ctx.Prog.Pos(app.Pos())
	ip := absint.New()
	ip.TraceStores = true
	var a, e *absint.Ptr
	aEntry, eEntry := map[int]absint.Val{}, map[int]absint.Val{}
	_, out := ip.CallFix(app, func() ([]absint.Val, *absint.State) {
		a = &absint.Ptr{Nil: absint.TriF, Obj: ip.SymObj("a", roles.Named), T: roles.Named}
		e = &absint.Ptr{Nil: absint.TriF, Obj: ip.SymObj("e", roles.Named), T: roles.Named}
		st := &absint.State{Heap: absint.NewHeap(nil)}
		// the receiver has a target here; the target-less receiver is looked at separately below
		ct := S.Field(roles.Code).Type()
		if cv, ok := ip.Load(st, fieldPtr(a, ct, roles.Code), ct).(*absint.Slice); ok {
			cv.Nil = absint.TriF
			ip.Store(st, fieldPtr(a, ct, roles.Code), ct, cv)
		}
		for i := 0; i < S.NumFields(); i++ {
			aEntry[i] = ip.Load(st, fieldPtr(a, S.Field(i).Type(), i), S.Field(i).Type())
			eEntry[i] = ip.Load(st, fieldPtr(e, S.Field(i).Type(), i), S.Field(i).Type())
		}
		return []absint.Val{a, e}, st
	})
	if out == nil || len(ip.Imprec) > 0 {
		R.Fail("coverage", "Append:analysable", apos, fmt.Sprintf("not interpretable: %v", ip.Imprec))
		return
	}
	checkAppendNoTarget(ctx, roles, app, W)
	o := ip.Ops
	// capacity guard
	an, _ := aEntry[roles.N].(*absint.Int)
	en, _ := eEntry[roles.N].(*absint.Int)
	acode, _ := aEntry[roles.Code].(*absint.Slice)
	ecode, _ := eEntry[roles.Code].(*absint.Slice)
	if an == nil || en == nil || acode == nil || ecode == nil {
		R.Fail("guard", "Append:shape", apos, "cannot identify n and code of the two emitters")
		return
	}
	cs := capSpec{o: o, need: o.Add(an, en), cap: acode.Len}
	guarded := func(gl []absint.GuardInfo) bool {
		for _, g := range gl {
			if acc, is := capacityGuard(g, cs); is && acc {
				return true
			}
		}
		return false
	}
	okGuard := true
	nEff := 0
	for _, s := range ip.Stores {
		if s.Obj != a.Obj && s.Obj != e.Obj || s.Fn == nil {
			continue // (a store without a function is the set-up of the cell)
		}
		nEff++
		if !guarded(s.GuardL) {
			okGuard = false
			R.Fail("guard", "Append:store:"+s.Obj.Name+absint.PrettyPath(roles.Named, s.Path), ctx.Prog.Pos(s.Pos), "a store to an emitter is not under a.n+e.n <= len(a.code)")
		}
	}
	var copies []absint.Event
	var lineAppend *absint.Event
	for i := range ip.Events {
		ev := ip.Events[i]
		switch ev.Kind {
		case "map-update", "copy", "append":
			nEff++
			if !guarded(ev.GuardL) {
				okGuard = false
				R.Fail("guard", "Append:"+ev.Kind, ctx.Prog.Pos(ev.Pos), "a "+ev.Kind+" is not under a.n+e.n <= len(a.code)")
			}
			if ev.Kind == "copy" {
				copies = append(copies, ev)
			}
			if ev.Kind == "append" && len(ev.Args) == 2 && strings.Contains(absint.ValKey(ev.Args[0]), "a.lines") {
				lineAppend = &ip.Events[i]
			}
		}
	}
	nPanic := 0
	for _, ev := range ip.Events {
		if ev.Kind == "panic" {
			nPanic++
			refusing := false
			for _, g := range ip.GuardListOf(ev) {
				if acc, is := capacityGuard(g, cs); is && !acc {
					refusing = true
				}
			}
			_ = refusing
		}
	}
	if nPanic != 1 {
		okGuard = false
		R.Fail("guard", "Append:refusal", apos, fmt.Sprintf("%d panicking paths, want exactly one (not enough space)", nPanic))
	}
	if okGuard {
		R.Pass("guard", "Append", apos, fmt.Sprintf("%d effects, all under a.n+e.n <= len(a.code); otherwise panic", nEff))
	}
	// coverage per field of W
	var ws []int
	for f := range W {
		ws = append(ws, f)
	}
	sort.Ints(ws)
	for _, f := range ws {
		fname := roles.fieldName(f)
		if f == roles.Base {
			continue // by design the base stays the receiver's
		}
		ft := S.Field(f).Type()
		fin := ip.Load(out, fieldPtr(a, ft, f), ft)
		fk, ek, ak := absint.ValKey(fin), absint.ValKey(eEntry[f]), absint.ValKey(aEntry[f])
		key := "Append:" + fname
		switch {
		case f == roles.Code:
			// bytes: one copy from e.code[0:e.n] into a.code[a.n:]; the header itself is unchanged
			okc := false
			for _, c := range copies {
				d, _ := c.Args[0].(*absint.Slice)
				sr, _ := c.Args[1].(*absint.Slice)
				if d != nil && sr != nil && d.Base.Obj == acode.Base.Obj && d.Off.Lin.Key() == an.Lin.Key() && sr.Base.Obj == ecode.Base.Obj && sr.Off.Lin.Key() == "0" && sr.Len.Lin.Key() == en.Lin.Key() {
					okc = true
				}
			}
			if !okc || fk != ak {
				R.Fail("coverage", key, apos, "the emitted bytes are not transferred by copy(a.code[a.n:], e.code[0:e.n]) or the target header changes")
			} else {
				R.Pass("coverage", key, apos, "copy(a.code[a.n:], e.code[0:e.n])")
			}
		case f == roles.N:
			okn := false
			fi, _ := fin.(*absint.Int)
			for _, c := range copies {
				if r, ok := c.Result.(*absint.Int); ok && fi != nil && o.Add(an, r).Lin.Key() == fi.Lin.Key() {
					okn = true
				}
				// n += e.n is n += copied count where the capacity guard in force makes the
				// copy complete (the source fits in what is left of the destination)
				if src, ok := c.Args[1].(*absint.Slice); ok && fi != nil && src.Len != nil && o.Add(an, o.Convert(src.Len, an.W, true, an.Signed)).Lin.Key() == fi.Lin.Key() {
					for _, g := range c.PathL {
						if acc, is := capacityGuard(g, cs); is && acc {
							okn = true
						}
					}
				}
			}
			if !okn {
				R.Fail("coverage", key, apos, "n after Append is "+fk+", want n + copied count")
			} else {
				R.Pass("coverage", key, apos, "n += copied count")
			}
		case f == roles.Lines:
			okl := false
			if lineAppend != nil {
				if sl, ok := lineAppend.Args[1].(*absint.Slice); ok && strings.Contains(absint.ValKey(sl), "e.lines") {
					okl = absint.ValKey(lineAppend.Result) == fk
				}
			}
			if !okl {
				R.Fail("coverage", key, apos, "the listing is not extended by append(a.lines, e.lines...)")
			} else {
				R.Pass("coverage", key, apos, "append(a.lines, e.lines...)")
			}
		case isRefType(ft):
			if fk == ek {
				R.Fail("no-alias", key, apos, "the receiver now shares the argument's "+fname)
				break
			}
			filled, aliased, partial := false, "", ""
			for _, ev := range ip.Events {
				if ev.Kind != "map-update" || len(ev.Args) != 3 || absint.ValKey(ev.Args[0]) != ak {
					continue
				}
				if strings.Contains(absint.ValKey(ev.Args[1]), "e."+fname+")") {
					filled = true
					// every entry is merged: the update sits under nothing but the capacity guard and the
					// range's own continuation test, and a plain value is the entry's own value
					for _, g := range ev.GuardL {
						if _, is := capacityGuard(g, cs); is || strings.HasSuffix(g.Key, ".ok") && strings.Contains(g.Key, "next#") {
							continue
						}
						partial = fmt.Sprintf("only when %s is %v", g.Key, g.Outcome)
					}
					if _, isSl := ev.Args[2].(*absint.Slice); !isSl {
						if vk := absint.ValKey(ev.Args[2]); !strings.Contains(vk, "e."+fname+")") {
							partial = "with the value " + vk + " instead of the entry's own"
						}
					}
				}
				if sl, ok := ev.Args[2].(*absint.Slice); ok {
					if sl.Base.Obj == nil || !strings.Contains(sl.Base.Obj.Name, "makeslice:") {
						aliased = absint.ValKey(sl)
					}
				}
			}
			if !filled {
				R.Fail("coverage", key, apos, "entries of the argument's "+fname+" are not merged into the receiver's")
			} else if partial != "" {
				R.Fail("coverage", key, apos, "entries of the argument's "+fname+" are merged "+partial)
			} else if aliased != "" {
				R.Fail("no-alias", key, apos, "a slice of the argument is stored in the receiver's map: "+aliased)
			} else {
				R.Pass("coverage", key, apos, "merged from a range over the argument's "+fname)
				R.Pass("no-alias", key, apos, "no shared reference")
			}
		default:
			if fk != ek {
				R.Fail("coverage", key, apos, fmt.Sprintf("after Append the field is %s, want the argument's value %s (the field is modified by %s)", fk, ek, strings.Join(W[f][:min(3, len(W[f]))], ",")))
			} else {
				R.Pass("coverage", key, apos, "taken from the argument")
			}
		}
	}
	_ = ssa.BuilderMode(0)
}

// checkAppendNoTarget: the same transfer for a receiver without a target buffer (a measuring emitter). The scalar
// fields the emitting API can modify take the argument's values, and n stays n plus what could be copied (nothing:
// the capacity guard in force there says a.n+e.n <= 0), whichever way that is spelled.
func checkAppendNoTarget(ctx *Ctx, roles *EmitterRoles, app *ssa.Function, W map[int][]string) {
	R := ctx.R
	S := roles.Struct
	apos := ctx.Prog.Pos(app.Pos())
	ip := absint.New()
	ip.TraceStores = true
	var a, e *absint.Ptr
	aEntry, eEntry := map[int]absint.Val{}, map[int]absint.Val{}
	_, out := ip.CallFix(app, func() ([]absint.Val, *absint.State) {
		a = &absint.Ptr{Nil: absint.TriF, Obj: ip.SymObj("a", roles.Named), T: roles.Named}
		e = &absint.Ptr{Nil: absint.TriF, Obj: ip.SymObj("e", roles.Named), T: roles.Named}
		st := &absint.State{Heap: absint.NewHeap(nil)}
		ct := S.Field(roles.Code).Type()
		if cv, ok := ip.Load(st, fieldPtr(a, ct, roles.Code), ct).(*absint.Slice); ok {
			ip.Store(st, fieldPtr(a, ct, roles.Code), ct, &absint.Slice{Nil: absint.TriT, ElemT: cv.ElemT, Off: absint.NewConst(64, 0, true), Len: absint.NewConst(64, 0, true), Cap: absint.NewConst(64, 0, true)})
		}
		for i := 0; i < S.NumFields(); i++ {
			aEntry[i] = ip.Load(st, fieldPtr(a, S.Field(i).Type(), i), S.Field(i).Type())
			eEntry[i] = ip.Load(st, fieldPtr(e, S.Field(i).Type(), i), S.Field(i).Type())
		}
		return []absint.Val{a, e}, st
	})
	if out == nil || len(ip.Imprec) > 0 {
		R.Fail("coverage", "Append[no-target]:analysable", apos, fmt.Sprintf("not interpretable: %v", ip.Imprec))
		return
	}
	o := ip.Ops
	an, _ := aEntry[roles.N].(*absint.Int)
	en, _ := eEntry[roles.N].(*absint.Int)
	var bad []string
	var ws []int
	for f := range W {
		ws = append(ws, f)
	}
	sort.Ints(ws)
	for _, f := range ws {
		if f == roles.Base || f == roles.Code || f == roles.Lines || isRefType(S.Field(f).Type()) {
			continue
		}
		ft := S.Field(f).Type()
		fin := ip.Load(out, fieldPtr(a, ft, f), ft)
		fk := absint.ValKey(fin)
		if f == roles.N {
			okn := an != nil && (fk == an.Lin.Key() || (en != nil && fk == o.Add(an, en).Lin.Key()))
			for _, ev := range ip.Events {
				if r, ok := ev.Result.(*absint.Int); ok && ev.Kind == "copy" && an != nil && o.Add(an, r).Lin.Key() == fk {
					okn = true
				}
			}
			if !okn {
				bad = append(bad, "n becomes "+fk)
			}
			continue
		}
		if fk != absint.ValKey(eEntry[f]) {
			bad = append(bad, fmt.Sprintf("%s becomes %s, want the argument's %s", roles.fieldName(f), fk, absint.ValKey(eEntry[f])))
		}
	}
	if len(bad) > 0 {
		R.Fail("coverage", "Append[no-target]", apos, strings.Join(bad, "; "))
	} else {
		R.Pass("coverage", "Append[no-target]", apos, "without a target: scalar fields taken from the argument, n unchanged up to the (empty) copy")
	}
}
