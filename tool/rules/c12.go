package rules

import (
	"fmt"
	"go/token"
	"go/types"
	"strings"

	"golang.org/x/tools/go/ssa"

	"verif/tool/absint"
)

func init() { register("C12", "other", C12) }

func C12(ctx *Ctx) {
	R := ctx.R
	R.Explanation = "Cell rules (abstract interpretation of Step per opcode x M,X,E x interrupt, both packages): the Cycles byte at return has interval lower bound >= 1 and no wrapped value; AllCycles' = AllCycles + Cycles' and the first result is Cycles' (linear forms); with Stopped fixed to false/true the second result and the Stopped field keep that value for every opcode except STP, which sets both true; the OnPC lookup key, the callback call and the opcode fetch address coincide; the WDM callback receives the operand byte that is stored to WDM. Structural rules (SSA, dominance, natural loops): who stores to Stopped/AllCycles in the whole module; RunUntil's loop shape (budget test on the cycle counter, target test dominating Step with nothing in between, counter advanced only by Step's first result, result recomputed after the loop)."
	R.Trusted = []string{"go/packages + go/ssa", "absint interval and linear-form transfer functions", "flags hold 0/1 (C01/flags01)", "user callbacks and Logger do not modify the CPU"}
	R.Rule("cycles>=1", "in every Step cell the cycle count at return is at least 1 and below 128 (no byte wrap on the chain from the opcode table through the adjustments)")
	R.Rule("accounting", "AllCycles after Step = AllCycles before + the returned count; the first result of Step is the Cycles field")
	R.Rule("stopped", "Step's second result and the Stopped field equal the entry value of Stopped for every opcode but STP, and are true for STP; in the whole module only the STP routine stores true, only Reset/Init-style functions store false or replace the whole CPU")
	R.Rule("rununtil", "RunUntil: one loop; budget test cycles<maxCycles at the header; Step is called only on the false edge of GetPC()==targetPC with no effect in between; cycles is advanced only by Step's first result; the result is GetPC()==targetPC evaluated after the loop")
	R.Rule("callbacks", "OnPC: looked up under RK<<16|PC, called once and only on the found edge, and the opcode is then fetched from that very address; OnWDM receives the value stored to WDM, which is the operand byte")
	isa, err := loadISA(ctx)
	if err != nil {
		R.Fail("cycles>=1", "reference", "", err.Error())
		return
	}
	stpOp := -1
	wdmOp := -1
	for k, o := range isa.Ops {
		if o.Mn == "stp" {
			stpOp = k
		}
		if o.Mn == "wdm" {
			wdmOp = k
		}
	}
	sw := cpuSweep(ctx)
	R.Floor("cpu-cells", 2*6144)
	for _, rel := range cpuRels {
		m := sw.Models[rel]
		rs := relShort(rel)
		if m.Err != "" {
			R.Fail("cycles>=1", rs+":model", "", m.Err)
			continue
		}
		cyc, acct := aggMap{}, aggMap{}
		for _, r := range sw.Results[rel] {
			c := r.Cell
			if !r.Returned {
				cyc.add(rs+":no-return", c.Opcode, "", c.String())
				continue
			}
			cy, _ := r.Final["Cycles"].(*absint.Int)
			if cy == nil || cy.Lo < 1 || cy.Hi >= 128 {
				cyc.add(fmt.Sprintf("%s:%s", rs, isa.Ops[c.Opcode].Mn), c.Opcode, "", fmt.Sprintf("cell %s: Cycles at return = %s", c, fmtVal(r.Final["Cycles"])))
			}
			// accounting
			a0, _ := r.Entry["AllCycles"].(*absint.Int)
			a1, _ := r.Final["AllCycles"].(*absint.Int)
			tp, _ := r.Ret.(*absint.Tuple)
			if cy != nil && a0 != nil && a1 != nil && tp != nil && len(tp.E) == 2 {
				o := absint.Ops{In: absint.NewInterner()}
				want := o.Add(a0, o.Convert(cy, a0.W, false, false)).Lin.Key()
				if a1.Lin.Key() != want {
					acct.add(rs+":AllCycles", c.Opcode, "", fmt.Sprintf("cell %s: AllCycles' = %s, want AllCycles + %s", c, a1, cy))
				}
				r0, _ := tp.E[0].(*absint.Int)
				if r0 == nil || r0.Lin.Key() != o.Convert(cy, r0.W, false, true).Lin.Key() {
					acct.add(rs+":result", c.Opcode, "", fmt.Sprintf("cell %s: first result %s is not the Cycles field %s", c, fmtVal(tp.E[0]), cy))
				}
			} else {
				acct.add(rs+":shape", c.Opcode, "", "cell "+c.String()+": AllCycles/Cycles/result not integers")
			}
		}
		emitAgg(R, "cycles>=1", cyc, rs, fmt.Sprintf("%d cells: 1 <= Cycles < 128", len(sw.Results[rel])))
		emitAgg(R, "accounting", acct, rs, "AllCycles and the first result account exactly the Cycles field in every cell")

		// stopped cells: Stopped fixed, no interrupt, E and widths varied
		var cells []CPUCell
		for op := 0; op < 256; op++ {
			for f := 0; f < 8; f++ {
				for sv := 0; sv < 2; sv++ {
					cells = append(cells, CPUCell{Opcode: op, M: f & 1, X: f >> 1 & 1, E: f >> 2 & 1, Intr: m.IntrNone, Stopped: sv, Op1: -1, DLZero: -1})
				}
			}
		}
		st := aggMap{}
		res := m.RunAll(cells)
		R.Count("stopped-cells", len(res))
		for _, r := range res {
			c := r.Cell
			want := c.Stopped == 1 || c.Opcode == stpOp
			tp, _ := r.Ret.(*absint.Tuple)
			var got absint.Tri = absint.TriTop
			if tp != nil && len(tp.E) == 2 {
				if b, ok := tp.E[1].(*absint.Bool); ok {
					got = b.K
				}
			}
			fin := absint.TriTop
			if b, ok := r.Final["Stopped"].(*absint.Bool); ok {
				fin = b.K
			}
			wt := absint.TriF
			if want {
				wt = absint.TriT
			}
			if got != wt || fin != wt {
				st.add(fmt.Sprintf("%s:%s", rs, isa.Ops[c.Opcode].Mn), c.Opcode, "", fmt.Sprintf("cell %s: result stopped=%s, field Stopped=%s, want %s", c, got, fin, wt))
			}
		}
		emitAgg(R, "stopped", st, rs+":cells", fmt.Sprintf("%d cells: stop status reported exactly from STP on", len(res)))

		// writers of Stopped and AllCycles in the whole module
		checkWriters(ctx, m, rs, stpOp)

		// callbacks
		cb := aggMap{}
		for _, r := range sw.Results[rel] {
			c := r.Cell
			var lookups, calls []absint.Event
			for _, e := range r.Events {
				switch e.Kind {
				case "map-lookup":
					lookups = append(lookups, e)
				case "callback":
					calls = append(calls, e)
				}
			}
			if len(lookups) > 0 {
				// OnPC dispatching interpreter
				if len(lookups) != 1 {
					cb.add(rs+":OnPC:lookups", c.Opcode, "", fmt.Sprintf("cell %s: %d map lookups", c, len(lookups)))
					continue
				}
				lk := lookups[0]
				key, _ := lk.Args[1].(*absint.Int)
				rk, _ := r.Entry["RK"].(*absint.Int)
				pc, _ := r.Entry["PC"].(*absint.Int)
				if key == nil || rk == nil || pc == nil {
					continue
				}
				o := absint.Ops{In: absint.NewInterner()}
				want := o.Or(o.Shl(o.Convert(rk, 32, false, false), absint.NewConst(32, 16, false)), o.Convert(pc, 32, false, false))
				if c.IntrIdx == 0 && key.Lin.Key() != want.Lin.Key() {
					cb.add(rs+":OnPC:key", c.Opcode, ctx.Prog.Pos(lk.Pos), fmt.Sprintf("cell %s: lookup key %s, want RK<<16|PC", c, key))
				}
				// the very next bus access after the lookup must be the opcode fetch, at the looked-up address
				var next *absint.Event
				seen := false
				for i := range r.Events {
					e := &r.Events[i]
					if e.Kind == "map-lookup" {
						seen = true
						continue
					}
					if seen && e.Kind == "slot-call" {
						next = e
						break
					}
				}
				var fetch *Access
				for i := range r.Accesses {
					if r.Accesses[i].IByte == 0 {
						fetch = &r.Accesses[i]
						break
					}
				}
				na, _ := (*absint.Int)(nil), 0
				if next != nil && len(next.Args) > 0 {
					na, _ = next.Args[0].(*absint.Int)
				}
				if fetch == nil || na == nil || fetch.Addr.Lin.Key() != key.Lin.Key() || na.Lin.Key() != key.Lin.Key() {
					fa := "none"
					if na != nil {
						fa = na.String()
					}
					k := rs + ":OnPC:fetch-at-callback-address"
					if c.IntrIdx > 0 {
						k += ":pending-interrupt"
					}
					cb.add(k, c.Opcode, ctx.Prog.Pos(lk.Pos), fmt.Sprintf("cell %s: callback looked up for %s but the next bus access (the opcode fetch) is at %s", c, key, fa))
				}
			}
			if c.Opcode == wdmOp && c.IntrIdx == 0 {
				w, _ := r.Final["WDM"].(*absint.Int)
				var arg *absint.Int
				n := 0
				for _, e := range calls {
					if strings.Contains(shortStack(e.Stack), "op_wdm") || len(e.Args) == 1 {
						if a, ok := e.Args[len(e.Args)-1].(*absint.Int); ok && a.W == 8 {
							arg = a
							n++
						}
					}
				}
				if w == nil || w.Lin.Key() != "0+ib1" {
					cb.add(rs+":OnWDM:stored", c.Opcode, "", fmt.Sprintf("cell %s: WDM field = %s, want the operand byte", c, fmtVal(r.Final["WDM"])))
				}
				if n != 1 || arg == nil || arg.Lin.Key() != "0+ib1" {
					cb.add(rs+":OnWDM:argument", c.Opcode, "", fmt.Sprintf("cell %s: %d WDM callback calls, argument %s, want one call with the operand byte", c, n, fmtVal(arg)))
				}
			}
		}
		emitAgg(R, "callbacks", cb, rs+":cells", "lookup key, callback and fetch address coincide; WDM callback receives the operand")
		checkOnPCShape(ctx, m, rs)
	}
	checkRunUntil(ctx)
	R.Floor("stopped-cells", 2*4096)
	R.Analysed["cells"] = "2 packages x (256 x M,X,E x 3 interrupt states + 256 x M,X,E x Stopped in {false,true})"
}

func emitAgg(R interface {
	Fail(rule, construct, pos, detail string)
	Pass(rule, construct, pos, detail string)
}, rule string, a aggMap, okKey, okMsg string) {
	for _, k := range a.keys() {
		g := a[k]
		R.Fail(rule, k, g.pos, fmt.Sprintf("opcodes %s (%d cells); e.g. %s", opSet(g.ops), g.n, g.ex))
	}
	if len(a) == 0 {
		R.Pass(rule, okKey, "", okMsg)
	}
}

// checkWriters: who may store to Stopped / AllCycles.
func checkWriters(ctx *Ctx, m *CPUModel, rs string, stpOp int) {
	R := ctx.R
	stpProc := m.Table.E[stpOp&0xFF].Proc
	for _, fname := range []string{"Stopped", "AllCycles"} {
		fi := fieldIndex(m.Struct, fname)
		if fi < 0 {
			R.Fail("stopped", rs+":field:"+fname, "", "CPU has no field "+fname)
			continue
		}
		ok := true
		for _, s := range storesToField(ctx, m.Named, fi) {
			pos := ctx.Prog.Pos(s.Instr.Pos())
			name := s.Fn.Name()
			initLike := name == "Reset" || strings.HasPrefix(name, "Init")
			switch {
			case s.Whole:
				if !initLike {
					ok = false
					R.Fail("stopped", fmt.Sprintf("%s:%s:whole-struct-store:%s", rs, fname, fnShort(s.Fn)), pos, "the whole CPU value is replaced outside Reset/Init*")
				}
			case fname == "Stopped":
				c, isConst := s.Instr.Val.(*ssa.Const)
				val := isConst && c.Value != nil && c.Value.String() == "true"
				switch {
				case !isConst:
					ok = false
					R.Fail("stopped", fmt.Sprintf("%s:Stopped:store:%s", rs, fnShort(s.Fn)), pos, "Stopped is assigned a computed value")
				case val && s.Fn != stpProc:
					ok = false
					R.Fail("stopped", fmt.Sprintf("%s:Stopped:set:%s", rs, fnShort(s.Fn)), pos, "Stopped is set outside the STP routine")
				case !val && !initLike:
					ok = false
					R.Fail("stopped", fmt.Sprintf("%s:Stopped:clear:%s", rs, fnShort(s.Fn)), pos, "Stopped is cleared outside Reset/Init*")
				}
			case fname == "AllCycles":
				if s.Fn != m.Step && !initLike {
					ok = false
					R.Fail("accounting", fmt.Sprintf("%s:AllCycles:store:%s", rs, fnShort(s.Fn)), pos, "AllCycles is stored outside Step")
				}
			}
		}
		for _, esc := range addrEscapesOfField(ctx, m.Named, fi) {
			ok = false
			R.Fail("stopped", fmt.Sprintf("%s:%s:address-escapes:%s", rs, fname, fnShort(esc.Parent())), ctx.Prog.Pos(esc.Pos()), "the field's address is used other than for a direct load/store")
		}
		if ok {
			rule := "stopped"
			if fname == "AllCycles" {
				rule = "accounting"
			}
			R.Pass(rule, rs+":writers:"+fname, "", "stores confined to the permitted functions")
		}
	}
}

// checkOnPCShape: the callback is invoked only on the found-edge of its own lookup.
func checkOnPCShape(ctx *Ctx, m *CPUModel, rs string) {
	R := ctx.R
	fi := fieldIndex(m.Struct, "OnPC")
	if fi < 0 {
		return
	}
	var lookups []*ssa.Lookup
	for _, fn := range ctx.Prog.AllFuncs() {
		for _, b := range fn.Blocks {
			for _, in := range b.Instrs {
				if lk, ok := in.(*ssa.Lookup); ok && isFieldLoad(lk.X, m.Named, fi) {
					lookups = append(lookups, lk)
				}
			}
		}
	}
	if len(lookups) == 0 {
		R.Pass("callbacks", rs+":OnPC:shape", "", "this interpreter declares OnPC but never consults it (clause not applicable to it)")
		return
	}
	for _, lk := range lookups {
		pos := ctx.Prog.Pos(lk.Pos())
		key := fmt.Sprintf("%s:OnPC:shape:%s", rs, fnShort(lk.Parent()))
		if lk.Parent() != m.Step || !lk.CommaOk {
			R.Fail("callbacks", key, pos, "OnPC is consulted outside Step or without the found flag")
			continue
		}
		var okV, fnV ssa.Value
		for _, ref := range *lk.Referrers() {
			if ex, ok := ref.(*ssa.Extract); ok {
				if ex.Index == 1 {
					okV = ex
				} else {
					fnV = ex
				}
			}
		}
		var iff *ssa.If
		if okV != nil {
			for _, ref := range *okV.Referrers() {
				if i, ok := ref.(*ssa.If); ok {
					iff = i
				}
			}
		}
		if iff == nil || fnV == nil {
			R.Fail("callbacks", key, pos, "the found flag of the lookup does not guard anything")
			continue
		}
		bad := ""
		ncalls := 0
		for _, ref := range *fnV.Referrers() {
			c, ok := ref.(*ssa.Call)
			if !ok || c.Call.Value != fnV {
				if _, isDbg := ref.(*ssa.DebugRef); !isDbg {
					bad = "the looked-up callback is used other than by calling it"
				}
				continue
			}
			ncalls++
			if !edgeDominates(iff.Block(), 0, c.Block()) {
				bad = "the callback call is not confined to the found edge"
			}
		}
		if ncalls != 1 && bad == "" {
			bad = fmt.Sprintf("%d calls of the looked-up callback", ncalls)
		}
		if bad != "" {
			R.Fail("callbacks", key, pos, bad)
		} else {
			R.Pass("callbacks", key, pos, "called once, only when found")
		}
	}
}

// checkRunUntil decides the structural loop rules on emulator.System.RunUntil.
func checkRunUntil(ctx *Ctx) {
	R := ctx.R
	fn := ctx.Prog.Method("emulator", "System", "RunUntil")
	if fn == nil {
		R.Fail("rununtil", "function", "", "emulator.(*System).RunUntil not found")
		return
	}
	pos := ctx.Prog.Pos(fn.Pos())
	fail := func(c, msg string) { R.Fail("rununtil", c, pos, msg) }
	if len(fn.Params) != 3 {
		fail("signature", "RunUntil(targetPC, maxCycles) expected")
		return
	}
	target, budget := fn.Params[1], fn.Params[2]
	isStep := func(f *ssa.Function) bool {
		return f.Name() == "Step" && f.Signature.Recv() != nil && f.Signature.Results().Len() == 2
	}
	getPC := ctx.Prog.Method("emulator", "System", "GetPC")
	isGetPC := func(f *ssa.Function) bool { return f == getPC }
	steps := callsIn(fn, isStep)
	loops := loopsOf(fn)
	if len(loops) != 1 {
		fail("loop", fmt.Sprintf("%d loops, want exactly one", len(loops)))
		return
	}
	L := loops[0]
	if len(steps) != 1 {
		fail("step-call", fmt.Sprintf("%d calls of Step, want exactly one", len(steps)))
		return
	}
	step := steps[0]
	if !L.Body[step.Block()] {
		fail("step-call", "Step is called outside the loop")
	}
	// the cycle counter: a uint64 phi at the header with a constant-0 initial value
	var counter *ssa.Phi
	for _, in := range L.Header.Instrs {
		if p, ok := in.(*ssa.Phi); ok && types.Identical(p.Type(), budget.Type()) {
			counter = p
		}
	}
	if counter == nil {
		fail("counter", "no cycle counter phi at the loop header")
		return
	}
	okAll := true
	// budget test
	iff, _ := L.Header.Instrs[len(L.Header.Instrs)-1].(*ssa.If)
	cond, _ := func() (*ssa.BinOp, bool) {
		if iff == nil {
			return nil, false
		}
		b, ok := iff.Cond.(*ssa.BinOp)
		return b, ok
	}()
	switch {
	case cond == nil:
		fail("budget", "the loop header does not end in a comparison")
		okAll = false
	default:
		// the header stays in the loop exactly when cycles < maxCycles, whichever way the
		// test is written: `cycles < max` / `max > cycles` continuing on the true edge, or
		// `cycles >= max` / `max <= cycles` leaving on the true edge (`for { if .. break }`)
		cont := (cond.Op == token.LSS && cond.X == counter && cond.Y == budget) || (cond.Op == token.GTR && cond.Y == counter && cond.X == budget)
		leave := (cond.Op == token.GEQ && cond.X == counter && cond.Y == budget) || (cond.Op == token.LEQ && cond.Y == counter && cond.X == budget)
		switch {
		case !cont && !leave:
			fail("budget", "the loop condition is not cycles < maxCycles: "+cond.String())
			okAll = false
		case cont && (!L.Body[L.Header.Succs[0]] || L.Body[L.Header.Succs[1]]), leave && (L.Body[L.Header.Succs[0]] || !L.Body[L.Header.Succs[1]]):
			fail("budget", "the budget test does not leave the loop when it fails")
			okAll = false
		}
	}
	// counter advance
	for i, e := range counter.Edges {
		pred := L.Header.Preds[i]
		if !L.Body[pred] {
			if c, ok := e.(*ssa.Const); !ok || c.Uint64() != 0 {
				fail("counter-init", "the cycle counter does not start at 0")
				okAll = false
			}
			continue
		}
		add, ok := e.(*ssa.BinOp)
		good := false
		if ok && add.Op == token.ADD {
			for _, pair := range [][2]ssa.Value{{add.X, add.Y}, {add.Y, add.X}} {
				if pair[0] != counter {
					continue
				}
				cv, ok := pair[1].(*ssa.Convert)
				if !ok {
					continue
				}
				ex, ok := cv.X.(*ssa.Extract)
				if ok && ex.Tuple == step && ex.Index == 0 {
					good = true
				}
			}
		}
		if !good {
			fail("counter-advance", "on a back edge the counter is not cycles + uint64(first result of Step): "+e.String())
			okAll = false
		}
	}
	// target test dominating Step
	var tests []*ssa.BinOp
	for b := range L.Body {
		for _, in := range b.Instrs {
			if bo, ok := in.(*ssa.BinOp); ok && bo.Op == token.EQL {
				for _, pair := range [][2]ssa.Value{{bo.X, bo.Y}, {bo.Y, bo.X}} {
					if c, ok := pair[0].(*ssa.Call); ok && pair[1] == target && c.Call.StaticCallee() != nil && isGetPC(c.Call.StaticCallee()) {
						tests = append(tests, bo)
					}
				}
			}
		}
	}
	if len(tests) != 1 {
		fail("target-test", fmt.Sprintf("%d comparisons GetPC()==targetPC inside the loop, want 1", len(tests)))
		okAll = false
	} else {
		t := tests[0]
		tb := t.Block()
		tif, _ := tb.Instrs[len(tb.Instrs)-1].(*ssa.If)
		var call *ssa.Call
		if c, ok := t.X.(*ssa.Call); ok {
			call = c
		} else {
			call = t.Y.(*ssa.Call)
		}
		switch {
		case tif == nil || tif.Cond != t:
			fail("target-test", "the comparison does not decide a branch")
			okAll = false
		case L.Body[tb.Succs[0]] && tb.Succs[0] != L.Header:
			fail("target-test", "reaching the target does not leave the loop")
			okAll = false
		case tb.Succs[1] != step.Block() || len(step.Block().Preds) != 1:
			fail("target-test", "Step is not called exactly on the not-at-target edge")
			okAll = false
		case call.Block() != tb:
			fail("target-test", "GetPC is evaluated in another block than the test")
			okAll = false
		default:
			if e := hasEffectBetween(tb, instrIndex(call), len(tb.Instrs)); e != nil {
				fail("target-test", "an effect occurs between reading the PC and testing it: "+e.String())
				okAll = false
			}
			if e := hasEffectBetween(step.Block(), -1, instrIndex(step)); e != nil {
				fail("target-test", "an effect occurs between the target test and Step: "+e.String())
				okAll = false
			}
		}
	}
	// result
	for _, b := range fn.Blocks {
		ret, ok := b.Instrs[len(b.Instrs)-1].(*ssa.Return)
		if !ok {
			continue
		}
		good := false
		if len(ret.Results) == 1 {
			if bo, ok := ret.Results[0].(*ssa.BinOp); ok && bo.Op == token.EQL {
				for _, pair := range [][2]ssa.Value{{bo.X, bo.Y}, {bo.Y, bo.X}} {
					if c, ok := pair[0].(*ssa.Call); ok && pair[1] == target && c.Call.StaticCallee() != nil && isGetPC(c.Call.StaticCallee()) && !L.Body[c.Block()] {
						// no Step can follow the final read of the PC
						good = !reaches(c.Block(), step.Block(), nil)
					}
				}
			}
		}
		if !good {
			fail("result", "a return does not yield GetPC()==targetPC evaluated after the loop")
			okAll = false
		}
	}
	if okAll {
		R.Pass("rununtil", "emulator.(*System).RunUntil", pos, "loop shape, budget test, target test before Step, counter advance and result as required")
	}
	R.Count("rununtil-function", 1)
	R.Floor("rununtil-function", 1)
}
