package rules

import (
	"fmt"
	"go/constant"
	"go/token"
	"go/types"
	"sort"
	"strings"

	"golang.org/x/tools/go/ssa"

	"verif/tool/absint"
)

func init() { register("C12", "other", C12) }

func C12(ctx *Ctx) {
	R := ctx.R
	R.Explanation = "Cell rules (abstract interpretation of Step per opcode x M,X,E x interrupt, both packages): the Cycles byte at return has interval lower bound >= 1 and no wrapped value; AllCycles' = AllCycles + Cycles' and the first result is Cycles' (linear forms); with Stopped fixed to false/true the second result and the Stopped field keep that value for every opcode except STP, which sets both true; the OnPC lookup key, the callback call and the opcode fetch address coincide; the WDM callback receives the operand byte that is stored to WDM. Structural rules (SSA, dominance, natural loops): who stores to Stopped/AllCycles in the whole module; RunUntil's iteration paths (every path to Step holds the budget test on the cycle counter and the target test with nothing in between, the counter advances by Step's first result, a pass without Step ends the loop, result recomputed after the loop)."
	R.Trusted = []string{"go/packages + go/ssa", "absint interval and linear-form transfer functions", "flags hold 0/1 (C01/flags01)", "user callbacks and Logger do not modify the CPU"}
	R.Rule("cycles>=1", "in every Step cell the cycle count at return is at least 1 and below 128 (no byte wrap on the chain from the opcode table through the adjustments)")
	R.Rule("accounting", "AllCycles after Step = AllCycles before + the returned count; the first result of Step is the Cycles field")
	R.Rule("stopped", "Step's second result and the Stopped field equal the entry value of Stopped for every opcode but STP, and are true for STP; in the whole module only the STP routine stores true, only Reset/Init-style functions store false or replace the whole CPU")
	R.Rule("rununtil", "RunUntil: one loop with one Step call; over every feasible acyclic path of one iteration (branch outcomes resolved through negations and flag merges): a path that calls Step has established cycles<maxCycles for this iteration's counter and GetPC()!=targetPC with no effect between that read and Step, and returns to the header with cycles+uint64(Step's first result); a path that returns to the header without Step is followed by a pass that leaves the loop before any undecided branch; the counter starts at 0; the result is GetPC()==targetPC evaluated after the loop")
	R.Rule("callbacks", "OnPC: looked up under RK<<16|PC, called once and only on the found edge, and the opcode is then fetched from that very address; OnWDM receives the value stored to WDM, which is the operand byte")
	isa, err := loadISA(ctx)
	if err != nil {
		R.Fail("cycles>=1", "reference", "", err.Error())
		return
	}
	stpOp := -1
	wdmOp := -1
	for k, o := range isa.Ops {
		if o.Mn == "stp" {
			stpOp = k
		}
		if o.Mn == "wdm" {
			wdmOp = k
		}
	}
	sw := cpuSweep(ctx)
	R.Floor("cpu-cells", 2*6144)
	for _, rel := range cpuRels {
		m := sw.Models[rel]
		rs := relShort(rel)
		if m.Err != "" {
			R.Fail("cycles>=1", rs+":model", "", m.Err)
			continue
		}
		cyc, acct := aggMap{}, aggMap{}
		for _, r := range sw.Results[rel] {
			c := r.Cell
			if !r.Returned {
				cyc.add(rs+":no-return", c.Opcode, "", c.String())
				continue
			}
			cy, _ := r.Final["Cycles"].(*absint.Int)
			if cy != nil && (cy.Lo < 1 || cy.Hi >= 128) {
				// the interval of a sum does not see that a term such as ite(c)(0|$FF) stands for 0 or -1: decide
				// the merges both ways (every combination, feasible or not) and take the hull of the results
				conds := map[string]bool{}
				absint.IteConds(cy.Lin, conds)
				var keys []string
				for k := range conds {
					keys = append(keys, k)
				}
				sort.Strings(keys)
				if n := len(keys); n > 0 && n <= 8 {
					ro := absint.Ops{In: absint.NewInterner()}
					lo, hi := ^uint64(0), uint64(0)
					for a := 0; a < 1<<uint(n); a++ {
						asg := map[string]bool{}
						for i, k := range keys {
							asg[k] = a>>uint(i)&1 == 1
						}
						v := ro.Rebuild(cy.Lin, asg)
						if v.Lo < lo {
							lo = v.Lo
						}
						if v.Hi > hi {
							hi = v.Hi
						}
					}
					if lo >= 1 && hi < 128 {
						cy = &absint.Int{W: cy.W, Lo: lo, Hi: hi, Lin: cy.Lin, Bits: cy.Bits}
					}
				}
			}
			if cy == nil || cy.Lo < 1 || cy.Hi >= 128 {
				cyc.add(fmt.Sprintf("%s:%s", rs, isa.Ops[c.Opcode].Mn), c.Opcode, "", fmt.Sprintf("cell %s: Cycles at return = %s", c, fmtVal(r.Final["Cycles"])))
			}
			// accounting
			a0, _ := r.Entry["AllCycles"].(*absint.Int)
			a1, _ := r.Final["AllCycles"].(*absint.Int)
			tp, _ := r.Ret.(*absint.Tuple)
			if cy != nil && a0 != nil && a1 != nil && tp != nil && len(tp.E) == 2 {
				o := absint.Ops{In: absint.NewInterner()}
				want := o.Add(a0, o.Convert(cy, a0.W, false, false)).Lin.Key()
				if a1.Lin.Key() != want {
					acct.add(rs+":AllCycles", c.Opcode, "", fmt.Sprintf("cell %s: AllCycles' = %s, want AllCycles + %s", c, a1, cy))
				}
				r0, _ := tp.E[0].(*absint.Int)
				if r0 == nil || r0.Lin.Key() != o.Convert(cy, r0.W, false, true).Lin.Key() {
					acct.add(rs+":result", c.Opcode, "", fmt.Sprintf("cell %s: first result %s is not the Cycles field %s", c, fmtVal(tp.E[0]), cy))
				}
			} else {
				acct.add(rs+":shape", c.Opcode, "", "cell "+c.String()+": AllCycles/Cycles/result not integers")
			}
		}
		emitAgg(R, "cycles>=1", cyc, rs, fmt.Sprintf("%d cells: 1 <= Cycles < 128", len(sw.Results[rel])))
		emitAgg(R, "accounting", acct, rs, "AllCycles and the first result account exactly the Cycles field in every cell")

		// stopped cells: Stopped fixed, no interrupt, E and widths varied
		var cells []CPUCell
		for op := 0; op < 256; op++ {
			for f := 0; f < 8; f++ {
				for sv := 0; sv < 2; sv++ {
					cells = append(cells, CPUCell{Opcode: op, M: f & 1, X: f >> 1 & 1, E: f >> 2 & 1, Intr: m.IntrNone, Stopped: sv, Op1: -1, DLZero: -1})
				}
			}
		}
		st := aggMap{}
		res := m.RunAll(cells)
		R.Count("stopped-cells", len(res))
		for _, r := range res {
			c := r.Cell
			want := c.Stopped == 1 || c.Opcode == stpOp
			tp, _ := r.Ret.(*absint.Tuple)
			var got absint.Tri = absint.TriTop
			if tp != nil && len(tp.E) == 2 {
				if b, ok := tp.E[1].(*absint.Bool); ok {
					got = b.K
				}
			}
			fin := absint.TriTop
			if b, ok := r.Final["Stopped"].(*absint.Bool); ok {
				fin = b.K
			}
			wt := absint.TriF
			if want {
				wt = absint.TriT
			}
			if got != wt || fin != wt {
				st.add(fmt.Sprintf("%s:%s", rs, isa.Ops[c.Opcode].Mn), c.Opcode, "", fmt.Sprintf("cell %s: result stopped=%s, field Stopped=%s, want %s", c, got, fin, wt))
			}
		}
		emitAgg(R, "stopped", st, rs+":cells", fmt.Sprintf("%d cells: stop status reported exactly from STP on", len(res)))

		// writers of Stopped and AllCycles in the whole module
		checkWriters(ctx, m, rs, stpOp)

		// callbacks
		cb := aggMap{}
		for _, r := range sw.Results[rel] {
			c := r.Cell
			var lookups, calls []absint.Event
			for _, e := range r.Events {
				switch e.Kind {
				case "map-lookup":
					lookups = append(lookups, e)
				case "callback":
					calls = append(calls, e)
				}
			}
			if len(lookups) > 0 {
				// OnPC dispatching interpreter
				if len(lookups) != 1 {
					cb.add(rs+":OnPC:lookups", c.Opcode, "", fmt.Sprintf("cell %s: %d map lookups", c, len(lookups)))
					continue
				}
				lk := lookups[0]
				key, _ := lk.Args[1].(*absint.Int)
				rk, _ := r.Entry["RK"].(*absint.Int)
				pc, _ := r.Entry["PC"].(*absint.Int)
				if key == nil || rk == nil || pc == nil {
					continue
				}
				o := absint.Ops{In: absint.NewInterner()}
				want := o.Or(o.Shl(o.Convert(rk, 32, false, false), absint.NewConst(32, 16, false)), o.Convert(pc, 32, false, false))
				if c.IntrIdx == 0 && key.Lin.Key() != want.Lin.Key() {
					cb.add(rs+":OnPC:key", c.Opcode, ctx.Prog.Pos(lk.Pos), fmt.Sprintf("cell %s: lookup key %s, want RK<<16|PC", c, key))
				}
				// the very next bus access after the lookup must be the opcode fetch, at the looked-up address
				var next *absint.Event
				seen := false
				for i := range r.Events {
					e := &r.Events[i]
					if e.Kind == "map-lookup" {
						seen = true
						continue
					}
					if seen && e.Kind == "slot-call" {
						next = e
						break
					}
				}
				var fetch *Access
				for i := range r.Accesses {
					if r.Accesses[i].IByte == 0 {
						fetch = &r.Accesses[i]
						break
					}
				}
				na, _ := (*absint.Int)(nil), 0
				if next != nil && len(next.Args) > 0 {
					na, _ = next.Args[0].(*absint.Int)
				}
				if fetch == nil || na == nil || fetch.Addr.Lin.Key() != key.Lin.Key() || na.Lin.Key() != key.Lin.Key() {
					fa := "none"
					if na != nil {
						fa = na.String()
					}
					k := rs + ":OnPC:fetch-at-callback-address"
					if c.IntrIdx > 0 {
						k += ":pending-interrupt"
					}
					cb.add(k, c.Opcode, ctx.Prog.Pos(lk.Pos), fmt.Sprintf("cell %s: callback looked up for %s but the next bus access (the opcode fetch) is at %s", c, key, fa))
				}
			}
			if c.Opcode == wdmOp && c.IntrIdx == 0 {
				w, _ := r.Final["WDM"].(*absint.Int)
				var arg *absint.Int
				n := 0
				for _, e := range calls {
					if strings.Contains(shortStack(e.Stack), "op_wdm") || len(e.Args) == 1 {
						if a, ok := e.Args[len(e.Args)-1].(*absint.Int); ok && a.W == 8 {
							arg = a
							n++
						}
					}
				}
				if w == nil || w.Lin.Key() != "0+ib1" {
					cb.add(rs+":OnWDM:stored", c.Opcode, "", fmt.Sprintf("cell %s: WDM field = %s, want the operand byte", c, fmtVal(r.Final["WDM"])))
				}
				if n != 1 || arg == nil || arg.Lin.Key() != "0+ib1" {
					cb.add(rs+":OnWDM:argument", c.Opcode, "", fmt.Sprintf("cell %s: %d WDM callback calls, argument %s, want one call with the operand byte", c, n, fmtVal(arg)))
				}
			}
		}
		emitAgg(R, "callbacks", cb, rs+":cells", "lookup key, callback and fetch address coincide; WDM callback receives the operand")
		checkOnPCShape(ctx, m, rs)
	}
	checkRunUntil(ctx)
	R.Floor("stopped-cells", 2*4096)
	R.Analysed["cells"] = "2 packages x (256 x M,X,E x 3 interrupt states + 256 x M,X,E x Stopped in {false,true})"
}

func emitAgg(R interface {
	Fail(rule, construct, pos, detail string)
	Pass(rule, construct, pos, detail string)
}, rule string, a aggMap, okKey, okMsg string) {
	for _, k := range a.keys() {
		g := a[k]
		R.Fail(rule, k, g.pos, fmt.Sprintf("opcodes %s (%d cells); e.g. %s", opSet(g.ops), g.n, g.ex))
	}
	if len(a) == 0 {
		R.Pass(rule, okKey, "", okMsg)
	}
}

// checkWriters: who may store to Stopped / AllCycles.
func checkWriters(ctx *Ctx, m *CPUModel, rs string, stpOp int) {
	R := ctx.R
	stpProc := m.Table.E[stpOp&0xFF].Proc
	for _, fname := range []string{"Stopped", "AllCycles"} {
		fi := fieldIndex(m.Struct, fname)
		if fi < 0 {
			R.Fail("stopped", rs+":field:"+fname, "", "CPU has no field "+fname)
			continue
		}
		ok := true
		for _, s := range storesToField(ctx, m.Named, fi) {
			pos := ctx.Prog.Pos(s.Instr.Pos())
			name := s.Fn.Name()
			initLike := name == "Reset" || strings.HasPrefix(name, "Init")
			switch {
			case s.Whole:
				if !initLike {
					ok = false
					R.Fail("stopped", fmt.Sprintf("%s:%s:whole-struct-store:%s", rs, fname, fnShort(s.Fn)), pos, "the whole CPU value is replaced outside Reset/Init*")
				}
			case fname == "Stopped":
				c, isConst := s.Instr.Val.(*ssa.Const)
				val := isConst && c.Value != nil && c.Value.String() == "true"
				switch {
				case !isConst:
					ok = false
					R.Fail("stopped", fmt.Sprintf("%s:Stopped:store:%s", rs, fnShort(s.Fn)), pos, "Stopped is assigned a computed value")
				case val && s.Fn != stpProc:
					ok = false
					R.Fail("stopped", fmt.Sprintf("%s:Stopped:set:%s", rs, fnShort(s.Fn)), pos, "Stopped is set outside the STP routine")
				case !val && !initLike:
					ok = false
					R.Fail("stopped", fmt.Sprintf("%s:Stopped:clear:%s", rs, fnShort(s.Fn)), pos, "Stopped is cleared outside Reset/Init*")
				}
			case fname == "AllCycles":
				if s.Fn != m.Step && !initLike {
					ok = false
					R.Fail("accounting", fmt.Sprintf("%s:AllCycles:store:%s", rs, fnShort(s.Fn)), pos, "AllCycles is stored outside Step")
				}
			}
		}
		for _, esc := range addrEscapesOfField(ctx, m.Named, fi) {
			ok = false
			R.Fail("stopped", fmt.Sprintf("%s:%s:address-escapes:%s", rs, fname, fnShort(esc.Parent())), ctx.Prog.Pos(esc.Pos()), "the field's address is used other than for a direct load/store")
		}
		if ok {
			rule := "stopped"
			if fname == "AllCycles" {
				rule = "accounting"
			}
			R.Pass(rule, rs+":writers:"+fname, "", "stores confined to the permitted functions")
		}
	}
}

// checkOnPCShape: the callback is invoked only on the found-edge of its own lookup.
func checkOnPCShape(ctx *Ctx, m *CPUModel, rs string) {
	R := ctx.R
	fi := fieldIndex(m.Struct, "OnPC")
	if fi < 0 {
		return
	}
	var lookups []*ssa.Lookup
	for _, fn := range ctx.Prog.AllFuncs() {
		for _, b := range fn.Blocks {
			for _, in := range b.Instrs {
				if lk, ok := in.(*ssa.Lookup); ok && isFieldLoad(lk.X, m.Named, fi) {
					lookups = append(lookups, lk)
				}
			}
		}
	}
	if len(lookups) == 0 {
		R.Pass("callbacks", rs+":OnPC:shape", "", "this interpreter declares OnPC but never consults it (clause not applicable to it)")
		return
	}
	for _, lk := range lookups {
		pos := ctx.Prog.Pos(lk.Pos())
		key := fmt.Sprintf("%s:OnPC:shape:%s", rs, fnShort(lk.Parent()))
		if lk.Parent() != m.Step || !lk.CommaOk {
			R.Fail("callbacks", key, pos, "OnPC is consulted outside Step or without the found flag")
			continue
		}
		var okV, fnV ssa.Value
		for _, ref := range *lk.Referrers() {
			if ex, ok := ref.(*ssa.Extract); ok {
				if ex.Index == 1 {
					okV = ex
				} else {
					fnV = ex
				}
			}
		}
		var iff *ssa.If
		if okV != nil {
			for _, ref := range *okV.Referrers() {
				if i, ok := ref.(*ssa.If); ok {
					iff = i
				}
			}
		}
		if iff == nil || fnV == nil {
			R.Fail("callbacks", key, pos, "the found flag of the lookup does not guard anything")
			continue
		}
		bad := ""
		ncalls := 0
		for _, ref := range *fnV.Referrers() {
			c, ok := ref.(*ssa.Call)
			if !ok || c.Call.Value != fnV {
				if _, isDbg := ref.(*ssa.DebugRef); !isDbg {
					bad = "the looked-up callback is used other than by calling it"
				}
				continue
			}
			ncalls++
			if !edgeDominates(iff.Block(), 0, c.Block()) {
				bad = "the callback call is not confined to the found edge"
			}
		}
		if ncalls != 1 && bad == "" {
			bad = fmt.Sprintf("%d calls of the looked-up callback", ncalls)
		}
		if bad != "" {
			R.Fail("callbacks", key, pos, bad)
		} else {
			R.Pass("callbacks", key, pos, "called once, only when found")
		}
	}
}

// checkRunUntil decides the structural loop rules on emulator.System.RunUntil.
func onPath(path []*ssa.BasicBlock, b *ssa.BasicBlock) bool {
	for _, x := range path {
		if x == b {
			return true
		}
	}
	return false
}

// definedIn: v is an instruction of one of the blocks (a value of the pass being walked, not of the previous one).
func definedIn(v ssa.Value, blocks []*ssa.BasicBlock) bool {
	in, ok := v.(ssa.Instruction)
	return ok && onPath(blocks, in.Block())
}

func pathString(path []*ssa.BasicBlock) string {
	var s []string
	for _, b := range path {
		s = append(s, fmt.Sprint(b.Index))
	}
	return "blocks " + strings.Join(s, ">")
}

// checkGetPC: the address RunUntil compares with its target is the CPU's program bank and program counter,
// bank<<16 | pc: the 24-bit address of the instruction about to execute.
func checkGetPC(ctx *Ctx) {
	R := ctx.R
	fn := ctx.Prog.Method("emulator", "System", "GetPC")
	sysT := ctx.Prog.Pkg("emulator").Type("System")
	if fn == nil || sysT == nil {
		R.Fail("rununtil", "GetPC", "", "emulator.(*System).GetPC not found")
		return
	}
	pos := ctx.Prog.Pos(fn.Pos())
	sn := sysT.Type().(*types.Named)
	ip := absint.New()
	sp := &absint.Ptr{Nil: absint.TriF, Obj: ip.SymObj("s", sn), T: sn}
	res, out := ip.Call(fn, []absint.Val{sp}, nil, &absint.State{Heap: absint.NewHeap(nil)})
	rv, _ := res.(*absint.Int)
	if out == nil || rv == nil || len(ip.Imprec) > 0 || rv.W != 32 {
		R.Fail("rununtil", "GetPC", pos, fmt.Sprintf("not interpretable: %v", ip.Imprec))
		return
	}
	// bits 0..15 are the bits of one 16-bit entry value, bits 16..23 those of one 8-bit entry value, named PC and RK
	msg := ""
	var pcA, rkA *absint.Atom
	for i := 0; i < 32; i++ {
		b := rv.Bits[i]
		switch {
		case i < 16:
			if b.K != absint.BLit || b.Neg || int(b.Idx) != i || (pcA != nil && b.A != pcA) {
				msg = fmt.Sprintf("bit %d of the result is %s, want bit %d of the program counter", i, b, i)
			} else {
				pcA = b.A
			}
		case i < 24:
			if b.K != absint.BLit || b.Neg || int(b.Idx) != i-16 || (rkA != nil && b.A != rkA) {
				msg = fmt.Sprintf("bit %d of the result is %s, want bit %d of the program bank", i, b, i-16)
			} else {
				rkA = b.A
			}
		default:
			if b.K != absint.BZero {
				msg = fmt.Sprintf("bit %d of the result is %s, want 0", i, b)
			}
		}
	}
	if msg == "" && (pcA == nil || rkA == nil || !strings.HasSuffix(pcA.Key, ".PC") || !strings.HasSuffix(rkA.Key, ".RK")) {
		msg = fmt.Sprintf("the result is built from %v and %v, want the CPU's RK and PC", rkA, pcA)
	}
	if msg != "" {
		R.Fail("rununtil", "GetPC", pos, msg)
	} else {
		R.Pass("rununtil", "GetPC", pos, "RK<<16 | PC of the CPU")
	}
	// SetPC is its inverse: after SetPC(a), GetPC() is a & $FFFFFF
	if set := ctx.Prog.Method("emulator", "System", "SetPC"); set != nil && len(set.Params) == 2 && pcA != nil && rkA != nil {
		ip2 := absint.New()
		sp2 := &absint.Ptr{Nil: absint.TriF, Obj: ip2.SymObj("s", sn), T: sn}
		aa := ip2.In.Atom("a", 32, 0xFFFFFFFF)
		_, out1 := ip2.Call(set, []absint.Val{sp2, absint.NewSym(32, aa, false)}, nil, &absint.State{Heap: absint.NewHeap(nil)})
		spos := ctx.Prog.Pos(set.Pos())
		if out1 == nil || len(ip2.Imprec) > 0 {
			R.Fail("rununtil", "SetPC", spos, fmt.Sprintf("not interpretable: %v", ip2.Imprec))
			return
		}
		res2, out2 := ip2.Call(fn, []absint.Val{sp2}, nil, out1)
		r2, _ := res2.(*absint.Int)
		bad := ""
		if out2 == nil || r2 == nil {
			bad = "GetPC after SetPC is not interpretable"
		} else {
			for i := 0; i < 32; i++ {
				b := r2.Bits[i]
				if i < 24 && (b.K != absint.BLit || b.A != aa || int(b.Idx) != i || b.Neg) {
					bad = fmt.Sprintf("after SetPC(a), bit %d of GetPC() is %s, want bit %d of a", i, b, i)
				}
				if i >= 24 && b.K != absint.BZero {
					bad = fmt.Sprintf("after SetPC(a), bit %d of GetPC() is %s, want 0", i, b)
				}
			}
		}
		if bad != "" {
			R.Fail("rununtil", "SetPC", spos, bad)
		} else {
			R.Pass("rununtil", "SetPC", spos, "GetPC() after SetPC(a) is a & $FFFFFF")
		}
	}
}

func checkRunUntil(ctx *Ctx) {
	R := ctx.R
	checkGetPC(ctx)
	fn := ctx.Prog.Method("emulator", "System", "RunUntil")
	if fn == nil {
		R.Fail("rununtil", "function", "", "emulator.(*System).RunUntil not found")
		return
	}
	pos := ctx.Prog.Pos(fn.Pos())
	fail := func(c, msg string) { R.Fail("rununtil", c, pos, msg) }
	if len(fn.Params) != 3 {
		fail("signature", "RunUntil(targetPC, maxCycles) expected")
		return
	}
	target, budget := fn.Params[1], fn.Params[2]
	isStep := func(f *ssa.Function) bool {
		return f.Name() == "Step" && f.Signature.Recv() != nil && f.Signature.Results().Len() == 2
	}
	getPC := ctx.Prog.Method("emulator", "System", "GetPC")
	isGetPC := func(f *ssa.Function) bool { return f == getPC }
	steps := callsIn(fn, isStep)
	loops := loopsOf(fn)
	if len(loops) != 1 {
		fail("loop", fmt.Sprintf("%d loops, want exactly one", len(loops)))
		return
	}
	L := loops[0]
	if len(steps) != 1 {
		fail("step-call", fmt.Sprintf("%d calls of Step, want exactly one", len(steps)))
		return
	}
	step := steps[0]
	if !L.Body[step.Block()] {
		fail("step-call", "Step is called outside the loop")
	}
	okAll := true
	// Path form of the loop rules: every acyclic path of one iteration (header -> back edge, or header -> exit) is
	// enumerated with the branch outcomes it takes; boolean values are resolved along the path (negations, the
	// merges of && / || and of if-assigned flags), so the rules do not depend on how the conditions are spelled.
	type lit struct {
		atom  ssa.Value
		neg   bool
		konst bool
		c     bool
	}
	type iterPath struct {
		blocks []*ssa.BasicBlock
		back   bool // ends with the back edge (otherwise leaves the loop)
		facts  map[ssa.Value]bool
	}
	var resolve func(v ssa.Value, path []*ssa.BasicBlock, env map[*ssa.Phi]ssa.Value, envPath []*ssa.BasicBlock) ssa.Value
	resolve = func(v ssa.Value, path []*ssa.BasicBlock, env map[*ssa.Phi]ssa.Value, envPath []*ssa.BasicBlock) ssa.Value {
		for depth := 0; depth < 32; depth++ {
			ph, ok := v.(*ssa.Phi)
			if !ok {
				return v
			}
			if ph.Block() == L.Header {
				if env != nil {
					if nv, ok := env[ph]; ok {
						// the value the previous iteration left: resolved along that iteration's path
						return resolve(nv, envPath, nil, nil)
					}
				}
				return v
			}
			idx := -1
			for i, pb := range path {
				if pb == ph.Block() {
					idx = i
				}
			}
			if idx <= 0 {
				return v
			}
			e := -1
			for i, pr := range ph.Block().Preds {
				if pr == path[idx-1] {
					e = i
				}
			}
			if e < 0 {
				return v
			}
			v = ph.Edges[e]
		}
		return v
	}
	var evalB func(v ssa.Value, path []*ssa.BasicBlock, env map[*ssa.Phi]ssa.Value, envPath []*ssa.BasicBlock) lit
	evalB = func(v ssa.Value, path []*ssa.BasicBlock, env map[*ssa.Phi]ssa.Value, envPath []*ssa.BasicBlock) lit {
		v = resolve(v, path, env, envPath)
		switch t := v.(type) {
		case *ssa.Const:
			if t.Value != nil && t.Value.Kind() == constant.Bool {
				return lit{konst: true, c: constant.BoolVal(t.Value)}
			}
		case *ssa.UnOp:
			if t.Op == token.NOT {
				// the operand of a value computed in the previous iteration is resolved in that iteration
				pp, ee, ep := path, env, envPath
				if env != nil && !onPath(path, t.Block()) {
					pp, ee, ep = envPath, nil, nil
				}
				l := evalB(t.X, pp, ee, ep)
				if l.konst {
					l.c = !l.c
				} else {
					l.neg = !l.neg
				}
				return l
			}
		}
		return lit{atom: v}
	}
	var paths []iterPath
	var walk func(b *ssa.BasicBlock, cur []*ssa.BasicBlock)
	tooMany := false
	walk = func(b *ssa.BasicBlock, cur []*ssa.BasicBlock) {
		if len(paths) > 4096 {
			tooMany = true
			return
		}
		cur = append(cur, b)
		if len(b.Succs) == 0 {
			paths = append(paths, iterPath{blocks: append([]*ssa.BasicBlock(nil), cur...)})
			return
		}
		for _, sc := range b.Succs {
			switch {
			case sc == L.Header:
				paths = append(paths, iterPath{blocks: append([]*ssa.BasicBlock(nil), cur...), back: true})
			case !L.Body[sc]:
				paths = append(paths, iterPath{blocks: append(append([]*ssa.BasicBlock(nil), cur...), sc)})
			case onPath(cur, sc):
				tooMany = true // an inner cycle: not a single natural loop
			default:
				walk(sc, cur)
			}
		}
	}
	walk(L.Header, nil)
	if tooMany {
		fail("loop", "the loop body is not a set of acyclic iteration paths")
		return
	}
	factsOf := func(path []*ssa.BasicBlock, env map[*ssa.Phi]ssa.Value, envPath []*ssa.BasicBlock) (map[ssa.Value]bool, bool) {
		facts := map[ssa.Value]bool{}
		for i := 0; i+1 < len(path); i++ {
			iff, ok := path[i].Instrs[len(path[i].Instrs)-1].(*ssa.If)
			if !ok {
				continue
			}
			taken := path[i].Succs[0] == path[i+1]
			if path[i].Succs[0] == path[i].Succs[1] {
				continue
			}
			l := evalB(iff.Cond, path[:i+1], env, envPath)
			if l.konst {
				if l.c != taken {
					return nil, false // infeasible
				}
				continue
			}
			val := taken != l.neg
			if old, ok := facts[l.atom]; ok && old != val {
				return nil, false
			}
			facts[l.atom] = val
		}
		return facts, true
	}
	// a path that ends with the back edge carries its last branch too
	fullBlocks := func(p iterPath) []*ssa.BasicBlock {
		if p.back {
			return append(append([]*ssa.BasicBlock(nil), p.blocks...), L.Header)
		}
		return p.blocks
	}
	var feasible []iterPath
	for _, p := range paths {
		f, ok := factsOf(fullBlocks(p), nil, nil)
		if !ok {
			continue
		}
		p.facts = f
		feasible = append(feasible, p)
	}
	isBudgetTrue := func(atom ssa.Value, val bool) *ssa.Phi {
		bo, ok := atom.(*ssa.BinOp)
		if !ok {
			return nil
		}
		var c ssa.Value
		switch {
		case bo.Op == token.LSS && bo.Y == budget && val, bo.Op == token.GEQ && bo.Y == budget && !val:
			c = bo.X
		case bo.Op == token.GTR && bo.X == budget && val, bo.Op == token.LEQ && bo.X == budget && !val:
			c = bo.Y
		default:
			return nil
		}
		if ph, ok := c.(*ssa.Phi); ok && ph.Block() == L.Header && types.Identical(ph.Type(), budget.Type()) {
			return ph
		}
		return nil
	}
	// a parameter captured by a closure lives in a cell that is stored once: a load of that cell is the parameter
	spillOf := func(a *ssa.Alloc) ssa.Value {
		var stored []ssa.Value
		for _, r := range *a.Referrers() {
			if st, ok := r.(*ssa.Store); ok && st.Addr == ssa.Value(a) {
				stored = append(stored, st.Val)
			}
		}
		if len(stored) == 1 {
			return stored[0]
		}
		return nil
	}
	isTarget := func(v ssa.Value) bool {
		if v == ssa.Value(target) {
			return true
		}
		if u, ok := v.(*ssa.UnOp); ok && u.Op == token.MUL {
			if a, ok := u.X.(*ssa.Alloc); ok && spillOf(a) == ssa.Value(target) {
				return true
			}
		}
		return false
	}
	// targetClosure: a function literal `func() bool { return s.GetPC() == targetPC }` made in RunUntil
	targetClosure := func(v ssa.Value) bool {
		mc, ok := v.(*ssa.MakeClosure)
		if !ok {
			return false
		}
		g, ok := mc.Fn.(*ssa.Function)
		if !ok || len(g.Blocks) != 1 || len(g.Params) != 0 {
			return false
		}
		ret, ok := g.Blocks[0].Instrs[len(g.Blocks[0].Instrs)-1].(*ssa.Return)
		if !ok || len(ret.Results) != 1 {
			return false
		}
		bo, ok := ret.Results[0].(*ssa.BinOp)
		if !ok || bo.Op != token.EQL {
			return false
		}
		boundTo := func(v ssa.Value) ssa.Value { // what the free variable loaded by v was bound to
			u, ok := v.(*ssa.UnOp)
			if !ok || u.Op != token.MUL {
				return nil
			}
			for i, fv := range g.FreeVars {
				if u.X == ssa.Value(fv) && i < len(mc.Bindings) {
					if a, ok := mc.Bindings[i].(*ssa.Alloc); ok {
						return spillOf(a)
					}
				}
			}
			return nil
		}
		for _, pair := range [][2]ssa.Value{{bo.X, bo.Y}, {bo.Y, bo.X}} {
			c, ok := pair[0].(*ssa.Call)
			if !ok || c.Call.StaticCallee() == nil || !isGetPC(c.Call.StaticCallee()) || len(c.Call.Args) != 1 {
				continue
			}
			if boundTo(c.Call.Args[0]) == ssa.Value(fn.Params[0]) && boundTo(pair[1]) == ssa.Value(target) {
				// nothing else happens in the closure
				for _, in := range g.Blocks[0].Instrs {
					switch in.(type) {
					case *ssa.Store, *ssa.MapUpdate, *ssa.Send, *ssa.Go, *ssa.Defer, *ssa.Panic:
						return false
					case *ssa.Call:
						if in != ssa.Instruction(c) {
							return false
						}
					}
				}
				return true
			}
		}
		return false
	}
	isTargetEq := func(atom ssa.Value) *ssa.Call {
		if c, ok := atom.(*ssa.Call); ok && targetClosure(c.Call.Value) {
			return c // the comparison is made by the call itself
		}
		bo, ok := atom.(*ssa.BinOp)
		if !ok || (bo.Op != token.EQL && bo.Op != token.NEQ) {
			return nil
		}
		for _, pair := range [][2]ssa.Value{{bo.X, bo.Y}, {bo.Y, bo.X}} {
			if c, ok := pair[0].(*ssa.Call); ok && isTarget(pair[1]) && c.Call.StaticCallee() != nil && isGetPC(c.Call.StaticCallee()) {
				return c
			}
		}
		return nil
	}
	var counter *ssa.Phi
	nStepPaths := 0
	for _, p := range feasible {
		if !onPath(p.blocks, step.Block()) {
			continue
		}
		nStepPaths++
		// (1) budget: the path holds cycles < maxCycles for the counter of this iteration
		var c *ssa.Phi
		for a, v := range p.facts {
			if ph := isBudgetTrue(a, v); ph != nil {
				c = ph
			}
		}
		if c == nil {
			fail("budget", "an iteration reaches Step without having established cycles < maxCycles: "+pathString(p.blocks))
			okAll = false
			continue
		}
		if counter != nil && counter != c {
			fail("budget", "different counters are compared with the budget on different paths")
			okAll = false
		}
		counter = c
		// (2) target: the path holds GetPC() != targetPC, read on this path with no effect before Step
		var pcCall *ssa.Call
		for a, v := range p.facts {
			if cl := isTargetEq(a); cl != nil {
				eq := v
				if bo, isB := a.(*ssa.BinOp); isB && bo.Op == token.NEQ {
					eq = !v
				}
				if !eq && onPath(p.blocks, cl.Block()) {
					pcCall = cl
				}
			}
		}
		if pcCall == nil {
			fail("target-test", "an iteration reaches Step without having found GetPC() != targetPC: "+pathString(p.blocks))
			okAll = false
			continue
		}
		started := false
		for _, b := range p.blocks {
			lo, hi := -1, len(b.Instrs)
			if b == pcCall.Block() {
				if b == step.Block() && instrIndex(step) < instrIndex(pcCall) {
					fail("target-test", "Step is called before the PC is read")
					okAll = false
					break
				}
				started = true
				lo = instrIndex(pcCall)
			}
			if !started {
				continue
			}
			if b == step.Block() {
				hi = instrIndex(step)
			}
			if e := hasEffectBetween(b, lo, hi); e != nil {
				fail("target-test", "an effect occurs between reading the PC and Step: "+e.String())
				okAll = false
			}
			if b == step.Block() {
				break
			}
		}
		// (3) the counter advances by Step's first result on the way back to the header
		if p.back {
			latch := p.blocks[len(p.blocks)-1]
			for i, pr := range L.Header.Preds {
				if pr != latch {
					continue
				}
				nv := resolve(c.Edges[i], fullBlocks(p), nil, nil)
				add, ok := nv.(*ssa.BinOp)
				good := false
				if ok && add.Op == token.ADD {
					for _, pair := range [][2]ssa.Value{{add.X, add.Y}, {add.Y, add.X}} {
						if resolve(pair[0], p.blocks, nil, nil) != ssa.Value(c) {
							continue
						}
						if cv, ok := pair[1].(*ssa.Convert); ok {
							if ex, ok := cv.X.(*ssa.Extract); ok && ex.Tuple == step && ex.Index == 0 {
								good = true
							}
						}
					}
				}
				if !good {
					fail("counter-advance", "after Step the counter is not cycles + uint64(first result of Step): "+nv.String())
					okAll = false
				}
			}
		}
	}
	if nStepPaths == 0 {
		fail("step-call", "no feasible iteration calls Step")
		okAll = false
	}
	if counter != nil {
		for i, pr := range L.Header.Preds {
			if L.Body[pr] {
				continue
			}
			if c, ok := counter.Edges[i].(*ssa.Const); !ok || c.Uint64() != 0 {
				fail("counter-init", "the cycle counter does not start at 0")
				okAll = false
			}
		}
	}
	// (4) an iteration that does not call Step must not be followed by another one: taking the values it leaves
	// in the header's variables, the next pass from the header leaves the loop before any undecided branch
	for _, p := range feasible {
		if !p.back || onPath(p.blocks, step.Block()) {
			continue
		}
		latch := p.blocks[len(p.blocks)-1]
		env := map[*ssa.Phi]ssa.Value{}
		for i, pr := range L.Header.Preds {
			if pr != latch {
				continue
			}
			for _, in := range L.Header.Instrs {
				if ph, ok := in.(*ssa.Phi); ok {
					env[ph] = ph.Edges[i]
				}
			}
		}
		prev := fullBlocks(p)
		cur := []*ssa.BasicBlock{L.Header}
		b := L.Header
		left := false
		for steps := 0; steps < 64; steps++ {
			if !L.Body[b] {
				left = true
				break
			}
			if b == step.Block() && steps > 0 || len(b.Succs) == 0 {
				break
			}
			var next *ssa.BasicBlock
			if len(b.Succs) == 1 {
				next = b.Succs[0]
			} else {
				iff := b.Instrs[len(b.Instrs)-1].(*ssa.If)
				l := evalB(iff.Cond, cur, env, prev)
				decided, val := false, false
				if l.konst {
					decided, val = true, l.c
				} else if fv, ok := p.facts[l.atom]; ok && !definedIn(l.atom, cur) {
					decided, val = true, fv != l.neg
				}
				if !decided {
					break
				}
				if val {
					next = b.Succs[0]
				} else {
					next = b.Succs[1]
				}
			}
			if next == L.Header {
				break
			}
			cur = append(cur, next)
			b = next
		}
		if !left {
			fail("progress", "an iteration that does not call Step can be followed by another one (the counter does not advance, the loop may not end): "+pathString(p.blocks))
			okAll = false
		}
	}
	// result
	for _, b := range fn.Blocks {
		ret, ok := b.Instrs[len(b.Instrs)-1].(*ssa.Return)
		if !ok {
			continue
		}
		good := false
		if len(ret.Results) == 1 {
			if c, ok := ret.Results[0].(*ssa.Call); ok && targetClosure(c.Call.Value) && !L.Body[c.Block()] {
				good = !reaches(c.Block(), step.Block(), nil)
			}
			if bo, ok := ret.Results[0].(*ssa.BinOp); ok && bo.Op == token.EQL {
				for _, pair := range [][2]ssa.Value{{bo.X, bo.Y}, {bo.Y, bo.X}} {
					if c, ok := pair[0].(*ssa.Call); ok && isTarget(pair[1]) && c.Call.StaticCallee() != nil && isGetPC(c.Call.StaticCallee()) && !L.Body[c.Block()] {
						// no Step can follow the final read of the PC
						good = !reaches(c.Block(), step.Block(), nil)
					}
				}
			}
		}
		if !good {
			fail("result", "a return does not yield GetPC()==targetPC evaluated after the loop")
			okAll = false
		}
	}
	if okAll {
		R.Pass("rununtil", "emulator.(*System).RunUntil", pos, "iteration paths: budget and target tests hold on every path to Step, counter advance, no idle repetition, result as required")
	}
	R.Count("rununtil-function", 1)
	R.Floor("rununtil-function", 1)
}
