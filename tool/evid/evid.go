// Package evid collects obligations, matches them against known findings and writes
// the evidence and replay files.
package evid

import (
	"encoding/json"
	"fmt"
	"os"
	"path/filepath"
	"sort"
	"strings"
	"time"
)

// Obligation is one statically decided proof obligation.
type Obligation struct {
	Key    string         `json:"key"`  // Cxx/rule/construct — no line numbers
	Rule   string         `json:"rule"` // rule text
	Pos    string         `json:"pos,omitempty"`
	OK     bool           `json:"ok"`
	Detail string         `json:"detail,omitempty"`
	Extra  map[string]any `json:"extra,omitempty"`
}

type Report struct {
	Property    string
	Level       string
	Tier        string
	Seed        int64
	Start       time.Time
	Obls        []Obligation
	Analysed    map[string]any
	Explanation string
	Trusted     []string
	Assumptions []string
	Rules       map[string]string // rule id -> text
	Counts      map[string]int    // instance counters
	Floors      map[string]int    // minimum instance counts
	CheckerCmd  string
	Exhaustive  bool
	sampleMax   int
}

func New(prop, level, tier string, seed int64) *Report {
	return &Report{Property: prop, Level: level, Tier: tier, Seed: seed, Start: time.Now(),
		Analysed: map[string]any{}, Rules: map[string]string{}, Counts: map[string]int{}, Floors: map[string]int{}}
}

func (r *Report) Rule(id, text string) { r.Rules[id] = text }

// Add records an obligation. rule is the rule id (must have been declared with Rule).
func (r *Report) Add(rule, construct, pos string, ok bool, detail string, extra map[string]any) {
	r.Obls = append(r.Obls, Obligation{Key: r.Property + "/" + rule + "/" + construct, Rule: rule, Pos: pos, OK: ok, Detail: detail, Extra: extra})
	r.Counts["obl:"+rule]++
}

func (r *Report) Pass(rule, construct, pos, detail string) {
	r.Add(rule, construct, pos, true, detail, nil)
}
func (r *Report) Fail(rule, construct, pos, detail string) {
	r.Add(rule, construct, pos, false, detail, nil)
}

// Floor declares that counter name must reach at least n.
func (r *Report) Floor(name string, n int) { r.Floors[name] = n }
func (r *Report) Count(name string, n int) { r.Counts[name] += n }

type Finding struct {
	Property    string `json:"property"`
	Key         string `json:"key"`
	What        string `json:"what"`
	WhyNotFixed string `json:"why_not_fixed,omitempty"`
	// Observed, when set, must occur in the failing obligation's detail: the finding is this particular failure of
	// the obligation, any other way of failing it is a violation
	Observed string `json:"observed,omitempty"`
}
type Fixed struct {
	Property string `json:"property"`
	Commit   string `json:"commit"`
	Key      string `json:"key"`
	What     string `json:"what"`
}
type Known struct {
	Findings []Finding `json:"findings"`
	Fixed    []Fixed   `json:"fixed"`
}

func LoadKnown(path string) (*Known, error) {
	k := &Known{}
	b, err := os.ReadFile(path)
	if err != nil {
		if os.IsNotExist(err) {
			return k, nil
		}
		return nil, err
	}
	if err := json.Unmarshal(b, k); err != nil {
		return nil, fmt.Errorf("%s: %w", path, err)
	}
	return k, nil
}

// Finish checks floors, writes evidence and replay files, prints the protocol
// lines and returns the exit code.
func (r *Report) Finish(verifDir string, known *Known) int {
	if r.Trusted == nil {
		r.Trusted = []string{}
	}
	r.Assumptions = append(append([]string{}, r.Assumptions...), r.Trusted...)
	// floors: an instance count below what was confirmed by hand fails
	var floorNames []string
	for n := range r.Floors {
		floorNames = append(floorNames, n)
	}
	sort.Strings(floorNames)
	for _, n := range floorNames {
		if r.Counts[n] < r.Floors[n] {
			r.Obls = append(r.Obls, Obligation{Key: r.Property + "/floor/" + n, Rule: "floor", OK: false,
				Detail: fmt.Sprintf("instance count %s = %d is below the floor %d: the rule lost its subjects", n, r.Counts[n], r.Floors[n])})
		}
	}
	r.Rules["floor"] = "every rule must see at least the recorded number of instances; a rule matching nothing passes vacuously"

	knownSet := map[string]Finding{}
	for _, f := range known.Findings {
		if f.Property == r.Property {
			knownSet[f.Key] = f
		}
	}
	var viol, knownHit []Obligation
	discharged := 0
	for _, o := range r.Obls {
		if o.OK {
			discharged++
			continue
		}
		if f, ok := knownSet[o.Key]; ok && (f.Observed == "" || strings.Contains(o.Detail, f.Observed)) {
			knownHit = append(knownHit, o)
		} else {
			viol = append(viol, o)
		}
	}
	evDir := filepath.Join(verifDir, "evidence")
	os.MkdirAll(filepath.Join(evDir, "replay"), 0o755)
	// remove stale replay files of this property
	old, _ := filepath.Glob(filepath.Join(evDir, "replay", r.Property+"-*.json"))
	for _, f := range old {
		os.Remove(f)
	}
	for _, o := range knownHit {
		fmt.Printf("KNOWN-FINDING: property=%s %s — %s\n", r.Property, o.Key, knownSet[o.Key].What)
	}
	for i, o := range viol {
		path := filepath.Join(evDir, "replay", fmt.Sprintf("%s-%d.json", r.Property, i+1))
		b, _ := json.MarshalIndent(map[string]any{"property": r.Property, "obligation": o, "rule_text": r.Rules[o.Rule],
			"explain_cmd": fmt.Sprintf("./check %s --explain %s", r.Property, path)}, "", " ")
		os.WriteFile(path, b, 0o644)
		fmt.Printf("VIOLATION property=%s replay=%s\n", r.Property, path)
		fmt.Printf("  %s @ %s: %s\n", o.Key, o.Pos, o.Detail)
		if i >= 40 {
			fmt.Printf("  … %d further violations listed in the evidence file\n", len(viol)-i-1)
			break
		}
	}
	// samples: a few obligations written out, failing ones first
	var samples []any
	add := func(o Obligation) {
		if len(samples) < 12 {
			samples = append(samples, o)
		}
	}
	for _, o := range viol {
		add(o)
	}
	for _, o := range knownHit {
		add(o)
	}
	perRule := map[string]int{}
	for _, o := range r.Obls {
		if o.OK && perRule[o.Rule] < 2 {
			perRule[o.Rule]++
			add(o)
		}
	}
	distinct := map[string]bool{}
	for _, o := range r.Obls {
		distinct[o.Key] = true
	}
	cov := map[string]any{
		"obligations":         len(r.Obls),
		"discharged":          discharged,
		"known_findings":      len(knownHit),
		"checker_cmd":         r.CheckerCmd,
		"trusted_base":        r.Trusted,
		"explanation":         r.Explanation,
		"evaluations":         len(r.Obls),
		"distinct_nontrivial": len(distinct),
		"rule":                "one evaluation per statically decided obligation (rule × construct); distinct = distinct obligation keys; every obligation is a statement about all inputs of its abstract cell, none is a concrete execution",
		"samples":             samples,
		"exhaustive":          r.Exhaustive,
		"rules":               r.Rules,
		"instance_counts":     r.Counts,
		"instance_floors":     r.Floors,
		"analysed":            r.Analysed,
	}
	var failing []Obligation
	failing = append(failing, viol...)
	failing = append(failing, knownHit...)
	if len(failing) > 200 {
		failing = failing[:200]
	}
	cov["failing"] = failing
	ev := map[string]any{
		"property_id": r.Property,
		"tier":        r.Tier,
		"seed":        r.Seed,
		"level":       r.Level,
		"coverage":    cov,
		"assumptions": r.Assumptions,
		"wall_s":      time.Since(r.Start).Seconds(),
		"violations":  len(viol),
	}
	b, _ := json.MarshalIndent(ev, "", " ")
	if err := os.WriteFile(filepath.Join(evDir, r.Property+".json"), b, 0o644); err != nil {
		fmt.Fprintln(os.Stderr, "cannot write evidence:", err)
		return 2
	}
	fmt.Printf("%s %s: %d obligations, %d discharged, %d known findings, %d violations (%.1fs)\n",
		r.Property, r.Tier, len(r.Obls), discharged, len(knownHit), len(viol), time.Since(r.Start).Seconds())
	if len(viol) > 0 {
		return 1
	}
	return 0
}
