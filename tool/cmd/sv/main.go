// sv decides the properties of /verif/properties.jsonl on the repository's current
// source by static analysis. Usage: sv -prop C04 -tier quick [-repo /repo] [-verif /verif]
package main

import (
	"flag"
	"fmt"
	"os"
	"path/filepath"
	"runtime/debug"
	"strconv"
	"strings"

	"verif/tool/evid"
	"verif/tool/load"
	"verif/tool/rules"
)

func main() {
	prop := flag.String("prop", "", "property id (C01..C19)")
	tier := flag.String("tier", "quick", "quick|thorough")
	repo := flag.String("repo", "/repo", "repository root")
	verif := flag.String("verif", "/verif", "verification directory (ref/, evidence/, known_findings.json)")
	list := flag.Bool("list", false, "list implemented properties")
	dbg := flag.String("debug", "", "developer dump")
	flag.Parse()
	if *list {
		fmt.Println(strings.Join(rules.IDs(), " "))
		return
	}
	if *dbg != "" {
		abs, _ := filepath.Abs(*repo)
		prog, err := load.Load(abs)
		if err != nil {
			fmt.Fprintln(os.Stderr, err)
			os.Exit(2)
		}
		rules.Debug(&rules.Ctx{Prog: prog, Tier: *tier, VerifDir: *verif, R: evid.New("dbg", "other", *tier, 0)}, *dbg)
		return
	}
	p, ok := rules.Registry[*prop]
	if !ok {
		fmt.Fprintf(os.Stderr, "unknown property %q (implemented: %s)\n", *prop, strings.Join(rules.IDs(), " "))
		os.Exit(2)
	}
	seed, _ := strconv.ParseInt(os.Getenv("VERIF_SEED"), 10, 64)
	rep := evid.New(p.ID, p.Level, *tier, seed)
	rep.CheckerCmd = fmt.Sprintf("./check %s %s", p.ID, *tier)
	known, err := evid.LoadKnown(filepath.Join(*verif, "known_findings.json"))
	if err != nil {
		fmt.Fprintln(os.Stderr, "known_findings.json:", err)
		os.Exit(2)
	}
	abs, _ := filepath.Abs(*repo)
	prog, err := load.Load(abs)
	if err != nil {
		// a tree that does not load cannot be analysed: that is a failed check, not a pass
		rep.Rule("load", "the repository must load and type-check completely; a partial program would pass vacuously")
		rep.Fail("load", "packages", "", err.Error())
		os.Exit(rep.Finish(*verif, known))
	}
	rep.Analysed["packages"] = len(prog.Pkgs)
	rep.Count("packages", len(prog.Pkgs))
	rep.Floor("packages", 13)
	ctx := &rules.Ctx{Prog: prog, Tier: *tier, VerifDir: *verif, R: rep}
	func() {
		defer func() {
			if r := recover(); r != nil {
				rep.Rule("engine", "the analysis engine must complete; a panic is reported as an undecided obligation")
				rep.Fail("engine", "panic", "", fmt.Sprintf("%v\n%s", r, debug.Stack()))
			}
		}()
		p.Run(ctx)
	}()
	os.Exit(rep.Finish(*verif, known))
}
