// Package load type-checks the repository under analysis and builds its SSA form.
package load

import (
	"fmt"
	"go/token"
	"go/types"
	"os"
	"sort"
	"strings"

	"golang.org/x/tools/go/packages"
	"golang.org/x/tools/go/ssa"
	"golang.org/x/tools/go/ssa/ssautil"
)

const ModulePath = "github.com/alttpo/snes"

// Program is the resolved program: syntax, types and SSA of every package of the module.
type Program struct {
	Repo  string
	Fset  *token.FileSet
	Pkgs  []*packages.Package // module packages only, sorted by path
	SSA   *ssa.Program
	ByPkg map[string]*ssa.Package // import path -> ssa package
	PkgOf map[string]*packages.Package
}

// Load loads ./... of repo. Any load or type error is returned: an analysis of a
// partially parsed program would pass vacuously.
func Load(repo string) (*Program, error) {
	os.Unsetenv("GOWORK")
	cfg := &packages.Config{
		Mode:  packages.LoadAllSyntax,
		Dir:   repo,
		Tests: false,
		Env: append(os.Environ(), "GOFLAGS=-mod=mod", "GOPROXY=off", "GOSUMDB=off",
			"GOTOOLCHAIN=local", "GOWORK=off"),
	}
	pkgs, err := packages.Load(cfg, "./...")
	if err != nil {
		return nil, fmt.Errorf("packages.Load: %w", err)
	}
	var errs []string
	packages.Visit(pkgs, nil, func(p *packages.Package) {
		for _, e := range p.Errors {
			errs = append(errs, e.Error())
		}
	})
	if len(errs) > 0 {
		return nil, fmt.Errorf("load/type errors: %s", strings.Join(errs, "; "))
	}
	if len(pkgs) == 0 {
		return nil, fmt.Errorf("no packages loaded from %s", repo)
	}
	prog, _ := ssautil.AllPackages(pkgs, ssa.InstantiateGenerics)
	prog.Build()
	p := &Program{Repo: repo, SSA: prog, ByPkg: map[string]*ssa.Package{}, PkgOf: map[string]*packages.Package{}}
	for _, pk := range pkgs {
		if pk.PkgPath == ModulePath || strings.HasPrefix(pk.PkgPath, ModulePath+"/") {
			p.Pkgs = append(p.Pkgs, pk)
			p.Fset = pk.Fset
			sp := prog.Package(pk.Types)
			if sp == nil {
				return nil, fmt.Errorf("no SSA for package %s", pk.PkgPath)
			}
			p.ByPkg[pk.PkgPath] = sp
			p.PkgOf[pk.PkgPath] = pk
		}
	}
	sort.Slice(p.Pkgs, func(i, j int) bool { return p.Pkgs[i].PkgPath < p.Pkgs[j].PkgPath })
	return p, nil
}

// Pkg returns the SSA package with the module-relative path rel ("" = root).
func (p *Program) Pkg(rel string) *ssa.Package {
	path := ModulePath
	if rel != "" {
		path += "/" + rel
	}
	return p.ByPkg[path]
}

// Func finds a package-level function.
func (p *Program) Func(rel, name string) *ssa.Function {
	pk := p.Pkg(rel)
	if pk == nil {
		return nil
	}
	return pk.Func(name)
}

// Method finds method name on named type typ (pointer or value receiver).
func (p *Program) Method(rel, typ, name string) *ssa.Function {
	pk := p.Pkg(rel)
	if pk == nil {
		return nil
	}
	t := pk.Type(typ)
	if t == nil {
		return nil
	}
	nt := t.Type()
	for _, recv := range []types.Type{nt, types.NewPointer(nt)} {
		ms := p.SSA.MethodSets.MethodSet(recv)
		for i := 0; i < ms.Len(); i++ {
			if ms.At(i).Obj().Name() == name {
				return p.SSA.MethodValue(ms.At(i))
			}
		}
	}
	return nil
}

// InModule reports whether fn belongs to the module under analysis.
func InModule(fn *ssa.Function) bool {
	if fn == nil {
		return false
	}
	pk := fn.Pkg
	if pk == nil && fn.Origin() != nil {
		pk = fn.Origin().Pkg
	}
	if pk == nil {
		// bound-method / thunk wrappers: look at the wrapped object
		if fn.Object() != nil && fn.Object().Pkg() != nil {
			pp := fn.Object().Pkg().Path()
			return pp == ModulePath || strings.HasPrefix(pp, ModulePath+"/")
		}
		return false
	}
	pp := pk.Pkg.Path()
	return pp == ModulePath || strings.HasPrefix(pp, ModulePath+"/")
}

// Pos renders a position relative to the repository root.
func (p *Program) Pos(pos token.Pos) string {
	if !pos.IsValid() {
		return "-"
	}
	q := p.Fset.Position(pos)
	f := strings.TrimPrefix(q.Filename, p.Repo+"/")
	return fmt.Sprintf("%s:%d", f, q.Line)
}

// AllFuncs returns every source-level function and method of the module (including
// anonymous functions), sorted by qualified name.
func (p *Program) AllFuncs() []*ssa.Function {
	var out []*ssa.Function
	seen := map[*ssa.Function]bool{}
	var add func(f *ssa.Function)
	add = func(f *ssa.Function) {
		if f == nil || seen[f] {
			return
		}
		seen[f] = true
		out = append(out, f)
		for _, a := range f.AnonFuncs {
			add(a)
		}
	}
	for f := range ssautil.AllFunctions(p.SSA) {
		if InModule(f) && f.Blocks != nil {
			add(f)
		}
	}
	sort.Slice(out, func(i, j int) bool { return out[i].String() < out[j].String() })
	return out
}
