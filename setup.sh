#!/bin/sh
# Builds the analyser from files on disk only (x/tools v0.29.0 from the module cache).
set -e
cd "$(dirname "$0")"
export GOFLAGS=-mod=mod GOPROXY=off GOSUMDB=off GOTOOLCHAIN=local
unset GOWORK
mkdir -p bin evidence/replay
(cd tool && go build -o ../bin/sv ./cmd/sv)
echo "built bin/sv"
