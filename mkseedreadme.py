#!/usr/bin/env python3
"""mkseedreadme.py: regenerate seeded/README.md from the meta.json files (table) plus seeded/CHANGES.md (static tail)."""
import json, os
root = "/verif/seeded"
rows = []
for sid in sorted(os.listdir(root)):
    mp = os.path.join(root, sid, "meta.json")
    if not os.path.exists(mp):
        continue
    m = json.load(open(mp))
    tgt = [c for c in m["caught_by"] if c["property"] == m["breaks_property"]]
    oth = [c["property"] for c in m["caught_by"] if c["property"] != m["breaks_property"]]
    rows.append((sid, m["breaks_property"], m["needs_to_manifest"], tgt[0]["expect_key"] if tgt else "— (missed)", ", ".join(oth) or "—"))
out = ["# Seeded changes", "",
 "Each directory holds one change to alttpo/snes that breaks one property while compiling and leaving the pinned test suite's result unchanged.",
 "They were written by independent sub-agents that saw only the text of one property (some with a hint which clause or area to aim at) and a scratch worktree of /repo.",
 "Each was confirmed with `verify_seed.py` (scratch copy under /var/tmp: the demo passes without the change, the change applies and builds, the suite has no new failure, the demo fails with the change) and then every check was run against the changed copy.",
 "None of them is ever committed to /repo. `selftest.sh` (run by `./check Cxx thorough`) re-applies every seed whose `caught_by` names the property to a scratch copy and requires exit 1 and the recorded obligation key; a miss prints `CHECKER-DEFECT` and fails the thorough check.",
 "`reverify_seeds.py` re-confirms all seeds against the current /repo and refreshes `caught_by`.", "",
 ("%d changes; every one is reported by the check of the property it breaks." % len(rows)) if not [r for r in rows if r[3].startswith("—")] else
 ("%d changes; every one is reported by some check, %d of them not by the check of the property named by their author but by a neighbouring one (%s) - see the last column." % (len(rows), len([r for r in rows if r[3].startswith("—")]), ", ".join(r[0] for r in rows if r[3].startswith("—")))), "",
 "| seed | breaks | needs, to manifest | obligation of the target check that fails | other checks that also fire |", "|---|---|---|---|---|"]
for r in rows:
    out.append("| %s | %s | %s | `%s` | %s |" % r)
out += ["", open(os.path.join(root, "CHANGES.md")).read()]
open(os.path.join(root, "README.md"), "w").write("\n".join(out))
print(len(rows), "seeds")
