#!/usr/bin/env python3
"""try_benign.py <dir-with-patch.diff> ...: apply a behaviour-preserving refactoring to a scratch copy of /repo (under /var/tmp),
build, run the baseline suite, then run every quick check against the copy. Prints one JSON line per patch:
which checks raise an alarm (these would be false alarms if the refactoring really preserves behaviour)."""
import json, os, shutil, subprocess, sys
from concurrent.futures import ThreadPoolExecutor
env = dict(os.environ, GOFLAGS="-mod=mod", GOPROXY="off", GOSUMDB="off", GOTOOLCHAIN="local")
env.pop("GOWORK", None)
def sh(cmd, cwd, timeout=1800):
    p = subprocess.run(cmd, shell=True, cwd=cwd, env=env, capture_output=True, text=True, timeout=timeout)
    return p.returncode, p.stdout + p.stderr
props = subprocess.run(["/verif/bin/sv", "-list"], capture_output=True, text=True).stdout.split()
def one(d):
    name = os.path.basename(d.rstrip("/"))
    repo = "/var/tmp/bn-%d-%s" % (os.getpid(), name)
    shutil.rmtree(repo, ignore_errors=True)
    shutil.copytree("/repo", repo, symlinks=True)
    res = {"patch": name}
    try:
        rc, out = sh("git apply --whitespace=nowarn " + os.path.abspath(d) + "/patch.diff", repo)
        res["applies"] = rc == 0
        if rc != 0:
            res["apply_output"] = out[-300:]; return res
        rc, out = sh("go build ./...", repo)
        res["builds"] = rc == 0
        if rc != 0:
            res["build_output"] = out[-300:]; return res
        rc, out = sh("go test -vet=off -count=1 ./... 2>&1 | grep -E '^(--- FAIL|FAIL|ok)' | sort", repo)
        fails = [l for l in out.splitlines() if l.startswith("--- FAIL") and "TestCPU_Step" not in l]
        res["suite_new_failures"] = fails
        alarms = {}
        vdir = repo + "/.verif-out"
        os.makedirs(vdir + "/evidence", exist_ok=True)
        for f in ("known_findings.json",):
            shutil.copy("/verif/" + f, vdir)
        os.symlink("/verif/ref", vdir + "/ref")
        for p in props:
            pr = subprocess.run(["/verif/bin/sv", "-prop", p, "-repo", repo, "-verif", vdir], capture_output=True, text=True, env=env)
            if pr.returncode != 0:
                keys = [l.split()[0] for l in pr.stdout.splitlines() if l.startswith("  " + p + "/")]
                alarms[p] = [k.strip() for k in keys][:6] or ["rc=%d" % pr.returncode]
        res["alarms"] = alarms
        return res
    finally:
        shutil.rmtree(repo, ignore_errors=True)
dirs = sys.argv[1:]
with ThreadPoolExecutor(max_workers=7) as ex:
    for r in ex.map(one, dirs):
        print(json.dumps(r))
